"""Program model: parse labella/*.py, index modules, classes, functions.

Nothing here imports or executes the analysed code; everything is `ast`.
"""
import ast
import hashlib
import os


class AnchorMissing(Exception):
    """An API-level name a property is anchored on does not exist any more."""


class Undecided(Exception):
    """A recogniser met a construct it cannot classify."""


PKG = "labella"


def acopy(x):
    """Deep copy of an AST node (or a list of nodes) that does not climb the `_parent` links out of the copied subtree
    (an ordinary deepcopy follows the root's `_parent` and copies the whole module)."""
    import copy

    memo = {}
    for r in (x if isinstance(x, list) else [x]):
        p = getattr(r, "_parent", None)
        if p is not None:
            memo[id(p)] = None
        if isinstance(r, ast.AST):
            for n in ast.walk(r):
                # Load/Store/Add/... objects are shared singletons of the parser (and carry a stray `_parent`): share them
                if isinstance(n, (ast.expr_context, ast.operator, ast.boolop, ast.unaryop, ast.cmpop)):
                    memo[id(n)] = n
    return copy.deepcopy(x, memo)


def _canonical_loops(tree):
    """`while True: if C: break; B` *is* `while not C: B` (the exit test runs first on every pass, `continue` in B re-tests
    either way, there is no `else`): every rule sees the second spelling.  Exits written after other statements of the body
    (loop-and-a-half) are a different loop and are left to the rules that know how to rotate them."""

    class T(ast.NodeTransformer):
        def visit_While(self, node):
            self.generic_visit(node)
            if isinstance(node.test, ast.Constant) and node.test.value is True and not node.orelse and len(node.body) >= 1:
                conds = []
                j = 0
                while j < len(node.body) and isinstance(node.body[j], ast.If) and not node.body[j].orelse and len(node.body[j].body) == 1 and isinstance(node.body[j].body[0], ast.Break):
                    conds.append(node.body[j].test)
                    j += 1
                if conds:
                    def neg(e):
                        if isinstance(e, ast.UnaryOp) and isinstance(e.op, ast.Not):
                            return e.operand
                        return ast.copy_location(ast.UnaryOp(op=ast.Not(), operand=e), e)

                    tests = [neg(c) for c in conds]
                    test = tests[0] if len(tests) == 1 else ast.copy_location(ast.BoolOp(op=ast.And(), values=tests), tests[0])
                    body = node.body[j:] or [ast.copy_location(ast.Pass(), node)]
                    return ast.copy_location(ast.While(test=test, body=body, orelse=[]), node)
            return node

        def visit_AnnAssign(self, node):
            # `name: T = value` is `name = value` for everything decided here (annotations are not evaluated for locals and
            # carry no behaviour); a bare `name: T` declares and does nothing
            self.generic_visit(node)
            if node.value is not None:
                a = ast.copy_location(ast.Assign(targets=[node.target], value=node.value), node)
                a._was_ann = True
                return a
            return node

    tree = T().visit(tree)
    ast.fix_missing_locations(tree)
    return tree


class Module:
    def __init__(self, name, path, src):
        self.name = name
        self.path = path
        self.src = src
        self.tree = _canonical_loops(ast.parse(src, filename=path))
        self.digest = hashlib.sha256(src.encode()).hexdigest()[:16]
        for n in ast.walk(self.tree):
            for c in ast.iter_child_nodes(n):
                if not isinstance(c, (ast.expr_context, ast.operator, ast.boolop, ast.unaryop, ast.cmpop)):
                    c._parent = n
        self.tree._parent = None
        # import aliases: local name -> ("module", modname) | ("symbol", modname, sym)
        self.imports = {}
        for n in ast.walk(self.tree):
            if isinstance(n, ast.Import):
                for a in n.names:
                    self.imports[a.asname or a.name.split(".")[0]] = ("module", a.name)
            elif isinstance(n, ast.ImportFrom):
                mod = n.module or ""
                for a in n.names:
                    local = a.asname or a.name
                    if n.level and not mod:  # from . import vpsc
                        self.imports[local] = ("module", PKG + "." + a.name)
                    else:
                        full = (PKG + "." + mod) if n.level else mod
                        self.imports[local] = ("symbol", full, a.name)

    def global_assigns(self, name):
        out = []
        for st in self.tree.body:
            if isinstance(st, ast.Assign):
                for t in st.targets:
                    if isinstance(t, ast.Name) and t.id == name:
                        out.append(st)
        return out

    def global_value(self, name):
        a = self.global_assigns(name)
        if not a:
            raise AnchorMissing("%s.%s" % (self.name, name))
        return a[-1].value


class Func:
    def __init__(self, qual, node, module, cls, parent):
        self.qual = qual
        self.node = node
        self.module = module
        self.cls = cls
        self.parent = parent
        self.is_lambda = isinstance(node, ast.Lambda)
        self.name = qual.rsplit(".", 1)[-1]
        a = node.args
        self.params = [x.arg for x in a.posonlyargs + a.args]
        self.kwonly = [x.arg for x in a.kwonlyargs]
        self.vararg = a.vararg.arg if a.vararg else None
        self.kwarg = a.kwarg.arg if a.kwarg else None
        nd = len(a.defaults)
        self.defaults = {}
        if nd:
            for p, d in zip(self.params[-nd:], a.defaults):
                self.defaults[p] = d
        for p, d in zip(a.kwonlyargs, a.kw_defaults):
            if d is not None:
                self.defaults[p.arg] = d
        self.is_classmethod = any(
            isinstance(d, ast.Name) and d.id in ("classmethod",) for d in getattr(node, "decorator_list", [])
        )
        self.is_staticmethod = any(
            isinstance(d, ast.Name) and d.id in ("staticmethod",) for d in getattr(node, "decorator_list", [])
        )
        self.is_property = any(
            (isinstance(d, ast.Name) and d.id in ("property", "cached_property")) or (isinstance(d, ast.Attribute) and d.attr in ("cached_property",))
            for d in getattr(node, "decorator_list", [])
        )

    @property
    def lineno(self):
        return self.node.lineno

    @property
    def body(self):
        if self.is_lambda:
            return [ast.Return(value=self.node.body, lineno=self.node.lineno, col_offset=0)]
        return self.node.body

    def loc(self):
        return "%s:%d" % (self.module.path, self.node.lineno)

    def __repr__(self):
        return "<Func %s>" % self.qual


class Class:
    def __init__(self, qual, node, module):
        self.qual = qual
        self.node = node
        self.module = module
        self.name = node.name
        self.bases = []
        for b in node.bases:
            if isinstance(b, ast.Name):
                self.bases.append(b.id)
            elif isinstance(b, ast.Attribute):
                self.bases.append(b.attr)
        self.methods = {}
        # record classes (typing.NamedTuple subclasses, @dataclass): annotated class-level names are the instance fields,
        # filled by the generated constructor in declaration order
        decos = [ntext(d.func) if isinstance(d, ast.Call) else ntext(d) for d in node.decorator_list]
        self.is_record = any(b in ("NamedTuple",) for b in self.bases) or any(d.split(".")[-1] == "dataclass" for d in decos)
        self.fields = []          # every annotated class-level name (declares an attribute whatever the class kind)
        self.field_defaults = {}
        for st in node.body:
            if isinstance(st, ast.AnnAssign) and isinstance(st.target, ast.Name):
                self.fields.append(st.target.id)
                if st.value is not None:
                    self.field_defaults[st.target.id] = st.value
            elif isinstance(st, ast.Assign) and getattr(st, "_was_ann", False) and len(st.targets) == 1 and isinstance(st.targets[0], ast.Name):
                self.fields.append(st.targets[0].id)
                self.field_defaults[st.targets[0].id] = st.value

    def __repr__(self):
        return "<Class %s>" % self.qual


FUNC_NODES = (ast.FunctionDef, ast.AsyncFunctionDef, ast.Lambda)


def walk_local(node, include_self=False):
    """Nodes of a function (or any subtree) excluding nested function / lambda / class bodies."""
    stack = list(ast.iter_child_nodes(node)) if not include_self else [node]
    first = True
    while stack:
        n = stack.pop()
        yield n
        if isinstance(n, FUNC_NODES + (ast.ClassDef,)) and not (include_self and first and n is node):
            # do not descend, but decorators/defaults are evaluated in the outer scope
            if not isinstance(n, ast.ClassDef):
                for d in n.args.defaults + [k for k in n.args.kw_defaults if k is not None]:
                    stack.append(d)
            first = False
            continue
        first = False
        stack.extend(ast.iter_child_nodes(n))


def walk_body(stmts):
    for s in stmts:
        yield s
        if isinstance(s, FUNC_NODES + (ast.ClassDef,)):
            continue
        for n in walk_local(s):
            yield n


def ntext(node):
    """Normalised text of a node (ast.unparse: spelling-independent)."""
    try:
        return ast.unparse(node)
    except Exception:
        return "<%s>" % type(node).__name__


class Program:
    def __init__(self, sources, root):
        """sources: dict relative path ('labella/x.py') -> text."""
        self.root = root
        self.sources = sources
        self.modules = {}
        self.funcs = {}
        self.classes = {}
        self.func_of_node = {}
        for rel in sorted(sources):
            if not rel.endswith(".py"):
                continue
            name = os.path.basename(rel)[:-3]
            m = Module(name, rel, sources[rel])  # SyntaxError propagates -> analysis error
            self.modules[name] = m
        for m in self.modules.values():
            for local, imp in list(m.imports.items()):
                # `from labella import renderer [as r]` imports a submodule
                if imp[0] == "symbol" and imp[1] == PKG and imp[2] in self.modules:
                    m.imports[local] = ("module", PKG + "." + imp[2])
        for m in self.modules.values():
            self._index(m)

    # -- construction ------------------------------------------------------
    @classmethod
    def load(cls, root):
        d = os.path.join(root, PKG)
        if not os.path.isdir(d):
            raise AnchorMissing("package directory %s" % d)
        src = {}
        for f in sorted(os.listdir(d)):
            if f.endswith(".py"):
                with open(os.path.join(d, f), encoding="utf-8") as fh:
                    src[PKG + "/" + f] = fh.read()
        return cls(src, root)

    def _index(self, m):
        counters = {}

        def unique(q):
            if q not in self.funcs:
                return q
            k = counters.get(q, 1) + 1
            counters[q] = k
            return "%s#%d" % (q, k)

        def visit(node, prefix, cls, parent):
            lam_k = [0]
            for ch in ast.iter_child_nodes(node):
                self._visit_node(ch, prefix, cls, parent, m, unique, lam_k, visit)

        visit(m.tree, m.name, None, None)

    def _visit_node(self, ch, prefix, cls, parent, m, unique, lam_k, visit):
        if isinstance(ch, (ast.FunctionDef, ast.AsyncFunctionDef)):
            q = unique(prefix + "." + ch.name)
            f = Func(q, ch, m, cls, parent)
            self.funcs[q] = f
            self.func_of_node[ch] = f
            if cls is not None and parent is None:
                cls.methods.setdefault(ch.name, f)
            # defaults / decorators belong to outer scope
            for d in ch.args.defaults + [k for k in ch.args.kw_defaults if k is not None] + ch.decorator_list:
                self._visit_node(d, prefix, cls, parent, m, unique, lam_k, visit)
            # nested: iterate body with fresh lambda counter
            k2 = [0]
            for st in ch.body:
                self._visit_node(st, q, None, f, m, unique, k2, visit)
        elif isinstance(ch, ast.Lambda):
            name = None
            par = getattr(ch, "_parent", None)
            if isinstance(par, ast.Assign) and len(par.targets) == 1 and isinstance(par.targets[0], ast.Name) and par.value is ch:
                name = par.targets[0].id
            if name is None:
                lam_k[0] += 1
                name = "<lambda#%d>" % lam_k[0]
            q = unique(prefix + "." + name)
            f = Func(q, ch, m, cls, parent)
            self.funcs[q] = f
            self.func_of_node[ch] = f
            for d in ch.args.defaults + [k for k in ch.args.kw_defaults if k is not None]:
                self._visit_node(d, prefix, cls, parent, m, unique, lam_k, visit)
            k2 = [0]
            self._visit_node(ch.body, q, None, f, m, unique, k2, visit)
        elif isinstance(ch, ast.ClassDef):
            q = prefix + "." + ch.name
            c = Class(q, ch, m)
            self.classes[q] = c
            k2 = [0]
            for st in ch.body:
                self._visit_node(st, q, c, None, m, unique, k2, visit)
            # class-level aliases of methods defined earlier in the body:  __call__ = floor
            for st in ch.body:
                if isinstance(st, ast.Assign) and len(st.targets) == 1 and isinstance(st.targets[0], ast.Name) and isinstance(st.value, ast.Name) and st.value.id in c.methods:
                    c.methods.setdefault(st.targets[0].id, c.methods[st.value.id])
                    self.funcs.setdefault(q + "." + st.targets[0].id, c.methods[st.value.id])
        else:
            for g in ast.iter_child_nodes(ch):
                self._visit_node(g, prefix, cls, parent, m, unique, lam_k, visit)

    # -- lookup --------------------------------------------------------------
    def module(self, name):
        if name not in self.modules:
            raise AnchorMissing("module labella/%s.py" % name)
        return self.modules[name]

    def _via_import(self, qual, depth=0):
        """`mod.name[.rest]` where `mod` imports `name` from another module of the package -> the defining qualname
        (a helper or class that was moved and re-imported keeps its anchor)."""
        parts = qual.split(".")
        if len(parts) < 2 or depth > 3 or parts[0] not in self.modules:
            return None
        imp = self.modules[parts[0]].imports.get(parts[1])
        if imp is not None and imp[0] == "symbol" and imp[1].startswith(PKG + "."):
            other = imp[1].split(".", 1)[1]
            cand = ".".join([other, imp[2]] + parts[2:])
            if cand in self.funcs or cand in self.classes:
                return cand
            return self._via_import(cand, depth + 1)
        return None

    def func(self, qual):
        if qual not in self.funcs:
            alt = self._via_import(qual)
            if alt in self.funcs:
                return self.funcs[alt]
            raise AnchorMissing("function %s" % qual)
        return self.funcs[qual]

    def has_func(self, qual):
        return qual in self.funcs or self._via_import(qual) in self.funcs

    def cls(self, qual):
        if qual not in self.classes:
            alt = self._via_import(qual)
            if alt in self.classes:
                return self.classes[alt]
            raise AnchorMissing("class %s" % qual)
        return self.classes[qual]

    def class_by_name(self, name):
        return [c for c in self.classes.values() if c.name == name]

    def mro(self, c):
        out = [c]
        for b in c.bases:
            for bc in self.class_by_name(b):
                for x in self.mro(bc):
                    if x not in out:
                        out.append(x)
        return out

    def method(self, c, name):
        for k in self.mro(c):
            if name in k.methods:
                return k.methods[name]
        return None

    def subclasses(self, c):
        out = [c]
        for k in self.classes.values():
            if k is not c and c in self.mro(k):
                out.append(k)
        return out

    def funcs_of_module(self, name):
        return [f for f in self.funcs.values() if f.module.name == name]

    def nested(self, f):
        return [g for g in self.funcs.values() if g.parent is f]

    def enclosing_func(self, node):
        n = getattr(node, "_parent", None)
        while n is not None:
            if n in self.func_of_node:
                return self.func_of_node[n]
            n = getattr(n, "_parent", None)
        return None

    def loc(self, module, node):
        return "%s:%s" % (module.path, getattr(node, "lineno", "?"))
