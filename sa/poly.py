"""Rational functions over opaque atoms, with canonical printing.

Num = num/den, both polynomials with Fraction coefficients.  Atoms are
hashable (strings, or tuples for uninterpreted applications).
"""
from fractions import Fraction


def _akey(a):
    return repr(a)


class Poly:
    __slots__ = ("t",)

    def __init__(self, terms=None):
        # terms: dict monomial -> Fraction ; monomial: tuple of (atom, exp) sorted by repr
        self.t = {m: c for m, c in (terms or {}).items() if c != 0}

    @staticmethod
    def const(c):
        return Poly({(): Fraction(c)})

    @staticmethod
    def atom(a):
        return Poly({((a, 1),): Fraction(1)})

    def is_zero(self):
        return not self.t

    def is_const(self):
        return all(m == () for m in self.t)

    def const_value(self):
        return self.t.get((), Fraction(0))

    def __add__(self, o):
        r = dict(self.t)
        for m, c in o.t.items():
            r[m] = r.get(m, 0) + c
        return Poly(r)

    def __neg__(self):
        return Poly({m: -c for m, c in self.t.items()})

    def __sub__(self, o):
        return self + (-o)

    def __mul__(self, o):
        r = {}
        for m1, c1 in self.t.items():
            for m2, c2 in o.t.items():
                m = _mmul(m1, m2)
                r[m] = r.get(m, 0) + c1 * c2
        return Poly(r)

    def scale(self, c):
        return Poly({m: v * c for m, v in self.t.items()})

    def __eq__(self, o):
        return isinstance(o, Poly) and self.t == o.t

    def __hash__(self):
        return hash(frozenset(self.t.items()))

    def atoms(self):
        s = set()
        for m in self.t:
            for a, _ in m:
                s.add(a)
        return s

    def subst(self, mapping):
        """mapping: atom -> Num.  Returns Num."""
        res = Num.const(0)
        for m, c in self.t.items():
            term = Num.const(c)
            for a, e in m:
                v = mapping.get(a)
                if v is None:
                    v = Num(Poly.atom(a))
                for _ in range(e):
                    term = term * v
            res = res + term
        return res

    def sorted_terms(self):
        return sorted(self.t.items(), key=lambda mc: ([(_akey(a), e) for a, e in mc[0]], mc[1]))

    def __repr__(self):
        if not self.t:
            return "0"
        out = []
        for m, c in self.sorted_terms():
            fs = []
            for a, e in m:
                s = a if isinstance(a, str) else _fmt_atom(a)
                fs.append(s if e == 1 else "%s^%d" % (s, e))
            cs = str(c)
            if m == ():
                out.append(cs)
            elif c == 1:
                out.append("*".join(fs))
            elif c == -1:
                out.append("-" + "*".join(fs))
            else:
                out.append(cs + "*" + "*".join(fs))
        return " + ".join(out).replace("+ -", "- ")


def _fmt_atom(a):
    if isinstance(a, tuple):
        return "%s(%s)" % (a[0], ", ".join(_fmt_atom(x) if isinstance(x, tuple) else str(x) for x in a[1:]))
    return str(a)


def _mmul(m1, m2):
    d = dict(m1)
    for a, e in m2:
        d[a] = d.get(a, 0) + e
    return tuple(sorted(((a, e) for a, e in d.items() if e), key=lambda ae: _akey(ae[0])))


class Num:
    __slots__ = ("n", "d")

    def __init__(self, n, d=None):
        self.n = n
        self.d = d if d is not None else Poly.const(1)
        self._norm()

    def _norm(self):
        if self.n.is_zero():
            self.d = Poly.const(1)
            return
        # cancel common monomial factor
        if not self.d.is_const():
            allm = list(self.n.t) + list(self.d.t)
            common = dict(allm[0])
            for m in allm[1:]:
                dm = dict(m)
                for a in list(common):
                    common[a] = min(common[a], dm.get(a, 0))
                    if common[a] == 0:
                        del common[a]
            if common:
                self.n = Poly({_mdiv(m, common): c for m, c in self.n.t.items()})
                self.d = Poly({_mdiv(m, common): c for m, c in self.d.t.items()})
            # exact division if n is a multiple of d (single-term d or n == k*d)
            if len(self.d.t) == 1 and not self.d.is_const():
                (dm, dc), = self.d.t.items()
                if all(_divides(dm, m) for m in self.n.t):
                    self.n = Poly({_mdiv(m, dict(dm)): c / dc for m, c in self.n.t.items()})
                    self.d = Poly.const(1)
                    return
            if len(self.n.t) == len(self.d.t) and not self.d.is_const():
                # n == k * d ?
                (m0, c0) = self.d.sorted_terms()[0]
                if m0 in self.n.t:
                    k = self.n.t[m0] / c0
                    if self.d.scale(k) == self.n:
                        self.n = Poly.const(k)
                        self.d = Poly.const(1)
                        return
        # make leading coefficient of d equal to 1
        lead = self.d.sorted_terms()[0][1]
        if lead != 1:
            self.n = self.n.scale(1 / lead)
            self.d = self.d.scale(1 / lead)

    @staticmethod
    def const(c):
        return Num(Poly.const(c))

    @staticmethod
    def atom(a):
        return Num(Poly.atom(a))

    def is_const(self):
        return self.n.is_const() and self.d.is_const()

    def const_value(self):
        return self.n.const_value() / self.d.const_value()

    def __add__(self, o):
        if self.d == o.d:
            return Num(self.n + o.n, self.d)
        return Num(self.n * o.d + o.n * self.d, self.d * o.d)

    def __neg__(self):
        return Num(-self.n, self.d)

    def __sub__(self, o):
        return self + (-o)

    def __mul__(self, o):
        return Num(self.n * o.n, self.d * o.d)

    def __truediv__(self, o):
        if o.n.is_zero():
            raise ZeroDivisionError("symbolic division by zero")
        return Num(self.n * o.d, self.d * o.n)

    def equals(self, o):
        return (self.n * o.d) == (o.n * self.d)

    def __eq__(self, o):
        return isinstance(o, Num) and self.equals(o)

    def __hash__(self):
        return hash(self.key())

    def atoms(self):
        return self.n.atoms() | self.d.atoms()

    def subst(self, mapping):
        return self.n.subst(mapping) / self.d.subst(mapping)

    def key(self):
        if self.d.is_const() and self.d.const_value() == 1:
            return repr(self.n)
        return "(%r)/(%r)" % (self.n, self.d)

    def __repr__(self):
        return self.key()

    def is_poly(self):
        return self.d.is_const()

    def coeff_signs_nonneg(self):
        """True if a polynomial with all coefficients >= 0."""
        return self.is_poly() and all((c / self.d.const_value()) >= 0 for c in self.n.t.values())

    def derivative(self, atom):
        """d/d atom, for polynomial numerator and atom-free denominator."""
        if atom in self.d.atoms():
            raise ValueError("derivative: atom in denominator")
        r = {}
        for m, c in self.n.t.items():
            dm = dict(m)
            e = dm.get(atom, 0)
            if not e:
                continue
            dm[atom] = e - 1
            nm = tuple(sorted(((a, x) for a, x in dm.items() if x), key=lambda ae: _akey(ae[0])))
            r[nm] = r.get(nm, 0) + c * e
        return Num(Poly(r), self.d)


def _mdiv(m, common):
    d = dict(m)
    for a, e in common.items():
        d[a] = d.get(a, 0) - e
    return tuple(sorted(((a, e) for a, e in d.items() if e), key=lambda ae: _akey(ae[0])))


def _divides(dm, m):
    d = dict(m)
    return all(d.get(a, 0) >= e for a, e in dm)


def C(x):
    return Num.const(Fraction(x) if not isinstance(x, float) else Fraction(repr(x)))


def A(name):
    return Num.atom(name)
