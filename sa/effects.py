"""Mutation (effect) summaries.

mutated_params(f): set of parameter names whose referent f may mutate (store to
subscript/attribute, mutating container method, augmented assignment through the
reference, passing it on to a callee that mutates the corresponding parameter).
Closed under the (resolved) call relation given by `resolve(callnode, func)`.
"""
import ast

from .core import walk_local, ntext

MUTATORS = {
    "append", "extend", "insert", "pop", "remove", "sort", "reverse", "clear", "update",
    "setdefault", "popitem", "add", "discard", "appendleft", "popleft", "__setitem__", "__delitem__",
}


def root_name(e):
    """Name at the root of an access path (a.b[c].d -> 'a'), plus the path text."""
    n = e
    while isinstance(n, (ast.Attribute, ast.Subscript)):
        n = n.value
    if isinstance(n, ast.Name):
        return n.id
    return None


def direct_aliases(f):
    """local name -> set of parameter names it may alias by plain assignment `x = p`
    or `x = p.attr...` (access paths rooted at a parameter)."""
    al = {p: {p} for p in f.params}
    changed = True
    body = f.node.body if not f.is_lambda else []
    assigns = [n for n in _walk(body) if isinstance(n, ast.Assign)]
    fors = [n for n in _walk(body) if isinstance(n, ast.For)]
    while changed:
        changed = False
        for a in assigns:
            r = root_name(a.value) if isinstance(a.value, (ast.Name, ast.Attribute, ast.Subscript)) else None
            if r is not None and r in al:
                for t in a.targets:
                    if isinstance(t, ast.Name):
                        s = al.setdefault(t.id, set())
                        if not al[r] <= s:
                            s |= al[r]
                            changed = True
        for fo in fors:
            r = root_name(fo.iter) if isinstance(fo.iter, (ast.Name, ast.Attribute, ast.Subscript)) else None
            if r is not None and r in al and isinstance(fo.target, ast.Name):
                s = al.setdefault(fo.target.id, set())
                if not al[r] <= s:
                    s |= al[r]
                    changed = True
    return al


def _walk(stmts):
    for s in stmts:
        yield s
        for n in walk_local(s):
            yield n


class Effects:
    def __init__(self, P, resolve):
        self.P = P
        self.resolve = resolve  # (call node, Func) -> list of (Func, bound_self: bool)
        self.mut = {f.qual: set() for f in P.funcs.values()}
        self.sites = {f.qual: [] for f in P.funcs.values()}  # (param, node, how)
        self._solve()

    def _solve(self):
        P = self.P
        info = {}
        for f in P.funcs.values():
            al = direct_aliases(f)
            body = f.node.body if not f.is_lambda else [ast.Expr(value=f.node.body)]
            direct = []
            calls = []
            for n in _walk(body):
                if isinstance(n, (ast.Assign, ast.AugAssign, ast.AnnAssign, ast.Delete)):
                    tgts = n.targets if isinstance(n, (ast.Assign, ast.Delete)) else [n.target]
                    for t in tgts:
                        for tt in ast.walk(t) if isinstance(t, (ast.Tuple, ast.List)) else [t]:
                            if isinstance(tt, (ast.Attribute, ast.Subscript)):
                                r = root_name(tt)
                                if r in al:
                                    for p in al[r]:
                                        direct.append((p, tt, "store"))
                elif isinstance(n, ast.Call):
                    if isinstance(n.func, ast.Attribute) and n.func.attr in MUTATORS:
                        r = root_name(n.func.value)
                        if r in al:
                            for p in al[r]:
                                direct.append((p, n, "method:" + n.func.attr))
                    calls.append(n)
            info[f.qual] = (al, direct, calls)
            for p, node, how in direct:
                self.mut[f.qual].add(p)
                self.sites[f.qual].append((p, node, how))
        changed = True
        while changed:
            changed = False
            for f in P.funcs.values():
                al, direct, calls = info[f.qual]
                for c in calls:
                    for g, bound in self.resolve(c, f):
                        gm = self.mut.get(g.qual, set())
                        if not gm:
                            continue
                        params = list(g.params)
                        if bound and params:
                            selfp = params[0]
                            params = params[1:]
                            if selfp in gm and isinstance(c.func, ast.Attribute):
                                r = root_name(c.func.value)
                                if r in al:
                                    for p in al[r]:
                                        if p not in self.mut[f.qual]:
                                            self.mut[f.qual].add(p)
                                            self.sites[f.qual].append((p, c, "via " + g.qual))
                                            changed = True
                        for i, a in enumerate(c.args):
                            if i < len(params) and params[i] in gm:
                                r = root_name(a) if isinstance(a, (ast.Name, ast.Attribute, ast.Subscript)) else None
                                if r in al:
                                    for p in al[r]:
                                        if p not in self.mut[f.qual]:
                                            self.mut[f.qual].add(p)
                                            self.sites[f.qual].append((p, c, "via " + g.qual))
                                            changed = True
                        for kw in c.keywords:
                            if kw.arg in gm:
                                r = root_name(kw.value) if isinstance(kw.value, (ast.Name, ast.Attribute, ast.Subscript)) else None
                                if r in al:
                                    for p in al[r]:
                                        if p not in self.mut[f.qual]:
                                            self.mut[f.qual].add(p)
                                            self.sites[f.qual].append((p, c, "via " + g.qual))
                                            changed = True

    def mutates(self, f, param):
        return param in self.mut.get(f.qual, set())
