"""Gated symbolic value numbering of straight-line / branching code.

A syntax-directed translation of expressions and loop-free statement lists to
canonical values (rational functions over opaque atoms, strings, sequences,
dicts, closures, gated Phi nodes).  No path conditions are solved; branches
whose test does not fold to a constant produce a Phi(cond, then, else).  Loops
are not unrolled: a loop over an unknown sequence havocs what it assigns (and
summarises `acc += f(elem)` as a SUM atom); rules that need a loop body analyse
it explicitly for an arbitrary element.
"""
import ast
from fractions import Fraction

from .core import ntext, FUNC_NODES, walk_local, acopy
from .poly import Num, Poly, C


# ---------------------------------------------------------------------------
# values
# ---------------------------------------------------------------------------

class Const:
    __slots__ = ("v",)

    def __init__(self, v):
        self.v = v

    def __repr__(self):
        return "Const(%r)" % (self.v,)


NONE = Const(None)
TRUE = Const(True)
FALSE = Const(False)


class _LoopExit:
    def __init__(self, kind):
        self.kind = kind

    def __repr__(self):
        return "<%s>" % self.kind


CONTINUE = _LoopExit("continue")
BREAK = _LoopExit("break")


class Seq:
    __slots__ = ("kind", "items", "ident")

    def __init__(self, kind, items, ident=None):
        self.kind = kind
        self.items = list(items)
        self.ident = ident

    def __repr__(self):
        return "%s%r" % (self.kind, self.items)


class DictV:
    __slots__ = ("items", "fallback", "ident")

    def __init__(self, items, fallback=None, ident=None):
        self.items = dict(items)
        self.fallback = fallback  # text prefix for unknown keys -> Opaque
        self.ident = ident

    def __repr__(self):
        return "DictV(%r)" % (self.items,)


class SliceV:
    """slice(lo, hi, step) as a value (None for an omitted bound)."""
    __slots__ = ("lo", "hi", "step")

    def __init__(self, lo, hi, step):
        self.lo, self.hi, self.step = lo, hi, step


class StrTplV:
    """string.Template(text)."""
    __slots__ = ("text",)

    def __init__(self, text):
        self.text = text


class PartialV:
    """functools.partial(fn, *args, **kwargs): calling it calls fn with the fixed arguments first."""
    __slots__ = ("fn", "args", "kwargs")

    def __init__(self, fn, args, kwargs):
        self.fn, self.args, self.kwargs = fn, args, kwargs


class Opaque:
    """Unknown value with canonical text; may carry a class tag for method resolution."""
    __slots__ = ("text", "cls", "kind")

    def __init__(self, text, cls=None, kind=None):
        self.text = text
        self.cls = cls
        self.kind = kind

    def __repr__(self):
        return "Opaque(%s)" % self.text


class Cat:
    """Concatenation of list segments: Seq (known items) and opaque sequences."""
    __slots__ = ("parts", "ident")

    def __init__(self, parts, ident=None):
        self.parts = list(parts)
        self.ident = ident

    def __repr__(self):
        return "Cat(%r)" % (self.parts,)


class Closure:
    __slots__ = ("func", "env", "selfv", "raw")

    def __init__(self, func, env, selfv=None, raw=False):
        self.func = func  # core.Func
        self.env = env
        self.selfv = selfv
        self.raw = raw  # the undecorated function object (what a decorator of the package receives)

    def __repr__(self):
        return "Closure(%s)" % self.func.qual


class ClassRef:
    __slots__ = ("cls",)

    def __init__(self, cls):
        self.cls = cls

    def __repr__(self):
        return "ClassRef(%s)" % self.cls.qual


class ModRef:
    __slots__ = ("name",)

    def __init__(self, name):
        self.name = name

    def __repr__(self):
        return "ModRef(%s)" % self.name


class Ext:
    """External (stdlib/builtin) callable or object, by dotted name."""
    __slots__ = ("name",)

    def __init__(self, name):
        self.name = name

    def __repr__(self):
        return "Ext(%s)" % self.name


def _phi_leaves(v, path=()):
    if isinstance(v, Phi):
        return _phi_leaves(v.a, path + ((v.cond, True),)) + _phi_leaves(v.b, path + ((v.cond, False),))
    return [(path, v)]


class Bound:
    """Builtin method bound to a value."""
    __slots__ = ("recv", "name")

    def __init__(self, recv, name):
        self.recv = recv
        self.name = name


class Cond:
    """Boolean value that did not fold.  tree: nested tuples."""
    __slots__ = ("tree",)

    def __init__(self, tree):
        self.tree = tree

    def __repr__(self):
        return "Cond(%s)" % (ckey(self.tree),)


class Phi:
    __slots__ = ("cond", "a", "b")

    def __init__(self, cond, a, b):
        self.cond = cond
        self.a = a
        self.b = b

    def __repr__(self):
        return "Phi(%s ? %r : %r)" % (ckey(self.cond.tree) if isinstance(self.cond, Cond) else self.cond, self.a, self.b)


def _phi_size(v, depth=0):
    if isinstance(v, Phi) and depth < 8:
        return 1 + _phi_size(v.a, depth + 1) + _phi_size(v.b, depth + 1)
    return 0


def mkphi(cond, a, b):
    if a is b:
        return a
    # canonical polarity of the gate: lt / eq / is / in / un-negated
    if isinstance(cond, Cond):
        t = cond.tree
        if t[0] == "not":
            cond, a, b = Cond(t[1]), b, a
        elif t[0] == "cmp" and t[1] == "le":
            cond, a, b = Cond(("cmp", "lt", t[3], t[2])), b, a
        elif t[0] == "cmp" and t[1] == "ge":
            cond, a, b = Cond(("cmp", "lt", t[2], t[3])), b, a
        elif t[0] == "cmp" and t[1] == "gt":
            cond = Cond(("cmp", "lt", t[3], t[2]))
        elif t[0] == "cmp" and t[1] in ("ne", "isnot", "notin"):
            cond, a, b = Cond(("cmp", {"ne": "eq", "isnot": "is", "notin": "in"}[t[1]], t[2], t[3])), b, a
        elif t[0] == "or" and all(isinstance(x, tuple) and (x[0] == "not" or (x[0] == "cmp" and x[1] in ("le", "ge", "ne", "isnot", "notin"))) for x in t[1:]):
            cond, a, b = Cond(_cnot(t)), b, a
    if isinstance(a, DictV) and isinstance(b, DictV) and set(a.items) == set(b.items) and a.fallback == b.fallback and a.ident == b.ident:
        # structural merge: keep one dict, gate the entries that differ
        out = DictV({}, a.fallback, a.ident)
        for k in a.items:
            out.items[k] = mkphi(cond, a.items[k], b.items[k])
        return out
    if isinstance(a, Seq) and isinstance(b, Seq) and a.kind == b.kind and len(a.items) == len(b.items) and a.ident == b.ident:
        return Seq(a.kind, [mkphi(cond, x, y) for x, y in zip(a.items, b.items)], a.ident)
    if key(a) == key(b):
        return a
    if isinstance(cond, Cond) and cond.tree[0] == "cmp" and cond.tree[1] == "in" and isinstance(cond.tree[2], Const) and isinstance(cond.tree[3], Opaque) \
            and isinstance(a, Opaque) and a.text == "%s[%r]" % (cond.tree[3].text, cond.tree[2].v):
        # `o[k] if k in o else d` is the value of key k after `{k: d}.update(o)`
        return OverrideV(cond.tree[3], cond.tree[2].v, b)
    return Phi(cond, a, b)


def key(v):
    """Canonical hashable text of a value."""
    if isinstance(v, _LoopExit):
        return "<%s>" % v.kind
    if isinstance(v, Num):
        return v.key()
    if isinstance(v, Const):
        return repr(v.v)
    if isinstance(v, Opaque):
        return v.text
    if isinstance(v, Seq):
        return ("[%s]" if v.kind == "list" else "(%s)") % ", ".join(key(x) for x in v.items)
    if isinstance(v, DictV):
        return "{%s}" % ", ".join("%r: %s" % (k, key(x)) for k, x in sorted(v.items.items(), key=lambda kv: repr(kv[0])))
    if isinstance(v, Cat):
        return " ++ ".join(key(x) for x in v.parts)
    if isinstance(v, Closure):
        return "<fn %s>" % v.func.qual
    if isinstance(v, ClassRef):
        return "<class %s>" % v.cls.qual
    if isinstance(v, ModRef):
        return "<module %s>" % v.name
    if isinstance(v, Ext):
        return v.name
    if isinstance(v, Bound):
        return "%s.%s" % (key(v.recv), v.name)
    if isinstance(v, Cond):
        return ckey(v.tree)
    if isinstance(v, Phi):
        return "phi(%s, %s, %s)" % (key(v.cond), key(v.a), key(v.b))
    return repr(v)


def ckey(t):
    if isinstance(t, tuple):
        return "%s(%s)" % (t[0], ", ".join(ckey(x) for x in t[1:]))
    if isinstance(t, (str, int, bool)) or t is None:
        return str(t)
    return key(t)


def as_num(v):
    """Coerce to Num or return None."""
    if isinstance(v, Num):
        return v
    if isinstance(v, Const):
        if isinstance(v.v, bool):
            return C(int(v.v))
        if isinstance(v.v, (int, float)):
            return C(v.v)
        return None
    if isinstance(v, Opaque):
        if v.kind == "str":
            return None
        return Num.atom(v.text)
    if isinstance(v, Phi):
        a, b = as_num(v.a), as_num(v.b)
        if a is not None and b is not None:
            return Num.atom(("phi", key(v.cond), a.key(), b.key()))
    if isinstance(v, OverrideV):
        return Num.atom(key(v))
    return None


def num_const(v):
    n = as_num(v)
    if n is not None and n.is_const():
        return n.const_value()
    return None


NEG = {"lt": "ge", "ge": "lt", "gt": "le", "le": "gt", "eq": "ne", "ne": "eq", "is": "isnot", "isnot": "is", "in": "notin", "notin": "in"}
OPN = {ast.Lt: "lt", ast.LtE: "le", ast.Gt: "gt", ast.GtE: "ge", ast.Eq: "eq", ast.NotEq: "ne", ast.Is: "is", ast.IsNot: "isnot", ast.In: "in", ast.NotIn: "notin"}


def cnot(t):
    if isinstance(t, Const):
        return Const(not t.v)
    if isinstance(t, Cond):
        return Cond(_cnot(t.tree))
    return Cond(("not", ("truth", t)))


def _cnot(t):
    if t[0] == "not":
        return t[1]
    if t[0] == "cmp":
        op = NEG[t[1]]
        if op == "gt":
            return ("cmp", "lt", t[3], t[2])
        if op == "ge":
            return ("cmp", "le", t[3], t[2])
        return ("cmp", op, t[2], t[3])
    if t[0] == "and":
        return ("or",) + tuple(_cnot(x) for x in t[1:])
    if t[0] == "or":
        return ("and",) + tuple(_cnot(x) for x in t[1:])
    return ("not", t)


# ---------------------------------------------------------------------------
# state
# ---------------------------------------------------------------------------

class Env:
    def __init__(self, vars=None, parent=None, module=None, func=None):
        self.vars = dict(vars or {})
        self.parent = parent
        self.module = module
        self.func = func
        self.nonlocals = set()

    def lookup(self, name):
        e = self
        while e is not None:
            if name in e.vars:
                return e.vars[name]
            e = e.parent
        return None

    def assign(self, name, v):
        if name in self.nonlocals:
            e = self.parent
            while e is not None:
                if name in e.vars:
                    e.vars[name] = v
                    return
                e = e.parent
        self.vars[name] = v

    def fork(self, memo=None):
        memo = {} if memo is None else memo
        if self.func is None and self.parent is None:
            return self  # module environment: shared
        e = Env({k: copyval(v, memo) for k, v in self.vars.items()}, self.parent.fork(memo) if self.parent is not None else None, self.module, self.func)
        e.nonlocals = set(self.nonlocals)
        return e


class State:
    def __init__(self, env, heap=None):
        self.env = env
        if isinstance(heap, LazyHeap):
            self.heap = LazyHeap(heap.ev, dict.copy(heap))
        else:
            self.heap = dict(heap or {})  # (objkey, attr) -> value
        self.events = []  # side-effect log: (kind, ...)
        self.havoc = set()

    def fork(self):
        memo = {}
        nh = {k: copyval(v, memo) for k, v in dict.items(self.heap)}
        s = State(self.env.fork(memo), LazyHeap(self.heap.ev, nh) if isinstance(self.heap, LazyHeap) else nh)
        s.events = list(self.events)
        s.havoc = set(self.havoc)
        return s


def _as_bool(x):
    if isinstance(x, bool):
        return x
    if isinstance(x, Const) and isinstance(x.v, bool):
        return x.v
    return None


def _heapcopy(h):
    if isinstance(h, LazyHeap):
        return LazyHeap(h.ev, dict.copy(h))
    return dict(h)


def copyval(v, memo):
    """Copy mutable containers (preserving sharing) so that forks do not alias."""
    if isinstance(v, Seq):
        if id(v) in memo:
            return memo[id(v)]
        n = Seq(v.kind, [], v.ident)
        memo[id(v)] = n
        n.items = [copyval(x, memo) for x in v.items]
        return n
    if isinstance(v, DictV):
        if id(v) in memo:
            return memo[id(v)]
        n = DictV({}, v.fallback, v.ident)
        memo[id(v)] = n
        n.items = {k: copyval(x, memo) for k, x in v.items.items()}
        return n
    if isinstance(v, Phi):
        a, b = copyval(v.a, memo), copyval(v.b, memo)
        if a is v.a and b is v.b:
            return v
        return Phi(v.cond, a, b)
    if isinstance(v, Bound) and isinstance(v.recv, (Seq, DictV)):
        # `append = out.append`: the bound method follows its list into the fork
        r = copyval(v.recv, memo)
        return v if r is v.recv else Bound(r, v.name)
    return v


class LazyHeap(dict):
    """Heap that falls back to the evaluator's module-level heap for objects created by
    module initialisers (those are evaluated lazily, possibly after the state was made)."""

    def __init__(self, ev, init=None):
        super().__init__(init or {})
        self.ev = ev

    def get(self, k, default=None):
        if dict.__contains__(self, k):
            return dict.__getitem__(self, k)
        g = self.ev.gheap
        if k in g:
            return g[k]
        return default

    def __contains__(self, k):
        return dict.__contains__(self, k) or k in self.ev.gheap

    def __getitem__(self, k):
        if dict.__contains__(self, k):
            return dict.__getitem__(self, k)
        return self.ev.gheap[k]

    def copy_plain(self):
        return LazyHeap(self.ev, dict(self))


class Ret:
    __slots__ = ("value",)

    def __init__(self, value):
        self.value = value


class SymLimit(Exception):
    pass


# ---------------------------------------------------------------------------
# evaluator
# ---------------------------------------------------------------------------

FRESH_CTORS = {"datetime.datetime.combine", "datetime.datetime", "datetime.date", "datetime.time", "datetime.timedelta", "datetime.datetime.now", "datetime.date.today"}
MATH_UNARY = {"floor", "ceil", "log", "log10", "sqrt", "exp", "fabs", "trunc"}
PURE_BUILTINS = {"round", "abs", "int", "float", "len", "max", "min", "pow", "str", "sum", "bool", "ord", "chr", "repr"}


class Evaluator:
    def __init__(self, P, max_depth=10, field_cls=None, on_call=None, inline_filter=None):
        self.P = P
        self.max_depth = max_depth
        self.field_cls = field_cls or {}
        self.stack = []
        self.on_call = on_call  # hook(callee_value, args, kwargs, node, st) -> value or None
        self.on_assert = None  # hook(assert node, value of its test, st)
        self.inline_filter = inline_filter
        self._modcache = {}
        self.fresh = 0
        self.trace = []
        self.gheap = {}  # heap cells of objects created by module-level initialisers
        self.gowned = set()  # ids / texts of objects owned by module-level bindings
        self.gowner = {}
        self.in_global_init = 0
        self.nonempty = set()  # texts of opaque sequences assumed non-empty
        self.on_getitem = None  # hook(base value, index value, state) -> value or None
        self.on_loop = None  # hook(stmt, iter value, state) -> True if the rule handled the loop
        self.map_inst = {}
        self.eqsubst = {}
        self.order = {}  # (keyA, keyB) -> 'lt' | 'eq' | 'gt'   (facts assumed by the rule: ORD enumeration)
        self.facts = {}  # cond key -> bool
        self.fact_trees = {}  # cond key -> tree (for rules that read the current path condition)
        self.faults = []  # (kind, ast node, text, base key): constant subscripts outside a known shape
        self.qual_alias = {}  # defining qualname -> the name a rule uses for a function it keeps opaque
        self.strmod_nodes = set()  # BinOp(Mod) nodes whose left operand evaluated to a string

    def assume_order(self, a, b, rel):
        ka, kb = key(a), key(b)
        if rel == "eq":
            na, nb = as_num(a), as_num(b)
            if na is not None and nb is not None:
                ats = list(nb.atoms())
                if len(ats) == 1 and nb.equals(Num.atom(ats[0])):
                    self.eqsubst[ats[0]] = na
        self.order[(ka, kb)] = rel
        self.order[(kb, ka)] = {"lt": "gt", "gt": "lt", "eq": "eq", "ne": "ne"}[rel]

    def assume(self, cond_key, value):
        self.facts[cond_key] = value

    def assuming(self, c, pol):
        """Context manager: while evaluating a branch taken under condition c == pol, the atomic facts it
        implies are known (and/or/not decomposed)."""
        ev = self
        added = []

        def add(t, p_):
            if isinstance(t, tuple) and t[0] == "not":
                add(t[1], not p_)
            elif isinstance(t, tuple) and t[0] == "and" and p_:
                for x in t[1:]:
                    add(x, True)
            elif isinstance(t, tuple) and t[0] == "or" and not p_:
                for x in t[1:]:
                    add(x, False)
            elif isinstance(t, tuple) and t[0] == "phi" and len(t) == 4 and (_as_bool(t[2]) is not None or _as_bool(t[3]) is not None):
                # phi(A, x, y) == p with a constant side that differs from p: the other side was taken
                bx, by = _as_bool(t[2]), _as_bool(t[3])
                if bx is not None and bx != p_:
                    add(t[1], False)
                    if by is None:
                        add(t[3], p_)
                elif by is not None and by != p_:
                    add(t[1], True)
                    if bx is None:
                        add(t[2], p_)
                else:
                    k = ckey(t)
                    if k not in ev.facts:
                        ev.facts[k] = p_
                        ev.fact_trees[k] = t
                        added.append(k)
            else:
                k = ckey(t)
                if k not in ev.facts:
                    ev.facts[k] = p_
                    ev.fact_trees[k] = t
                    added.append(k)

        class _Ctx:
            def __enter__(self_):
                if isinstance(c, Cond):
                    add(c.tree, pol)
                return self_

            def __exit__(self_, *a):
                for k in added:
                    ev.facts.pop(k, None)
                return False

        return _Ctx()

    def refine(self, v, depth=0):
        """Resolve gates whose condition is a known fact on the current path."""
        if isinstance(v, Phi) and depth < 6 and self.facts:
            c = self._fold_assumed(v.cond) if isinstance(v.cond, Cond) else v.cond
            if isinstance(c, Const):
                return self.refine(v.a if c.v else v.b, depth + 1)
        return v

    def _known(self, t, depth=0):
        """Truth value of condition tree t from the facts assumed on the current path, or None."""
        if isinstance(t, bool):
            return t
        if isinstance(t, Const) and isinstance(t.v, bool):
            return t.v
        if not isinstance(t, tuple) or depth > 6:
            return None
        k = ckey(t)
        if k in self.facts:
            return self.facts[k]
        if t[0] == "not":
            v = self._known(t[1], depth + 1)
            return None if v is None else not v
        if t[0] in ("and", "or"):
            vs = [self._known(x, depth + 1) for x in t[1:]]
            if t[0] == "and":
                if any(v is False for v in vs):
                    return False
                if all(v is True for v in vs):
                    return True
            else:
                if any(v is True for v in vs):
                    return True
                if all(v is False for v in vs):
                    return False
            return None
        if t[0] == "cmp" and t[1] in NEG:
            nk = ckey(_cnot(t))
            if nk in self.facts:
                return not self.facts[nk]
        if t[0] == "phi":
            c0 = self._known(t[1], depth + 1)
            if c0 is not None:
                return self._known(t[2] if c0 else t[3], depth + 1)
            if depth < 3:
                # each side under the condition that selects it
                with self.assuming(Cond(t[1]), True):
                    a = self._known(t[2], depth + 1)
                with self.assuming(Cond(t[1]), False):
                    b = self._known(t[3], depth + 1)
                if a is not None and a == b:
                    return a
        return None

    def _fold_assumed(self, c):
        if not isinstance(c, Cond):
            return c
        t = c.tree
        if self.facts or (isinstance(t, tuple) and t and t[0] == "phi"):
            kv = self._known(t)
            if kv is not None:
                return Const(kv)
        k = ckey(t)
        nk = ckey(_cnot(t))
        if nk in self.facts:
            return Const(not self.facts[nk])
        if t[0] == "cmp" and t[1] in ("lt", "le", "eq", "ne") and self.order:
            kb = self._const_bounds(t)
            if kb is not None:
                return Const(kb)
        if t[0] == "cmp" and t[1] in ("lt", "le", "eq", "ne"):
            rel = self.order.get((key(t[2]), key(t[3])))
            if rel is not None:
                tbl = {
                    "lt": {"lt": True, "le": True, "eq": False, "ne": True},
                    "gt": {"lt": False, "le": False, "eq": False, "ne": True},
                    "eq": {"lt": False, "le": True, "eq": True, "ne": False},
                    "ne": {"eq": False, "ne": True},
                }[rel]
                if t[1] in tbl:
                    return Const(tbl[t[1]])
        return c

    def _const_bounds(self, t):
        """cmp(op, X, c) / cmp(op, c, X) with c a constant, decided from the assumed orderings of X against other constants
        (X > 0 and c = -18 gives c < X)."""
        a, b = t[2], t[3]
        ca, cb = num_const(a), num_const(b)
        if (ca is None) == (cb is None):
            return None
        x, c, x_left = (a, cb, True) if cb is not None else (b, ca, False)
        kx = key(x)
        lo = hi = None  # (value, strict)
        for (k1, k2), rel in self.order.items():
            if k1 != kx:
                continue
            try:
                v = Fraction(k2)
            except (ValueError, ZeroDivisionError):
                continue
            if rel in ("gt", "eq") and (lo is None or (v, rel == "gt") > lo):
                lo = (v, rel == "gt")
            if rel in ("lt", "eq") and (hi is None or (v, rel != "lt") < (hi[0], not hi[1])):
                hi = (v, rel == "lt")
        if lo is None and hi is None:
            return None
        # facts about X vs c
        x_gt = lo is not None and (lo[0] > c or (lo[0] == c and lo[1]))
        x_ge = lo is not None and lo[0] >= c
        x_lt = hi is not None and (hi[0] < c or (hi[0] == c and hi[1]))
        x_le = hi is not None and hi[0] <= c
        op = t[1]
        if not x_left:
            # c op X  ==  X op' c
            op = {"lt": "gt", "le": "ge", "eq": "eq", "ne": "ne"}[op]
        if op == "lt":
            return True if x_lt else (False if x_ge else None)
        if op == "le":
            return True if x_le else (False if x_gt else None)
        if op == "gt":
            return True if x_gt else (False if x_le else None)
        if op == "ge":
            return True if x_ge else (False if x_lt else None)
        if op == "eq":
            return False if (x_gt or x_lt) else None
        if op == "ne":
            return True if (x_gt or x_lt) else None
        return None

    # -- environments --------------------------------------------------------
    def module_env(self, modname):
        if modname in self._modcache:
            return self._modcache[modname]
        e = Env({}, None, modname, None)
        self._modcache[modname] = e
        return e

    def _call_fills_global(self, m, call, name):
        """The call is to a module-level function of m whose body stores into the global `name` by subscript."""
        if not isinstance(call.func, ast.Name):
            return False
        g = self.P.funcs.get("%s.%s" % (m.name, call.func.id))
        if g is None or g.is_lambda or name in g.params:
            return False
        for nd in ast.walk(g.node):
            if isinstance(nd, ast.Subscript) and isinstance(nd.ctx, ast.Store) and isinstance(nd.value, ast.Name) and nd.value.id == name:
                return True
        return False

    def func_env(self, func, args=None, closure_env=None):
        parent = closure_env if closure_env is not None else self.module_env(func.module.name)
        e = Env(args or {}, parent, func.module.name, func)
        return e

    def new_state(self, func=None, args=None, module=None):
        if func is not None:
            env = self.func_env(func, args)
        else:
            env = Env(args or {}, self.module_env(module), module, None)
        return State(env, LazyHeap(self))

    # -- names ---------------------------------------------------------------
    def resolve_global(self, modname, name, st=None):
        m = self.P.modules.get(modname)
        if m is None:
            return Ext("%s.%s" % (modname, name))
        q = "%s.%s" % (modname, name)
        if q in self.P.funcs and self.P.funcs[q].parent is None and self.P.funcs[q].cls is None:
            return Closure(self.P.funcs[q], None)
        if q in self.P.classes:
            return ClassRef(self.P.classes[q])
        if name in m.imports:
            imp = m.imports[name]
            if imp[0] == "module":
                mn = imp[1]
                if mn.startswith("labella."):
                    return ModRef(mn.split(".", 1)[1])
                return Ext(mn)
            mn, sym = imp[1], imp[2]
            if mn.startswith("labella."):
                return self.resolve_global(mn.split(".", 1)[1], sym, st)
            if mn == "labella":
                if sym in self.P.modules:
                    return ModRef(sym)
                return Ext("labella." + sym)
            return Ext("%s.%s" % (mn, sym))
        asg = m.global_assigns(name)
        if asg:
            ck = ("gval", modname, name)
            if ck in self._modcache:
                return self._modcache[ck]
            self._modcache[ck] = Opaque("%s.%s" % (modname, name))
            st0 = State(Env({}, self.module_env(modname), modname, None), self.gheap)
            self.in_global_init += 1
            try:
                v = self.expr(asg[-1].value, st0)
                if isinstance(v, (DictV, Seq)):
                    v.ident = "G:%s.%s" % (modname, name)
                    self.gowned.add(id(v))
                self._modcache[ck] = v
                # later module-level stores  NAME[const] = expr  /  NAME.attr = expr
                after = False
                for stn in m.tree.body:
                    if stn is asg[-1]:
                        after = True
                        continue
                    if after and isinstance(stn, ast.Assign) and len(stn.targets) == 1 and isinstance(stn.targets[0], ast.Subscript) and isinstance(stn.targets[0].value, ast.Name) and stn.targets[0].value.id == name:
                        self.stmt(stn, st0)
                    elif after and isinstance(stn, ast.For) and isinstance(v, (Seq, DictV)) and any(
                            (isinstance(x, ast.Call) and isinstance(x.func, ast.Attribute) and x.func.attr in ("append", "extend", "update", "setdefault") and isinstance(x.func.value, ast.Name) and x.func.value.id == name)
                            or (isinstance(x, ast.Subscript) and isinstance(x.ctx, ast.Store) and isinstance(x.value, ast.Name) and x.value.id == name) for x in ast.walk(stn)):
                        # a module-level loop that fills the table at import time
                        self.stmt(stn, st0)
                    elif after and isinstance(stn, (ast.Expr, ast.Assign)) and isinstance(stn.value, ast.Call) and self._call_fills_global(m, stn.value, name):
                        # registration helpers called at import time:  register("second", ...)  with  NAME[key] = ...  inside
                        if isinstance(stn, ast.Expr):
                            self.expr(stn.value, st0)
                        else:
                            self.stmt(stn, st0)
            except SymLimit:
                v = Opaque("%s.%s" % (modname, name))
            finally:
                self.in_global_init -= 1
            self.gheap.update(st0.heap)
            self._mark_gowned(v, "G:%s.%s" % (modname, name))
            self._modcache[ck] = v
            return v
        # class attribute?  no.  builtin
        return Ext(name)

    def _mark_gowned(self, v, owner, depth=0):
        if depth > 6:
            return
        if isinstance(v, (Seq, DictV)):
            if id(v) not in self.gowner:
                self.gowner[id(v)] = owner
            self.gowned.add(id(v))
            if not (v.ident or "").startswith("G:"):
                v.ident = owner
            if isinstance(v, Seq):
                for i, x in enumerate(v.items):
                    self._mark_gowned(x, "%s[%d]" % (owner, i), depth + 1)
            else:
                for k, x in v.items.items():
                    self._mark_gowned(x, "%s[%r]" % (owner, k), depth + 1)
        elif isinstance(v, Opaque) and v.kind == "new":
            if v.text not in self.gowner:
                self.gowner[v.text] = owner
            self.gowned.add(v.text)
            for (o, a), x in list(self.gheap.items()):
                if o == v.text:
                    self._mark_gowned(x, "%s.%s" % (owner, a), depth + 1)

    def name(self, node, st):
        v = st.env.lookup(node.id)
        if v is not None:
            return v
        return self.resolve_global(st.env.module, node.id, st)

    # -- expressions ---------------------------------------------------------
    def expr(self, n, st):
        m = getattr(self, "e_" + type(n).__name__, None)
        if m is None:
            return Opaque("<%s>" % ntext(n))
        return m(n, st)

    def e_Constant(self, n, st):
        v = n.value
        if isinstance(v, bool) or v is None or isinstance(v, (str, bytes)):
            return Const(v)
        if isinstance(v, (int, float)):
            return C(v)
        return Const(v)

    def e_Name(self, n, st):
        return self.refine(self.name(n, st))

    def e_NamedExpr(self, n, st):
        v = self.expr(n.value, st)
        st.env.assign(n.target.id, v)
        return v

    def e_Tuple(self, n, st):
        return Seq("tuple", [self.expr(e, st) for e in n.elts])

    def e_List(self, n, st):
        items = []
        for e in n.elts:
            if isinstance(e, ast.Starred):
                v = self.expr(e.value, st)
                if isinstance(v, Seq):
                    items.extend(v.items)
                else:
                    return Opaque("[*%s]" % key(v))
            else:
                items.append(self.expr(e, st))
        self.fresh += 1
        return Seq("list", items, ident="A:list@%s" % getattr(n, "lineno", self.fresh))

    def e_Set(self, n, st):
        return Seq("tuple", [self.expr(e, st) for e in n.elts])

    def e_Dict(self, n, st):
        items = {}
        for k, v in zip(n.keys, n.values):
            if k is None:
                vv = self.expr(v, st)
                if isinstance(vv, DictV):
                    items.update(vv.items)
                    continue
                return Opaque("{**%s}" % key(vv))
            kv = self.expr(k, st)
            if isinstance(kv, Const):
                items[kv.v] = self.expr(v, st)
            elif isinstance(kv, Num) and kv.is_const():
                c = kv.const_value()
                items[int(c) if c.denominator == 1 else float(c)] = self.expr(v, st)
            else:
                return Opaque("{%s...}" % key(kv))
        return DictV(items, ident="A:dict@%s" % getattr(n, "lineno", 0))

    def e_JoinedStr(self, n, st):
        parts = []
        for v in n.values:
            if isinstance(v, ast.Constant):
                parts.append(("lit", v.value))
            else:
                spec = ""
                if v.format_spec is not None:
                    # a computed part of the format spec is written <value> (f"{x:.{d}f}" has the spec ".<d>f")
                    spec = "".join(x.value if isinstance(x, ast.Constant) else "<%s>" % key(self.expr(x.value, st)) for x in v.format_spec.values)
                parts.append(("hole", self.expr(v.value, st), "f:" + spec + ("!%s" % chr(v.conversion) if v.conversion != -1 else "")))
        return self._mk_template(parts)

    def _mk_template(self, parts):
        if all(p[0] == "lit" for p in parts):
            return Const("".join(p[1] for p in parts))
        # a string inserted verbatim into a string is part of that string: splice nested templates / constants
        spliced = []
        for p in parts:
            if p[0] != "lit" and p[2] in ("raw", "%s", "str", "f:", "f:!s") and isinstance(p[1], Template):
                spliced.extend(p[1].parts)
            elif p[0] != "lit" and p[2] in ("raw", "%s", "str", "f:", "f:!s") and isinstance(p[1], Const) and isinstance(p[1].v, str):
                spliced.append(("lit", p[1].v))
            else:
                spliced.append(p)
        parts = spliced
        if all(p[0] == "lit" for p in parts):
            return Const("".join(p[1] for p in parts))
        flat = []
        for p in parts:
            if p[0] == "lit":
                if flat and flat[-1][0] == "lit":
                    flat[-1] = ("lit", flat[-1][1] + p[1])
                elif p[1] != "":
                    flat.append(p)
            else:
                flat.append(p)
        return Template(flat)

    def e_Lambda(self, n, st):
        f = self.P.func_of_node.get(n)
        if f is None:
            return Opaque("<lambda>")
        return Closure(f, st.env)

    def e_IfExp(self, n, st):
        c = self.cond(n.test, st)
        if isinstance(c, Const):
            return self.expr(n.body if c.v else n.orelse, st)
        # each arm is evaluated knowing which way the condition went (`x if p is None else f(*p)`)
        with self.assuming(c, True):
            a = self.expr(n.body, st)
        with self.assuming(c, False):
            b = self.expr(n.orelse, st)
        return mkphi(c, a, b)

    def e_UnaryOp(self, n, st):
        v = self.expr(n.operand, st)
        if isinstance(n.op, ast.Not):
            return cnot(self.truth(v))
        if isinstance(v, Phi) and _phi_size(v) <= 16:
            return self._dist(lambda xs: self._unary(n.op, xs[0]), [v])
        return self._unary(n.op, v)

    def _unary(self, op, v):
        class _N:
            pass
        n = _N()
        n.op = op
        x = as_num(v)
        if x is None:
            return Opaque("(%s%s)" % (type(n.op).__name__, key(v)))
        if isinstance(n.op, ast.USub):
            return -x
        if isinstance(n.op, ast.UAdd):
            return x
        return Num.atom(("invert", x.key()))

    def e_BoolOp(self, n, st):
        isand = isinstance(n.op, ast.And)
        # short-circuit evaluation with Python value semantics:
        #   a and b -> b if a else a ;  a or b -> a if a else b
        def go(i):
            v = self.expr(n.values[i], st)
            if i == len(n.values) - 1:
                return v
            cache = []

            def rest_():
                if not cache:
                    cache.append(go(i + 1))
                return cache[0]

            def short(x, depth=0):
                t = self.truth(x)
                if isinstance(t, Const):
                    if isand:
                        return rest_() if t.v else x
                    return x if t.v else rest_()
                if isinstance(x, Phi) and depth < 6:
                    # the operand is itself a choice: decide each alternative separately
                    return mkphi(x.cond, short(x.a, depth + 1), short(x.b, depth + 1))
                rest = rest_()
                boolish = isinstance(x, (Cond,)) or (isinstance(x, Const) and isinstance(x.v, bool))
                rboolish = isinstance(rest, (Cond,)) or (isinstance(rest, Const) and isinstance(rest.v, bool))
                if boolish and rboolish:
                    return self._bool_join(isand, [x, rest])
                if isand:
                    return mkphi(t, rest, x)
                return mkphi(t, x, rest)

            return short(v)

        return go(0)

    def cond(self, n, st):
        """Evaluate expression n in boolean context: Const(bool) or Cond."""
        if isinstance(n, ast.BoolOp):
            isand = isinstance(n.op, ast.And)
            parts = []
            ctxs = []
            try:
                for e in n.values:
                    c = self.cond(e, st)
                    if isinstance(c, Const):
                        if isand and not c.v:
                            return FALSE if not parts else self._bool_join(True, parts + [FALSE])
                        if (not isand) and c.v:
                            return TRUE if not parts else self._bool_join(False, parts + [TRUE])
                        continue
                    parts.append(c)
                    # short-circuit: later operands are evaluated only if this one is true (and) / false (or)
                    cm = self.assuming(c, isand)
                    cm.__enter__()
                    ctxs.append(cm)
            finally:
                for cm in reversed(ctxs):
                    cm.__exit__(None, None, None)
            if not parts:
                return TRUE if isand else FALSE
            if len(parts) == 1:
                return parts[0]
            return self._fold_assumed(self._bool_join(isand, parts))
        if isinstance(n, ast.UnaryOp) and isinstance(n.op, ast.Not):
            return self._fold_assumed(cnot(self.cond(n.operand, st)))
        return self.truth(self.expr(n, st))

    def _bool_join(self, isand, vals):
        ts = []
        for v in vals:
            t = self.truth(v)
            if isinstance(t, Const):
                if isand and t.v:
                    continue
                if (not isand) and not t.v:
                    continue
                return Const(t.v)
            tr = t.tree
            if tr[0] == ("and" if isand else "or"):
                ts.extend(tr[1:])
            else:
                ts.append(tr)
        if not ts:
            return TRUE if isand else FALSE
        if len(ts) == 1:
            return Cond(ts[0])
        return Cond((("and" if isand else "or"),) + tuple(ts))

    def truth(self, v):
        """Const(bool) or Cond."""
        return self._fold_assumed(self._truth(v))

    def _truth(self, v):
        if isinstance(v, Cond):
            return v
        if isinstance(v, Const):
            return Const(bool(v.v))
        if isinstance(v, Num):
            if v.is_const():
                return Const(v.const_value() != 0)
            return Cond(("truth", v))
        if isinstance(v, Seq):
            return Const(len(v.items) > 0)
        if isinstance(v, Opaque) and v.text in self.nonempty:
            return TRUE
        if isinstance(v, Opaque) and v.kind in ("new", "obj"):
            return TRUE
        if isinstance(v, Cat):
            if any((isinstance(p, Seq) and p.items) or (isinstance(p, Opaque) and p.text in self.nonempty) for p in v.parts):
                return TRUE
        if isinstance(v, DictV) and v.fallback is None:
            return Const(len(v.items) > 0)
        if isinstance(v, (Closure, ClassRef, ModRef, Ext, Bound)):
            return TRUE
        if isinstance(v, Template):
            return TRUE if any(p[0] == "lit" and p[1] for p in v.parts) else Cond(("truth", v))
        if isinstance(v, Phi):
            a, b = self.truth(v.a), self.truth(v.b)
            if isinstance(a, Const) and isinstance(b, Const):
                if a.v == b.v:
                    return a
                return v.cond if a.v else cnot(v.cond)
            if isinstance(a, Const):
                # (c and a) or (not c and b)
                return self._bool_join(False, [v.cond, b]) if a.v else self._bool_join(True, [cnot(v.cond), b])
            if isinstance(b, Const):
                return self._bool_join(False, [cnot(v.cond), a]) if b.v else self._bool_join(True, [v.cond, a])
        return Cond(("truth", v))

    def e_Compare(self, n, st):
        left = self.expr(n.left, st)
        res = []
        for op, r in zip(n.ops, n.comparators):
            right = self.expr(r, st)
            if isinstance(op, (ast.In, ast.NotIn)) and isinstance(right, Opaque) and right.cls is not None and right.kind in ("new", "obj"):
                m = self.P.method(right.cls, "__contains__")
                if m is not None:
                    # membership in an object of the package is what its __contains__ returns
                    t = self.truth(self.call_closure(Closure(m, None, selfv=right), [left], {}, st, n))
                    res.append(cnot(t) if isinstance(op, ast.NotIn) else t)
                    left = right
                    continue
            res.append(self.compare(OPN[type(op)], left, right))
            left = right
        if len(res) == 1:
            return res[0]
        return self._bool_join(True, res)

    def compare(self, op, a, b):
        if (isinstance(a, Phi) or isinstance(b, Phi)) and _phi_size(a) + _phi_size(b) <= 16 and (op not in ("is", "isnot") or (isinstance(b, Const) and b.v is None) or (isinstance(a, Const) and a.v is None)):
            r = self._dist(lambda xs: self.compare(op, xs[0], xs[1]), [a, b])
            if isinstance(r, Phi):
                # boolean Phi -> condition
                ta, tb = self.truth(r.a), self.truth(r.b)
                if isinstance(ta, Const) and isinstance(tb, Const):
                    if ta.v and not tb.v:
                        return r.cond
                    if tb.v and not ta.v:
                        return cnot(r.cond)
                return Cond(("phi", r.cond.tree if isinstance(r.cond, Cond) else r.cond, ta.tree if isinstance(ta, Cond) else ta, tb.tree if isinstance(tb, Cond) else tb))
            return r
        return self._fold_assumed(self._compare(op, a, b))

    def _compare(self, op, a, b):
        if op in ("eq", "ne") and (isinstance(a, StrSym) or isinstance(b, StrSym)):
            x, y = (a, b) if isinstance(a, StrSym) else (b, a)
            if isinstance(y, Const) and isinstance(y.v, str):
                if len(y.v) != x.length:
                    return Const(op == "ne")
                res = True
                for cx, cy in zip(x.chars, y.v):
                    if cx.startswith("lit:"):
                        if cx[4:] != cy:
                            res = False
                    else:
                        if cy not in "0123456789abcdefABCDEF":
                            res = False
                        else:
                            return Cond(("cmp", op, a, b))
                return Const(res if op == "eq" else not res)
        # constant folding
        if op in ("is", "isnot"):
            if isinstance(a, Const) and isinstance(b, Const) and (a.v is None or b.v is None or isinstance(a.v, bool)):
                r = a.v is b.v
                return Const(r if op == "is" else not r)
            if isinstance(b, Const) and b.v is None and (isinstance(a, (Num, Seq, DictV, Closure, ClassRef, Template, MapV, StrSym)) or (isinstance(a, Opaque) and a.kind in ("new", "obj", "copy", "deepcopy", "seq", "str"))):
                return Const(op == "isnot")
            if isinstance(a, Const) and a.v is None and (isinstance(b, (Num, Seq, DictV, Closure, ClassRef, Template)) or (isinstance(b, Opaque) and b.kind in ("new", "obj", "copy", "deepcopy", "str"))):
                return Const(op == "isnot")
            ka, kb = key(a), key(b)
            if ka == kb and (isinstance(a, (Seq, DictV)) and a.ident is not None or isinstance(a, Opaque)):
                return Const(op == "is")
            if ka != kb and isinstance(a, Opaque) and isinstance(b, Opaque) and (a.kind in ("fresh", "new") or b.kind in ("fresh", "new")):
                return Const(op == "isnot")
            return Cond(("cmp", op, a, b))
        if op in ("in", "notin"):
            if isinstance(b, Seq) and isinstance(a, Const) and all(isinstance(x, Const) for x in b.items):
                r = any(x.v == a.v for x in b.items)
                return Const(r if op == "in" else not r)
            if isinstance(b, DictV) and isinstance(a, Const) and b.fallback is None:
                r = a.v in b.items
                return Const(r if op == "in" else not r)
            if isinstance(b, DictV) and isinstance(a, Const) and a.v in b.items:
                return Const(op == "in")
            if isinstance(a, Const) and isinstance(b, Const) and isinstance(a.v, str) and isinstance(b.v, str):
                r = a.v in b.v
                return Const(r if op == "in" else not r)
            if isinstance(b, DictV) and isinstance(a, Const) and b.fallback is not None and not b.items:
                # a dict that only holds what an unknown mapping `o` put into it: membership is membership in o
                return Cond(("cmp", op, a, Opaque(b.fallback, kind="obj")))
            return Cond(("cmp", op, a, b))
        if isinstance(a, Const) and isinstance(b, Const) and not isinstance(a.v, (int, float)) and not isinstance(b.v, (int, float)):
            try:
                r = {"eq": a.v == b.v, "ne": a.v != b.v}.get(op)
                if r is None:
                    r = {"lt": a.v < b.v, "le": a.v <= b.v, "gt": a.v > b.v, "ge": a.v >= b.v}[op]
                return Const(r)
            except Exception:
                return Cond(("cmp", op, a, b))
        if isinstance(a, Const) and isinstance(a.v, str) and isinstance(b, (Num,)) or isinstance(b, Const) and isinstance(b.v, str) and isinstance(a, Num):
            if op in ("eq", "ne"):
                return Const(op == "ne")
        na, nb = as_num(a), as_num(b)
        if self.eqsubst and na is not None and nb is not None and isinstance(a, (Num, Const, Opaque)) and isinstance(b, (Num, Const, Opaque)):
            na, nb = na.subst(self.eqsubst), nb.subst(self.eqsubst)
            if na.is_const() and nb.is_const():
                x, y = na.const_value(), nb.const_value()
                return Const({"eq": x == y, "ne": x != y, "lt": x < y, "le": x <= y, "gt": x > y, "ge": x >= y}[op])
            if na.equals(nb):
                return Const(op in ("eq", "le", "ge"))
        if na is not None and nb is not None and isinstance(a, (Num, Const)) and isinstance(b, (Num, Const)):
            if na.is_const() and nb.is_const():
                x, y = na.const_value(), nb.const_value()
                return Const({"eq": x == y, "ne": x != y, "lt": x < y, "le": x <= y, "gt": x > y, "ge": x >= y}[op])
            if na.equals(nb):
                if op in ("eq", "le", "ge"):
                    return TRUE
                if op in ("ne", "lt", "gt"):
                    return FALSE
        if isinstance(a, Const) and isinstance(b, Const):
            try:
                x, y = a.v, b.v
                return Const({"eq": x == y, "ne": x != y, "lt": x < y, "le": x <= y, "gt": x > y, "ge": x >= y}[op])
            except Exception:
                pass
        if op in ("eq", "ne") and key(a) == key(b) and isinstance(a, (Opaque, Num)):
            return Const(op == "eq")
        # canonical orientation: gt/ge -> lt/le with swapped operands
        if op == "gt":
            return Cond(("cmp", "lt", b, a))
        if op == "ge":
            return Cond(("cmp", "le", b, a))
        return Cond(("cmp", op, a, b))

    def e_BinOp(self, n, st):
        a = self.expr(n.left, st)
        b = self.expr(n.right, st)
        return self.binop(type(n.op), a, b, n)

    def _dist(self, fn, args):
        """Apply fn(args) distributing over Phi arguments that share a condition."""
        for x in args:
            if isinstance(x, Phi):
                ck_ = key(x.cond)
                la = [y.a if isinstance(y, Phi) and key(y.cond) == ck_ else y for y in args]
                lb = [y.b if isinstance(y, Phi) and key(y.cond) == ck_ else y for y in args]
                return mkphi(x.cond, self._dist(fn, la), self._dist(fn, lb))
        return fn(args)

    def binop(self, op, a, b, n=None):
        if (isinstance(a, Phi) or isinstance(b, Phi)) and _phi_size(a) + _phi_size(b) <= 32:
            return self._dist(lambda xs: self.binop(op, xs[0], xs[1], n), [a, b])
        # string / sequence operations
        if op is ast.Mod and (isinstance(a, Const) and isinstance(a.v, str) or isinstance(a, Template)):
            if n is not None:
                self.strmod_nodes.add(n)  # this `%` formats a string on at least one evaluated path
            return self.percent_format(a, b)
        if op is ast.BitOr and isinstance(a, DictV) and isinstance(b, DictV) and b.fallback is None:
            # PEP 584: a | b is a new dict, b's entries win
            m = dict(a.items)
            m.update(b.items)
            return DictV(m, fallback=a.fallback, ident="A:dictor")
        if op is ast.Add:
            if isinstance(a, StrSym) and isinstance(b, StrSym) and a.upper == b.upper:
                return StrSym(a.chars + b.chars, a.upper)
            if isinstance(a, Seq) and isinstance(b, Seq):
                return Seq(a.kind, a.items + b.items, ident="A:concat")
            def _isseq(x):
                return isinstance(x, (Seq, Cat, MapV)) or (isinstance(x, Opaque) and x.kind in ("seq", "copy"))
            if _isseq(a) and _isseq(b) and (isinstance(a, (Seq, Cat)) or isinstance(b, (Seq, Cat))):
                pa = a.parts if isinstance(a, Cat) else [a]
                pb = b.parts if isinstance(b, Cat) else [b]
                return Cat(pa + pb, ident="A:concat")
            sa, sb = self.as_template(a), self.as_template(b)
            if sa is not None and sb is not None and (self._stringy(a) or self._stringy(b)):
                return self._mk_template(sa + sb)
        if op is ast.Mult:
            if isinstance(a, Seq) and num_const(b) is not None:
                k = num_const(b)
                if k.denominator == 1 and 0 <= k <= 64:
                    return Seq(a.kind, a.items * int(k), ident="A:rep")
            if isinstance(a, Const) and isinstance(a.v, str) and num_const(b) is not None:
                return Const(a.v * int(num_const(b)))
        x, y = as_num(a), as_num(b)
        if x is None or y is None:
            return Opaque("(%s %s %s)" % (key(a), op.__name__, key(b)))
        if op is ast.Add:
            return x + y
        if op is ast.Sub:
            return x - y
        if op is ast.Mult:
            return x * y
        if op is ast.Div:
            if y.n.is_zero():
                return Num.atom(("divzero", x.key()))
            return x / y
        if op is ast.FloorDiv:
            if x.is_const() and y.is_const() and y.const_value() != 0:
                q = x.const_value() / y.const_value()
                return C(q.numerator // q.denominator)
            return Num.atom(("floordiv", x.key(), y.key()))
        if op is ast.Mod:
            if x.is_const() and y.is_const() and y.const_value() != 0:
                xv, yv = x.const_value(), y.const_value()
                return C(xv - yv * ((xv / yv).numerator // (xv / yv).denominator))
            return Num.atom(("mod", x.key(), y.key()))
        if op is ast.Pow:
            if y.is_const() and y.const_value().denominator == 1 and 0 <= y.const_value() <= 8:
                r = C(1)
                for _ in range(int(y.const_value())):
                    r = r * x
                return r
            if x.is_const() and y.is_const() and y.const_value().denominator == 1 and abs(y.const_value()) <= 64 and x.const_value() != 0:
                return C(x.const_value() ** int(y.const_value()))
            return Num.atom(("pow", x.key(), y.key()))
        if op in (ast.BitAnd, ast.BitOr, ast.BitXor, ast.LShift, ast.RShift):
            return Num.atom((op.__name__.lower(), x.key(), y.key()))
        return Opaque("(%s %s %s)" % (key(a), op.__name__, key(b)))

    def _stringy(self, v):
        return isinstance(v, Template) or (isinstance(v, Const) and isinstance(v.v, str)) or (isinstance(v, Opaque) and v.kind == "str") or isinstance(v, StrSym)

    def as_template(self, v):
        if isinstance(v, Template):
            return list(v.parts)
        if isinstance(v, Const) and isinstance(v.v, str):
            return [("lit", v.v)]
        if isinstance(v, Opaque):
            return [("hole", v, "raw")]
        if isinstance(v, Phi):
            return [("hole", v, "raw")]
        if isinstance(v, StrSym):
            return [("hole", v, "raw")]
        return None

    def percent_format(self, fmt, args):
        parts = self.as_template(fmt)
        if isinstance(args, Seq) and args.kind == "tuple":
            argl = list(args.items)
        else:
            argl = [args]
        out = []
        ai = 0
        named = False
        import re

        for p in parts:
            if p[0] != "lit":
                out.append(p)
                continue
            s = p[1]
            pos = 0
            for m in re.finditer(r"%(?:\((\w+)\))?([#0\- +]*)(\*|\d+)?(?:\.(\*|\d+))?([diouxXeEfFgGcrsa%])", s):
                if m.start() > pos:
                    out.append(("lit", s[pos:m.start()]))
                pos = m.end()
                if m.group(5) == "%":
                    out.append(("lit", "%"))
                    continue
                spec = "%" + (m.group(2) or "") + (m.group(3) or "") + (("." + m.group(4)) if m.group(4) is not None else "") + m.group(5)
                if m.group(1) is not None:
                    # %(name)s: the operand is a mapping
                    if isinstance(args, DictV) and m.group(1) in args.items:
                        out.append(("hole", args.items[m.group(1)], spec))
                    elif isinstance(args, DictV) and args.fallback is None:
                        out.append(("hole", Opaque("<missing format key %s>" % m.group(1)), spec))
                    else:
                        out.append(("hole", Opaque("%s[%r]" % (key(args), m.group(1))), spec))
                    named = True
                    continue
                if ai < len(argl):
                    out.append(("hole", argl[ai], spec))
                else:
                    out.append(("hole", Opaque("<missing format argument>"), spec))
                ai += 1
            if pos < len(s):
                out.append(("lit", s[pos:]))
        t = self._mk_template(out)
        if isinstance(t, Template):
            t.nargs = (ai, len(argl)) if not named else (0, 0)
        return t

    def e_Attribute(self, n, st):
        base = self.expr(n.value, st)
        return self.getattr(base, n.attr, st)

    def getattr(self, base, attr, st):
        if isinstance(base, SuperV):
            for k in self.P.mro(base.cls)[1:]:
                if attr in k.methods:
                    return Closure(k.methods[attr], None, selfv=base.selfv)
            return Opaque("super().%s" % attr)
        if isinstance(base, ModRef):
            return self.resolve_global(base.name, attr, st)
        if isinstance(base, Ext):
            return Ext(base.name + "." + attr)
        if isinstance(base, ClassRef):
            f = self.P.method(base.cls, attr)
            if f is not None:
                if f.is_classmethod:
                    return Closure(f, None, selfv=base)
                return Closure(f, None)
            # class attribute
            v = self._class_attr(base.cls, attr)
            if v is not None:
                return v
            return Opaque("%s.%s" % (base.cls.name, attr))
        if isinstance(base, Opaque):
            hk = (base.text, attr)
            if hk in st.heap:
                return st.heap[hk]
            if base.cls is not None:
                f = self.P.method(base.cls, attr)
                if f is not None:
                    if getattr(f, "is_property", False):
                        # reading a property runs its getter
                        return self.call_closure(Closure(f, None, selfv=base), [], {}, st)
                    return Closure(f, None, selfv=base)
                # a class-level table / constant read through the instance (never stored on the instance: heap miss above)
                if base.kind in ("obj", "new") and not self._instance_writes(base.cls, attr):
                    v = self._class_attr(base.cls, attr)
                    if isinstance(v, (DictV, Const, Num, Seq, StrTplV, Template)):
                        return v
            if attr in ("sort", "reverse", "append", "extend", "pop", "insert", "remove", "index", "copy") and (base.kind in ("seq", "copy") or (base.cls is None and base.kind not in ("new", "obj")) or "[" in base.text.rsplit(".", 1)[-1]):
                return Bound(base, attr)
            fc = self.field_cls.get(attr)
            if callable(fc):
                fc = fc(base)
            return Opaque("%s.%s" % (base.text, attr), cls=fc)
        if isinstance(base, Phi):
            a = self.getattr(base.a, attr, st)
            b = self.getattr(base.b, attr, st)
            return mkphi(base.cond, a, b)
        if isinstance(base, (Seq, DictV, Const, Template, StrSym, OverrideV, StrTplV)):
            return Bound(base, attr)
        if isinstance(base, Num):
            return Opaque("%s.%s" % (key(base), attr))
        return Opaque("%s.%s" % (key(base), attr))

    def _class_attr(self, cls, attr):
        for c in self.P.mro(cls):
            for stn in c.node.body:
                if isinstance(stn, ast.Assign):
                    for t in stn.targets:
                        if isinstance(t, ast.Name) and t.id == attr:
                            # the class body is a scope of its own: functions defined in it are plain functions there,
                            # earlier class-level names are visible
                            scope = {}
                            for prev in c.node.body:
                                if prev is stn:
                                    break
                                if isinstance(prev, (ast.FunctionDef, ast.AsyncFunctionDef)):
                                    g = self.P.func_of_node.get(prev)
                                    if g is not None:
                                        scope[prev.name] = Closure(g, None)
                                elif isinstance(prev, ast.Assign) and len(prev.targets) == 1 and isinstance(prev.targets[0], ast.Name) and prev.targets[0].id != attr:
                                    used = {n.id for n in ast.walk(stn.value) if isinstance(n, ast.Name)}
                                    if prev.targets[0].id in used:
                                        v = self._class_attr(c, prev.targets[0].id)
                                        if v is not None:
                                            scope[prev.targets[0].id] = v
                            st0 = State(Env(scope, self.module_env(c.module.name), c.module.name, None))
                            return self.expr(stn.value, st0)
        return None

    def _instance_writes(self, cls, attr):
        """Is `<x>.attr` stored anywhere in the package (an instance or the class could then hold another value)?"""
        memo = self.__dict__.setdefault("_iw_memo", {})
        if attr not in memo:
            memo[attr] = any(isinstance(n, ast.Attribute) and n.attr == attr and isinstance(n.ctx, (ast.Store, ast.Del))
                             for m in self.P.modules.values() for n in ast.walk(m.tree))
        return memo[attr]

    def e_Subscript(self, n, st):
        base = self.expr(n.value, st)
        if isinstance(n.slice, ast.Slice):
            lo = self.expr(n.slice.lower, st) if n.slice.lower is not None else None
            hi = self.expr(n.slice.upper, st) if n.slice.upper is not None else None
            step = self.expr(n.slice.step, st) if n.slice.step is not None else None
            return self.getslice(base, lo, hi, step)
        idx = self.expr(n.slice, st)
        if isinstance(idx, SliceV):
            return self.getslice(base, idx.lo, idx.hi, idx.step)
        r = self.getitem(base, idx, st)
        if isinstance(r, Opaque) and r.kind in ("indexerror", "keyerror") and isinstance(n.ctx, ast.Load):
            # a constant subscript outside a sequence / dict whose shape is known on this path
            self.faults.append((r.kind, n, r.text, key(base)[:80]))
        return r

    def getslice(self, base, lo, hi, step):
        lc = None if lo is None else num_const(lo)
        hc = None if hi is None else num_const(hi)
        sc = None if step is None else num_const(step)
        okc = (lo is None or lc is not None) and (hi is None or hc is not None) and (step is None or sc is not None)
        if okc and isinstance(base, Seq):
            sl = slice(None if lc is None else int(lc), None if hc is None else int(hc), None if sc is None else int(sc))
            return Seq(base.kind, base.items[sl], ident="A:slice")
        if okc and isinstance(base, Const) and isinstance(base.v, str):
            sl = slice(None if lc is None else int(lc), None if hc is None else int(hc), None if sc is None else int(sc))
            return Const(base.v[sl])
        if okc and isinstance(base, StrSym):
            return base.slice(None if lc is None else int(lc), None if hc is None else int(hc), None if sc is None else int(sc))
        return Opaque("%s[%s:%s%s]" % (key(base), "" if lo is None else key(lo), "" if hi is None else key(hi), "" if step is None else ":" + key(step)))

    def getitem(self, base, idx, st=None):
        if self.on_getitem is not None:
            r = self.on_getitem(base, idx, st)
            if r is not None:
                return r
        if isinstance(idx, Phi) and _phi_size(idx) <= 8:
            return mkphi(idx.cond, self.getitem(base, idx.a, st), self.getitem(base, idx.b, st))
        if isinstance(base, Opaque) and base.cls is not None and base.kind in ("new", "obj") and st is not None:
            m = self.P.method(base.cls, "__getitem__")
            if m is not None:
                # subscripting an object of the package runs its __getitem__
                return self.call_closure(Closure(m, None, selfv=base), [idx], {}, st)
        ic = num_const(idx)
        if isinstance(base, Cat) and ic is not None and ic.denominator == 1 and int(ic) in (0, -1):
            part = base.parts[0] if int(ic) == 0 else base.parts[-1]
            ne = isinstance(part, Seq) and part.items or (isinstance(part, Opaque) and part.text in self.nonempty) or (isinstance(part, MapV) and key(part.it) in self.nonempty)
            if ne:
                return self.getitem(part, idx, st)
            return Opaque("%s[%d]" % (key(base), int(ic)))
        if isinstance(base, MapV) and ic is not None:
            src = self.getitem(base.it, idx, st)
            return self.map_instance(base, src, st)
        if isinstance(base, Seq) and ic is not None and ic.denominator == 1:
            i = int(ic)
            if -len(base.items) <= i < len(base.items):
                return base.items[i]
            return Opaque("<index %d out of range of %s>" % (i, key(base)), kind="indexerror")
        if isinstance(base, StrSym) and ic is not None:
            return base.index(int(ic))
        if isinstance(base, Const) and isinstance(base.v, str) and ic is not None:
            try:
                return Const(base.v[int(ic)])
            except IndexError:
                return Opaque("<index out of range>", kind="indexerror")
        if isinstance(base, DictV):
            kk = None
            if isinstance(idx, Const):
                kk = idx.v
            elif ic is not None:
                kk = int(ic) if ic.denominator == 1 else float(ic)
            if kk is not None:
                if kk in base.items:
                    return base.items[kk]
                if base.fallback is not None:
                    fc = self.field_cls.get(("key", kk))
                    return Opaque("%s[%r]" % (base.fallback, kk), cls=fc)
                return Opaque("<KeyError %r in %s>" % (kk, base.ident or "dict"), kind="keyerror")
            elif base.items and len(base.items) <= 40:
                # unknown key: any of the values
                vals = list(base.items.items())
                out = Opaque("%s[%s]" % (base.ident or "dict", key(idx)))
                for k_, v_ in reversed(vals):
                    out = Phi(Cond(("cmp", "eq", idx, Const(k_))), v_, out)
                return out
        if isinstance(base, Opaque):
            if isinstance(idx, Const):
                t = "%s[%r]" % (base.text, idx.v)
                fc = self.field_cls.get(("key", idx.v))
            else:
                t = "%s[%s]" % (base.text, key(idx))
                fc = self.field_cls.get(("elem", base.text)) or (base.cls if base.kind == "seq" else None)
            if st is not None and (base.text, "[%s]" % key(idx)) in st.heap:
                return st.heap[(base.text, "[%s]" % key(idx))]
            return Opaque(t, cls=fc)
        if isinstance(base, Phi):
            return mkphi(base.cond, self.getitem(base.a, idx, st), self.getitem(base.b, idx, st))
        return Opaque("%s[%s]" % (key(base), key(idx)))

    def map_instance(self, mapv, src, st):
        """The element of [body(el) for el in it] that corresponds to source element `src`."""
        k = (id(mapv), key(src))
        if k not in self.map_inst:
            self.map_inst[k] = Opaque("map(%s)<%s>" % (key(mapv.body)[:40], key(src)), cls=getattr(mapv.body, "cls", None), kind="obj")
            self.map_inst[k] = (self.map_inst[k], src)
        return self.map_inst[k][0]

    def e_ListComp(self, n, st):
        return self._comp(n, st, "list")

    def e_GeneratorExp(self, n, st):
        return self._comp(n, st, "list")

    def e_SetComp(self, n, st):
        return self._comp(n, st, "tuple")

    def _comp(self, n, st, kind):
        if len(n.generators) != 1:
            out = []

            def rec(gi, s_):
                if gi == len(n.generators):
                    out.append(self.expr(n.elt, s_))
                    return True
                g_ = n.generators[gi]
                items_ = self.iter_items(self.expr(g_.iter, s_))
                if items_ is None:
                    return False
                for x_ in items_:
                    s3 = State(Env({}, s_.env, s_.env.module, s_.env.func), s_.heap)
                    s3.heap = s_.heap  # objects created by the element expression stay visible (shared, not copied)
                    s3.events = s_.events
                    self.bind(g_.target, x_, s3)
                    keep = True
                    for c_ in g_.ifs:
                        t_ = self.truth(self.expr(c_, s3))
                        if not isinstance(t_, Const):
                            return False
                        keep = keep and t_.v
                    if keep and not rec(gi + 1, s3):
                        return False
                return True

            if rec(0, st):
                return Seq(kind, out, ident="A:comp@%s" % n.lineno)
            return Opaque("<comp %s>" % ntext(n))
        g = n.generators[0]
        it = self.expr(g.iter, st)
        items = self.iter_items(it)
        if items is not None:
            out = []
            for x in items:
                s2 = State(Env({}, st.env, st.env.module, st.env.func), st.heap)
                s2.events = st.events
                self.bind(g.target, x, s2)
                keep = True
                for c in g.ifs:
                    t = self.truth(self.expr(c, s2))
                    if isinstance(t, Const):
                        keep = keep and t.v
                    else:
                        return Opaque("<comp %s>" % ntext(n))
                if keep:
                    out.append(self.expr(n.elt, s2))
                st.heap = s2.heap
            return Seq(kind, out, ident="A:comp@%s" % n.lineno)
        # generic element
        el = self.elem_of(it)
        s2 = State(Env({}, st.env, st.env.module, st.env.func), st.heap)
        s2.events = st.events
        self.bind(g.target, el, s2)
        body = self.expr(n.elt, s2)
        conds = [key(self.expr(c, s2)) for c in g.ifs]
        st.heap = s2.heap
        return MapV(it, el, body, conds)

    def e_DictComp(self, n, st):
        if len(n.generators) == 1:
            g = n.generators[0]
            it = self.expr(g.iter, st)
            items = self.iter_items(it)
            if items is not None:
                out = {}
                for x in items:
                    s2 = State(Env({}, st.env, st.env.module, st.env.func), st.heap)
                    self.bind(g.target, x, s2)
                    keep = True
                    for c in g.ifs:
                        t = self.truth(self.expr(c, s2))
                        if isinstance(t, Const):
                            keep = keep and t.v
                        else:
                            return Opaque("<dictcomp %s>" % ntext(n))
                    if keep:
                        k = self.expr(n.key, s2)
                        if not isinstance(k, Const):
                            return Opaque("<dictcomp %s>" % ntext(n))
                        out[k.v] = self.expr(n.value, s2)
                return DictV(out, ident="A:dictcomp@%s" % n.lineno)
        return Opaque("<dictcomp %s>" % ntext(n))

    def iter_items(self, v):
        if isinstance(v, Seq):
            return list(v.items)
        if isinstance(v, StrSym):
            return [StrSym([c], v.upper) for c in v.chars]
        if isinstance(v, Const) and isinstance(v.v, str) and len(v.v) <= 64:
            return [Const(c) for c in v.v]
        if isinstance(v, DictItems):
            return [Seq("tuple", [Const(k), x]) for k, x in v.d.items.items()] if v.d.fallback is None else None
        if isinstance(v, DictV) and v.fallback is None:
            return [Const(k) for k in v.items]
        if isinstance(v, EnumV):
            inner = self.iter_items(v.inner)
            if inner is None:
                return None
            return [Seq("tuple", [C(i + v.start), x]) for i, x in enumerate(inner)][v.pos:]
        if isinstance(v, ZipV):
            inner = [self.iter_items(x) for x in v.parts]
            if any(i is None for i in inner):
                return None
            return [Seq("tuple", list(t)) for t in zip(*inner)]
        return None

    def elem_of(self, it):
        if isinstance(it, Opaque):
            fc = self.field_cls.get(("elem", it.text)) or it.cls
            return Opaque("elem(%s)" % it.text, cls=fc)
        if isinstance(it, EnumV):
            return Seq("tuple", [Num.atom("idx(%s)" % key(it.inner)), self.elem_of(it.inner)])
        if isinstance(it, MapV):
            return it.body
        return Opaque("elem(%s)" % key(it))

    # -- calls ---------------------------------------------------------------
    def e_Call(self, n, st):
        if isinstance(n.func, ast.Attribute) and n.func.attr in ("append", "insert") and isinstance(n.func.value, ast.Name) and not n.keywords:
            cur = st.env.lookup(n.func.value.id)
            if isinstance(cur, (Cat, MapV)) or (isinstance(cur, Opaque) and cur.kind in ("seq", "copy")):
                if n.func.attr == "append" and len(n.args) == 1:
                    item = self.expr(n.args[0], st)
                    parts = cur.parts if isinstance(cur, Cat) else [cur]
                    st.env.assign(n.func.value.id, Cat(parts + [Seq("list", [item])], ident="A:append"))
                    st.events.append(("seq-append", n.func.value.id, item, n))
                    return NONE
                if n.func.attr == "insert" and len(n.args) == 2 and num_const(self.expr(n.args[0], st)) == 0:
                    item = self.expr(n.args[1], st)
                    parts = cur.parts if isinstance(cur, Cat) else [cur]
                    st.env.assign(n.func.value.id, Cat([Seq("list", [item])] + parts, ident="A:insert"))
                    st.events.append(("seq-insert0", n.func.value.id, item, n))
                    return NONE
        fv = self.expr(n.func, st)
        args = []
        for a in n.args:
            if isinstance(a, ast.Starred):
                v = self.refine(self.expr(a.value, st))
                if isinstance(v, Seq):
                    args.extend(v.items)
                elif isinstance(v, Phi) and _phi_size(v) <= 8 and not n.keywords and len(n.args) == 1:
                    # f(*x) with x one of several tuples depending on a condition: the call on each, gated the same way
                    def on_branch(xs, fv=fv):
                        b = xs[0]
                        if isinstance(b, Seq):
                            return self.call(fv, list(b.items), {}, st, n)
                        return Opaque("%s(*%s)" % (key(fv), key(b)))

                    return self._dist(on_branch, [v])
                else:
                    return Opaque("%s(*%s)" % (key(fv), key(v)))
            else:
                args.append(self.expr(a, st))
        kwargs = {}
        for k in n.keywords:
            if k.arg is None:
                v = self.expr(k.value, st)
                if isinstance(v, DictV):
                    for kk, vv in v.items.items():
                        kwargs[kk] = vv
                else:
                    return Opaque("%s(**%s)" % (key(fv), key(v)))
            else:
                kwargs[k.arg] = self.expr(k.value, st)
        return self.call(fv, args, kwargs, st, n)

    def call(self, fv, args, kwargs, st, node=None):
        if self.on_call is not None:
            r = self.on_call(fv, args, kwargs, node, st)
            if r is not None:
                return r
        if isinstance(fv, Phi):
            a = self.call(fv.a, args, kwargs, st, node)
            b = self.call(fv.b, args, kwargs, st, node)
            return mkphi(fv.cond, a, b)
        if isinstance(fv, Closure):
            return self.call_closure(fv, args, kwargs, st, node)
        if isinstance(fv, ClassRef):
            return self.instantiate(fv.cls, args, kwargs, st, node)
        if isinstance(fv, Ext):
            return self.call_ext(fv.name, args, kwargs, st, node)
        if isinstance(fv, PartialV):
            kw = dict(fv.kwargs)
            kw.update(kwargs)
            return self.call(fv.fn, list(fv.args) + list(args), kw, st, node)
        if isinstance(fv, Bound):
            return self.call_bound(fv, args, kwargs, st, node)
        if isinstance(fv, MapV):
            return Opaque("%s(%s)" % (key(fv), ", ".join(key(a) for a in args)))
        if isinstance(fv, Opaque) and fv.cls is not None:
            m = self.P.method(fv.cls, "__call__")
            if m is not None:
                return self.call_closure(Closure(m, None, selfv=fv), args, kwargs, st, node)
        txt = "%s(%s)" % (key(fv), ", ".join([key(a) for a in args] + ["%s=%s" % (k, key(v)) for k, v in sorted(kwargs.items())]))
        st.events.append(("call-unknown", key(fv), [key(a) for a in args], node))
        return Opaque(txt)

    def bind_params(self, f, args, kwargs, selfv, st):
        params = list(f.params)
        b = {}
        args = list(args)
        if selfv is not None and not f.is_staticmethod and params:
            b[params[0]] = selfv
            params = params[1:]
        for p, a in zip(params, args):
            b[p] = a
        if len(args) > len(params):
            if f.vararg:
                b[f.vararg] = Seq("tuple", args[len(params):])
            else:
                b["<arity-error>"] = Const("too many positional arguments")
        for k, v in kwargs.items():
            if k in params or k in f.kwonly:
                b[k] = v
            elif f.kwarg:
                pass
            else:
                b["<arity-error>"] = Const("unexpected keyword %s" % k)
        for p in params + f.kwonly:
            if p not in b:
                if p in f.defaults:
                    st0 = State(Env({}, self.module_env(f.module.name), f.module.name, None))
                    b[p] = self.expr(f.defaults[p], st0)
                else:
                    b["<arity-error>"] = Const("missing argument %s" % p)
                    b[p] = Opaque("<missing %s>" % p)
        if f.vararg and f.vararg not in b:
            b[f.vararg] = Seq("tuple", [])
        if f.kwarg:
            b[f.kwarg] = DictV({k: v for k, v in kwargs.items() if k not in params and k not in f.kwonly})
        return b

    def _user_decorators(self, f):
        """Decorators of f that are functions of the package (they replace the function by what they return)."""
        memo = self.__dict__.setdefault("_udeco", {})
        if f.qual not in memo:
            out = []
            for d in getattr(f.node, "decorator_list", []) if not f.is_lambda else []:
                if isinstance(d, ast.Name):
                    q = "%s.%s" % (f.module.name, d.id)
                    g = self.P.funcs.get(q)
                    if g is None and self.P.has_func(q):
                        g = self.P.func(q)
                    if g is not None and g.parent is None and g.cls is None:
                        out.append(g)
            memo[f.qual] = out
        return memo[f.qual]

    def call_closure(self, c, args, kwargs, st, node=None):
        f = c.func
        if not c.raw and not f.is_lambda and getattr(f.node, "decorator_list", None):
            decos = self._user_decorators(f)
            if decos and (self.inline_filter is None or self.inline_filter(f)):
                # the name is bound to what the decorators return for the plain function: evaluate that and call it instead
                v = Closure(f, c.env, None, raw=True)
                for g in reversed(decos):
                    v = self.call_closure(Closure(g, None), [v], {}, st, node)
                if isinstance(v, Closure):
                    return self.call_closure(Closure(v.func, v.env, c.selfv, raw=v.raw), args, kwargs, st, node)
                return self.call(v, ([c.selfv] if c.selfv is not None else []) + list(args), kwargs, st, node)
        if self.inline_filter is not None and not self.inline_filter(f):
            if kwargs:
                # name the call by its arguments in parameter order, however they were passed
                ps = list(f.params[1:]) if (c.selfv is not None and not f.is_staticmethod and f.params) else list(f.params)
                full = list(args)
                rest = dict(kwargs)
                for p_ in ps[len(full):]:
                    if p_ in rest:
                        full.append(rest.pop(p_))
                    else:
                        break
                if not rest:
                    args = full
            if c.selfv is not None and not isinstance(c.selfv, ClassRef):
                return Opaque("%s.%s(%s)" % (key(c.selfv), f.name, ", ".join(key(a) for a in args)))
            return Opaque("%s(%s)" % (self.qual_alias.get(f.qual, f.qual), ", ".join(key(a) for a in args)))
        reentry = any(x is f for x in self.stack)
        if reentry:
            # recursion driven by data of known shape (a literal table that is walked) unfolds as far as the data goes:
            # allowed when some argument is a container of known shape and this very call is not already being evaluated
            sig = (f.qual, tuple(key(a) for a in args), tuple(sorted((k, key(v)) for k, v in kwargs.items())))
            frames = self.__dict__.setdefault("_rec_frames", [])
            if any(isinstance(a, (DictV, Seq)) for a in list(args) + list(kwargs.values())) and sig not in frames and sum(1 for x in self.stack if x is f) < 6:
                reentry = False
            elif getattr(self, "rec_limit", 0) and sig not in frames and sum(1 for x in self.stack if x is f) < self.rec_limit:
                reentry = False  # instance evaluation (opt-in): recursion over a small concrete structure is simply followed
        if len(self.stack) >= self.max_depth or reentry:
            st.events.append(("call-noinline", f.qual, [key(a) for a in args], node))
            return Opaque("%s(%s)" % (f.qual, ", ".join(key(a) for a in args)))
        b = self.bind_params(f, args, kwargs, c.selfv, st)
        if "<arity-error>" in b:
            st.events.append(("arity-error", f.qual, b["<arity-error>"].v, node))
        env = self.func_env(f, b, c.env)
        st2 = State(env, st.heap)
        st2.events = st.events
        self.stack.append(f)
        frames = self.__dict__.setdefault("_rec_frames", [])
        frames.append((f.qual, tuple(key(a) for a in args), tuple(sorted((k, key(v)) for k, v in kwargs.items()))))
        try:
            r = self.run_function(f, st2)
        finally:
            self.stack.pop()
            frames.pop()
        st.heap = st2.heap
        st.havoc |= st2.havoc
        return r

    def run_function(self, f, st):
        if f.is_lambda:
            return self.expr(f.node.body, st)
        for n in f.node.body:
            if isinstance(n, ast.Nonlocal):
                st.env.nonlocals |= set(n.names)
        gb = self._generator_body(f)
        r = self.block(gb or f.node.body, st, [])
        if r is None:
            return NONE
        if gb is not None and isinstance(r.value, Seq):
            # what a generator yields, as a fresh list marked as an iterator (next() may consume it)
            return Seq(r.value.kind, list(r.value.items), ident="A:gen@%s" % getattr(f.node, "lineno", 0))
        return r.value

    def _generator_body(self, f):
        """A generator function whose yields are plain statements is evaluated eagerly: `yield X` appends X to a hidden list,
        `yield from E` extends it, and the call's value is that list (the sequence a consumer would see; laziness and
        partially consumed generators are not modelled).  None for ordinary functions and for other uses of yield."""
        memo = self.__dict__.setdefault("_genbody", {})
        if f.qual in memo and memo[f.qual][0] is f.node:
            return memo[f.qual][1]
        import copy as _copy

        ys = [n for n in walk_local(f.node) if isinstance(n, (ast.Yield, ast.YieldFrom))]
        res = None
        if ys:
            stmt_level = {id(n.value) for n in walk_local(f.node) if isinstance(n, ast.Expr) and isinstance(n.value, (ast.Yield, ast.YieldFrom))}
            if all(id(y) in stmt_level for y in ys):
                ACC = "_yield_acc"
                body = acopy(f.node.body)

                class T(ast.NodeTransformer):
                    def visit_FunctionDef(self, node):
                        return node

                    def visit_Lambda(self, node):
                        return node

                    def visit_Expr(self, node):
                        v = node.value
                        if isinstance(v, ast.Yield):
                            val = v.value if v.value is not None else ast.Constant(value=None)
                            return ast.copy_location(ast.Expr(value=ast.Call(func=ast.Attribute(value=ast.Name(id=ACC, ctx=ast.Load()), attr="append", ctx=ast.Load()), args=[val], keywords=[])), node)
                        if isinstance(v, ast.YieldFrom):
                            return ast.copy_location(ast.Expr(value=ast.Call(func=ast.Attribute(value=ast.Name(id=ACC, ctx=ast.Load()), attr="extend", ctx=ast.Load()), args=[v.value], keywords=[])), node)
                        return node

                    def visit_Return(self, node):
                        return ast.copy_location(ast.Return(value=ast.Name(id=ACC, ctx=ast.Load())), node)

                body = [T().visit(b) for b in body]
                first = ast.Assign(targets=[ast.Name(id=ACC, ctx=ast.Store())], value=ast.List(elts=[], ctx=ast.Load()))
                last = ast.Return(value=ast.Name(id=ACC, ctx=ast.Load()))
                for x in (first, last):
                    ast.copy_location(x, f.node)
                res = [first] + body + [last]
                mod = ast.Module(body=res, type_ignores=[])
                ast.fix_missing_locations(mod)
                for n in ast.walk(mod):
                    for c in ast.iter_child_nodes(n):
                        c._parent = n
                for b in res:
                    b._parent = getattr(f.node.body[0], "_parent", None)
        memo[f.qual] = (f.node, res)
        return res

    def instantiate(self, cls, args, kwargs, st, node=None):
        self.fresh += 1
        name = "new:%s@%s#%d" % (cls.name, getattr(node, "lineno", "?"), self.fresh)
        obj = Opaque(name, cls=cls, kind="new")
        init = self.P.method(cls, "__init__")
        if init is not None:
            self.call_closure(Closure(init, None, selfv=obj), args, kwargs, st, node)
        elif any(getattr(k, "is_record", False) for k in self.P.mro(cls)):
            # generated constructor of a NamedTuple / dataclass: fields in declaration order, defaults from the class body
            fields = []
            defaults = {}
            for k in reversed(self.P.mro(cls)):
                for fn_ in k.fields:
                    if fn_ not in fields:
                        fields.append(fn_)
                defaults.update(k.field_defaults)
            given = dict(zip(fields, args))
            given.update({k_: v_ for k_, v_ in kwargs.items() if k_ in fields})
            for fn_ in fields:
                if fn_ in given:
                    st.heap[(name, fn_)] = given[fn_]
                elif fn_ in defaults:
                    st0 = State(Env({}, self.module_env(cls.module.name), cls.module.name, None))
                    st.heap[(name, fn_)] = self.expr(defaults[fn_], st0)
        st.events.append(("new", cls.qual, name, [key(a) for a in args], node))
        return obj

    def call_ext(self, name, args, kwargs, st, node):
        if name == "super" and not args:
            f = st.env.func
            e = st.env
            while f is not None and f.cls is None and f.parent is not None:
                f = f.parent
            if f is not None and f.cls is not None and f.params:
                sv = st.env.lookup(f.params[0])
                if sv is not None:
                    return SuperV(f.cls, sv)
        if any(isinstance(a, Phi) for a in args) and sum(_phi_size(a) for a in args) <= 32 and name.split(".")[-1] in (MATH_UNARY | PURE_BUILTINS):
            return self._dist(lambda xs: self.call_ext(name, xs, kwargs, st, node), list(args))
        short = name.split(".")[-1]
        if name in ("functools.partial", "partial") and args:
            return PartialV(args[0], list(args[1:]), dict(kwargs))
        if name == "next" and 1 <= len(args) <= 2 and not kwargs and isinstance(args[0], Seq) and (args[0].ident or "").startswith("A:gen"):
            # a generator evaluated eagerly into the list of what it yields, used as an iterator: next() takes the first
            if args[0].items:
                return args[0].items.pop(0)
            if len(args) == 2:
                return args[1]
            return Opaque("<StopIteration>", kind="raise")
        if name == "slice" and 1 <= len(args) <= 3 and not kwargs:
            a = [None if (isinstance(x, Const) and x.v is None) else x for x in args]
            if len(a) == 1:
                return SliceV(None, a[0], None)
            return SliceV(a[0], a[1], a[2] if len(a) > 2 else None)
        if name in ("string.Template",) and len(args) == 1 and isinstance(args[0], Const) and isinstance(args[0].v, str) and not kwargs:
            return StrTplV(args[0].v)
        if name.startswith("operator.") and not kwargs:
            # the operator module's functions are the operators
            _bin = {"add": ast.Add, "sub": ast.Sub, "mul": ast.Mult, "truediv": ast.Div, "floordiv": ast.FloorDiv, "mod": ast.Mod, "pow": ast.Pow}
            if short in _bin and len(args) == 2:
                return self.binop(_bin[short], args[0], args[1], node)
            if short == "neg" and len(args) == 1:
                return self.binop(ast.Sub, C(0), args[0], node)
            if short == "pos" and len(args) == 1:
                return args[0]
            if short in ("getitem",) and len(args) == 2:
                return self.getitem(args[0], args[1], st)
        nums = [as_num(a) for a in args]
        allnum = all(x is not None for x in nums) and not kwargs
        if name.startswith("math.") and short in MATH_UNARY and len(args) == 1 and allnum:
            x = nums[0]
            if x.is_const() and short in ("floor", "ceil", "trunc"):
                import math

                v = x.const_value()
                return C({"floor": math.floor, "ceil": math.ceil, "trunc": math.trunc}[short](v))
            return Num.atom((short, x.key()))
        if name == "math.log" and len(args) == 2 and allnum:
            return Num.atom(("log", nums[0].key())) / Num.atom(("log", nums[1].key()))
        if name in ("math.pow", "pow") and len(args) == 2 and allnum:
            return self.binop(ast.Pow, args[0], args[1])
        if name == "float" and len(args) == 1 and nums[0] is not None:
            return nums[0]
        if name == "int" and len(args) == 1 and nums[0] is not None and isinstance(args[0], (Num, Const, Opaque)) and not (isinstance(args[0], Const) and isinstance(args[0].v, str)):
            x = nums[0]
            if x.is_const():
                import math

                return C(math.trunc(x.const_value()))
            return Num.atom(("int", x.key()))
        if name == "int" and len(args) == 2:
            return Num.atom(("int", key(args[0]), key(args[1])))
        if name in ("round", "abs") and len(args) == 1 and nums[0] is not None:
            x = nums[0]
            if x.is_const():
                return C(round(x.const_value()) if name == "round" else abs(x.const_value()))
            return Num.atom((name, x.key()))
        if name in ("max", "min") and len(args) >= 2 and allnum:
            if len({x.key() for x in nums}) == 1:
                return nums[0]  # max(x, x) == x
            if all(x.is_const() for x in nums):
                return C((max if name == "max" else min)(x.const_value() for x in nums))
            return Num.atom((name,) + tuple(sorted(x.key() for x in nums)))
        if name in ("max", "min") and len(args) == 1:
            its = self.iter_items(args[0])
            if its and all(as_num(x) is not None for x in its) and len({as_num(x).key() for x in its}) == 1:
                return as_num(its[0])  # the extreme of equal values is that value
            return Num.atom((name + "-of", key(args[0])))
        if name == "len" and len(args) == 1:
            a = args[0]
            if isinstance(a, Seq):
                return C(len(a.items))
            if isinstance(a, Const) and isinstance(a.v, str):
                return C(len(a.v))
            if isinstance(a, StrSym):
                return C(a.length) if a.length is not None else Num.atom("len(%s)" % key(a))
            if isinstance(a, DictV) and a.fallback is None:
                return C(len(a.items))
            if isinstance(a, Cat):
                r = C(0)
                for p in a.parts:
                    r = r + (C(len(p.items)) if isinstance(p, Seq) else Num.atom("len(%s)" % key(p.it if isinstance(p, MapV) else p)))
                return r
            if isinstance(a, MapV) and not a.conds:
                return Num.atom("len(%s)" % key(a.it))
            return Num.atom("len(%s)" % key(a))
        if name == "str" and len(args) == 1:
            if isinstance(args[0], Const) and isinstance(args[0].v, str):
                return args[0]
            return Template([("hole", args[0], "str")])
        if name in ("list", "tuple") and len(args) == 1:
            a = args[0]
            items = self.iter_items(a)
            if items is not None:
                return Seq(name, items, ident="A:%s@%s" % (name, getattr(node, "lineno", 0)))
            if isinstance(a, MapV):
                return a
            return Opaque("%s(%s)" % (name, key(a)), cls=getattr(a, "cls", None), kind="copy")
        if name in ("list", "tuple") and not args:
            return Seq(name, [], ident="A:%s@%s" % (name, getattr(node, "lineno", 0)))
        if name == "dict":
            if not args:
                return DictV(dict(kwargs), ident="A:dict@%s" % getattr(node, "lineno", 0))
            if isinstance(args[0], DictV):
                d = DictV(args[0].items, args[0].fallback, ident="A:dict@%s" % getattr(node, "lineno", 0))
                d.items.update(kwargs)
                return d
            return Opaque("dict(%s)" % key(args[0]), kind="copy")
        if name == "enumerate" and args:
            start = 0
            if len(args) > 1 and num_const(args[1]) is not None:
                start = int(num_const(args[1]))
            if "start" in kwargs and num_const(kwargs["start"]) is not None:
                start = int(num_const(kwargs["start"]))
            return EnumV(args[0], start)
        if name == "zip":
            return ZipV(args)
        if name in ("itertools.pairwise", "pairwise") and len(args) == 1 and not kwargs:
            its = self.iter_items(args[0])
            if its is not None:
                return Seq("list", [Seq("tuple", [a, b]) for a, b in zip(its, its[1:])], ident="A:pairwise")
        if name == "range" and allnum and all(x.is_const() for x in nums) and 1 <= len(nums) <= 3:
            vals = [x.const_value() for x in nums]
            if all(v.denominator == 1 for v in vals):
                r = range(*[int(v) for v in vals])
                if len(r) <= 64:
                    return Seq("list", [C(i) for i in r], ident="A:range")
        if name == "range":
            return RangeV(args)
        if name == "map" and len(args) == 2:
            fnv, it = args
            items = self.iter_items(it)
            if items is not None:
                return Seq("list", [self.call(fnv, [x], {}, st, node) for x in items], ident="A:map")
            el = self.elem_of(it)
            body = self.call(fnv, [el], {}, st, node)
            return MapV(it, el, body, [])
        if name == "sorted" and args:
            st.events.append(("sorted", args[0], dict(kwargs), node))
            return Opaque("sorted(%s%s)" % (key(args[0]), ", key=%s" % key(kwargs["key"]) if "key" in kwargs else ""), cls=getattr(args[0], "cls", None), kind="copy")
        if name == "reversed" and args:
            a = args[0]
            if isinstance(a, Seq):
                return Seq(a.kind, list(reversed(a.items)), ident="A:reversed")
            return Opaque("reversed(%s)" % key(a), cls=getattr(a, "cls", None))
        if name == "isinstance" and len(args) == 2:
            a, k = args
            kn = k.name if isinstance(k, Ext) else None
            # constants and strings-with-holes have a known builtin type
            simple = {"str": str, "int": int, "float": float, "bool": bool, "bytes": bytes}
            if kn in simple:
                if isinstance(a, Const) and a.v is not None:
                    return Const(isinstance(a.v, simple[kn]))
                if isinstance(a, Const) and a.v is None:
                    return FALSE
                if isinstance(a, (Template, StrSym)):
                    return Const(kn == "str")
                if isinstance(a, (Seq, DictV, Closure, ClassRef)):
                    return FALSE
            if kn in ("dict", "list", "tuple"):
                if isinstance(a, DictV):
                    return Const(kn == "dict")
                if isinstance(a, Seq):
                    return Const(kn == a.kind)
                if isinstance(a, (Num, Closure, Template)) or (isinstance(a, Opaque) and a.kind in ("new", "obj")) or (isinstance(a, Const) and not isinstance(a.v, (dict, list, tuple))):
                    return FALSE
            return Cond(("isinstance", args[0], args[1]))
        if name == "callable" and len(args) == 1:
            if isinstance(args[0], (Closure, ClassRef, Ext)):
                return TRUE
            if isinstance(args[0], (Num, Const, Seq, DictV, Template)):
                return FALSE
            return Cond(("callable", args[0]))
        if name == "sum" and len(args) == 1 and isinstance(args[0], Seq):
            r = C(0)
            for x in args[0].items:
                nx = as_num(x)
                if nx is None:
                    return Opaque("sum(%s)" % key(args[0]))
                r = r + nx
            return r
        if name in ("all", "any") and len(args) == 1:
            return Cond((name, args[0]))
        if name == "next" and args:
            a = args[0]
            if isinstance(a, EnumV):
                items = self.iter_items(a)
                if items:
                    a.pos += 1
                    return items[0]
            return Opaque("next(%s)" % key(args[0]))
        if name == "bool" and len(args) == 1 and not kwargs:
            return self.truth(args[0])
        if name == "chr" and len(args) == 1:
            return Template([("hole", args[0], "chr")])
        if name == "ord" and len(args) == 1:
            return Num.atom("ord(%s)" % key(args[0]))
        if name == "getattr" and len(args) >= 2 and isinstance(args[1], Const):
            return self.getattr(args[0], args[1].v, st)
        if name == "setattr" and len(args) == 3 and isinstance(args[1], Const) and isinstance(args[1].v, str):
            self.setattr(args[0], args[1].v, args[2], st, node)
            return NONE
        if name == "setattr" and len(args) == 3 and isinstance(args[1], Phi):
            # the attribute name is one of finitely many constants
            names = [l for _, l in _phi_leaves(args[1])]
            if all(isinstance(l, Const) and isinstance(l.v, str) for l in names):
                for l in names:
                    old = self.getattr(args[0], l.v, st)
                    cnd = Cond(("cmp", "eq", args[1], l))
                    self.setattr(args[0], l.v, mkphi(cnd, args[2], old), st, node)
                return NONE
        if name in ("copy.copy",) and len(args) == 1 and isinstance(args[0], Opaque) and args[0].cls is not None and args[0].kind in ("new", "obj"):
            # a shallow copy of an instance: a new object of the same class whose attributes are the same objects
            src = args[0]
            self.fresh += 1
            nm = "new:%s@%s#%d" % (src.cls.name, getattr(node, "lineno", "?"), self.fresh)
            dup = Opaque(nm, cls=src.cls, kind="new")
            for (o, a), v in list(dict.items(st.heap)):
                if o == src.text:
                    st.heap[(nm, a)] = v
            st.events.append(("new", src.cls.qual, nm, [key(src)], node))
            return dup
        if name == "copy.deepcopy" and len(args) == 1:
            return args[0] if isinstance(args[0], (Num, Const)) else Opaque("deepcopy(%s)" % key(args[0]), cls=getattr(args[0], "cls", None), kind="deepcopy")
        if name in ("datetime.datetime", "datetime.time") and not kwargs:
            # trailing zero time fields are the defaults: datetime(y, m, d, 0, 0, 0, 0) == datetime(y, m, d)
            keep = 3 if name == "datetime.datetime" else 0
            while len(args) > keep and num_const(args[-1]) == 0:
                args = args[:-1]
        txt = "%s(%s)" % (name, ", ".join([key(a) for a in args] + ["%s=%s" % (k, key(v)) for k, v in sorted(kwargs.items())]))
        st.events.append(("call-ext", name, [key(a) for a in args], node))
        if allnum and args and short in ("floor", "ceil"):
            return Num.atom((short, nums[0].key()))
        if name in FRESH_CTORS:
            return Opaque(txt, kind="fresh")
        return Opaque(txt)

    def call_bound(self, b, args, kwargs, st, node):
        recv, name = b.recv, b.name
        if isinstance(recv, StrTplV) and name in ("substitute", "safe_substitute"):
            import re as _re

            mp = {}
            if args and isinstance(args[0], DictV):
                mp.update(args[0].items)
            mp.update(kwargs)
            parts = []
            pos = 0
            for m in _re.finditer(r"\$(?:(\$)|([_a-zA-Z][_a-zA-Z0-9]*)|\{([_a-zA-Z][_a-zA-Z0-9]*)\})", recv.text):
                if m.start() > pos:
                    parts.append(("lit", recv.text[pos:m.start()]))
                pos = m.end()
                if m.group(1):
                    parts.append(("lit", "$"))
                    continue
                nm = m.group(2) or m.group(3)
                if nm in mp:
                    v = mp[nm]
                    if not (isinstance(v, (Const, Template, StrSym)) or (isinstance(v, Opaque) and v.kind == "str")):
                        v = self.call_ext("str", [v], {}, st, node)  # substitute() inserts str(value)
                    parts.append(("hole", v, "str"))
                elif name == "safe_substitute":
                    parts.append(("lit", m.group(0)))
                else:
                    parts.append(("hole", Opaque("<KeyError %s>" % nm), "str"))
            if pos < len(recv.text):
                parts.append(("lit", recv.text[pos:]))
            return self._mk_template(parts)
        if isinstance(recv, Opaque):
            st.events.append(("seq-" + name, recv.text, list(args), dict(kwargs), node))
            if name in ("sort", "reverse", "append", "extend", "insert", "remove"):
                return NONE
            if name == "copy":
                return Opaque("%s.copy()" % recv.text, cls=recv.cls, kind="copy")
            return Opaque("%s.%s(%s)" % (recv.text, name, ", ".join(key(a) for a in args)), cls=recv.cls)
        if isinstance(recv, (Seq, DictV)) and name in ("append", "extend", "insert", "pop", "remove", "clear", "update", "setdefault", "sort", "reverse", "popitem", "add"):
            st.events.append(("mutate", recv.ident or "", name, recv, node))
        if isinstance(recv, OverrideV):
            st.events.append(("call-maybe", recv, name, list(args), node))
            return Opaque("%s.%s(%s)" % (key(recv), name, ", ".join(key(a) for a in args)))
        if isinstance(recv, Seq):
            if name == "append" and len(args) == 1:
                recv.items.append(args[0])
                return NONE
            if name == "extend" and len(args) == 1 and isinstance(args[0], Seq):
                recv.items.extend(args[0].items)
                return NONE
            if name == "insert" and len(args) == 2 and num_const(args[0]) is not None:
                recv.items.insert(int(num_const(args[0])), args[1])
                return NONE
            if name == "pop":
                if not args and recv.items:
                    return recv.items.pop()
                if args and num_const(args[0]) is not None and recv.items:
                    return recv.items.pop(int(num_const(args[0])))
            if name == "copy":
                return Seq(recv.kind, recv.items, ident="A:copy")
            if name in ("sort", "reverse"):
                st.events.append(("seq-" + name, recv.ident or key(recv), list(args), dict(kwargs), node))
                if name == "reverse" and not args and not kwargs:
                    recv.items.reverse()  # a list of known items is reversed in place
                return NONE
            if name == "index" or name == "count":
                return Num.atom("%s.%s(%s)" % (key(recv), name, ", ".join(key(a) for a in args)))
        if isinstance(recv, DictV):
            if name == "items":
                return DictItems(recv)
            if name == "keys":
                return Seq("list", [Const(k) for k in recv.items]) if recv.fallback is None else Opaque("%s.keys()" % key(recv))
            if name == "values":
                return Seq("list", list(recv.items.values())) if recv.fallback is None else Opaque("%s.values()" % key(recv))
            if name == "copy":
                return DictV(recv.items, recv.fallback, ident="A:dictcopy")
            if name == "get" and args and isinstance(args[0], Const):
                if args[0].v in recv.items:
                    return recv.items[args[0].v]
                if recv.fallback is None:
                    return args[1] if len(args) > 1 else NONE
                dflt = args[1] if len(args) > 1 else NONE
                return Opaque("%s.get(%r, %s)" % (recv.fallback, args[0].v, key(dflt)))
            if name == "update" and len(args) == 1:
                o = args[0]
                if isinstance(o, DictV):
                    recv.items.update(o.items)
                    if o.fallback is not None:
                        # unknown further keys may override: values become Phi-ish unknowns
                        for k in list(recv.items):
                            if k not in o.items:
                                recv.items[k] = Opaque("upd(%s[%r] | %s)" % (o.fallback, k, key(recv.items[k])))
                        recv.fallback = recv.fallback or o.fallback
                    return NONE
                if isinstance(o, Opaque):
                    for k in list(recv.items):
                        recv.items[k] = OverrideV(o, k, recv.items[k])
                    recv.fallback = recv.fallback or o.text
                    st.events.append(("dict-update", recv.ident, o.text, node))
                    return NONE
                if isinstance(o, Const) and o.v is None:
                    return Opaque("<TypeError: update(None)>", kind="typeerror")
            if name == "setdefault" and len(args) == 2 and isinstance(args[0], Const):
                return recv.items.setdefault(args[0].v, args[1])
        if isinstance(recv, Const) and isinstance(recv.v, str):
            s = recv.v
            if name == "join" and len(args) == 1:
                items = self.iter_items(args[0])
                if items is not None and s == "" and items and all(isinstance(x, StrSym) for x in items) and len({x.upper for x in items}) == 1:
                    chars = []
                    for x in items:
                        chars.extend(x.chars)
                    return StrSym(chars, items[0].upper)
                if items is not None:
                    parts = []
                    for i, it in enumerate(items):
                        if i:
                            parts.append(("lit", s))
                        t = self.as_template(it)
                        if t is None:
                            if isinstance(it, StrSym):
                                t = [("hole", it, "raw")]
                            else:
                                return Opaque("%r.join(%s)" % (s, key(args[0])))
                        parts.extend(t)
                    return self._mk_template(parts) if parts else Const("")
                if isinstance(args[0], MapV):
                    return Template([("hole", JoinV(s, args[0]), "raw")])
                return Opaque("%r.join(%s)" % (s, key(args[0])))
            if name == "format":
                return self.str_format(s, args, kwargs)
            if name in ("upper", "lower", "strip", "lstrip", "rstrip") and not args:
                return Const(getattr(s, name)())
            if name == "startswith" and len(args) == 1 and isinstance(args[0], Const):
                return Const(s.startswith(args[0].v))
            # any other side-effect-free str method on a constant string with constant arguments is computed
            if name in ("endswith", "startswith", "removeprefix", "removesuffix", "replace", "split", "rsplit", "partition", "rpartition", "find", "rfind", "index", "count", "title", "capitalize",
                        "isdigit", "isalpha", "isalnum", "isupper", "islower", "isnumeric", "isidentifier", "isspace", "zfill", "ljust", "rjust", "center", "strip", "lstrip", "rstrip", "casefold", "swapcase", "splitlines", "encode") \
                    and not kwargs and all(isinstance(a, Const) or (num_const(a) is not None and num_const(a).denominator == 1) or (isinstance(a, Seq) and a.kind == "tuple" and all(isinstance(x, Const) for x in a.items)) for a in args):
                def pyv(a):
                    if isinstance(a, Const):
                        return a.v
                    if isinstance(a, Seq):
                        return tuple(x.v for x in a.items)
                    return int(num_const(a))

                try:
                    r = getattr(s, name)(*[pyv(a) for a in args])
                except Exception:
                    r = None
                else:
                    def wrap(x):
                        if isinstance(x, bool) or isinstance(x, str) or x is None or isinstance(x, bytes):
                            return Const(x)
                        if isinstance(x, int):
                            return C(x)
                        if isinstance(x, (list, tuple)):
                            return Seq("list" if isinstance(x, list) else "tuple", [wrap(y) for y in x])
                        return None

                    w = wrap(r)
                    if w is not None:
                        return w
        if isinstance(recv, StrSym):
            r = recv.method(name, args)
            if r is not None:
                return r
        if isinstance(recv, Template) and name in ("upper", "lower"):
            return Template([("hole", recv, name)])
        if isinstance(recv, Template) and name == "startswith" and len(args) == 1 and isinstance(args[0], Const) and isinstance(args[0].v, str):
            p0 = recv.parts[0] if recv.parts else None
            if p0 is not None and p0[0] == "lit" and len(p0[1]) >= len(args[0].v):
                return Const(p0[1].startswith(args[0].v))
            if p0 is not None and p0[0] == "lit" and not args[0].v.startswith(p0[1]):
                return FALSE
        if isinstance(recv, Template) and name == "split" and len(args) == 1 and isinstance(args[0], Const) and isinstance(args[0].v, str) and args[0].v:
            sep = args[0].v
            toks = [[]]
            for p_ in recv.parts:
                if p_[0] == "lit":
                    pieces = p_[1].split(sep)
                    for i_, piece in enumerate(pieces):
                        if i_ > 0:
                            toks.append([])
                        if piece:
                            toks[-1].append(("lit", piece))
                else:
                    toks[-1].append(p_)
            out = []
            for t_ in toks:
                out.append(self._mk_template(t_) if t_ else Const(""))
            return Seq("list", out, ident="A:split")
        txt = "%s.%s(%s)" % (key(recv), name, ", ".join(key(a) for a in args))
        st.events.append(("call-bound", key(recv), name, [key(a) for a in args], node))
        return Opaque(txt)

    def str_format(self, s, args, kwargs):
        import string

        parts = []
        auto = 0
        try:
            for lit, field, spec, conv in string.Formatter().parse(s):
                if lit:
                    parts.append(("lit", lit))
                if field is None:
                    continue
                if field == "":
                    v = args[auto] if auto < len(args) else Opaque("<missing format argument>")
                    auto += 1
                elif field.isdigit():
                    v = args[int(field)] if int(field) < len(args) else Opaque("<missing format argument>")
                else:
                    v = kwargs.get(field, Opaque("<missing format argument %s>" % field))
                parts.append(("hole", v, "f:" + (spec or "") + ("!" + conv if conv else "")))
        except ValueError:
            return Opaque("<bad format %r>" % s)
        return self._mk_template(parts)

    # -- statements ----------------------------------------------------------
    def bind(self, target, v, st):
        if isinstance(target, ast.Name):
            st.env.assign(target.id, v)
        elif isinstance(target, (ast.Tuple, ast.List)) and sum(isinstance(t, ast.Starred) for t in target.elts) == 1:
            # a, *rest, z = seq
            k = next(i for i, t in enumerate(target.elts) if isinstance(t, ast.Starred))
            before, after = target.elts[:k], target.elts[k + 1:]
            if isinstance(v, Seq) and len(v.items) >= len(before) + len(after):
                for t, x in zip(before, v.items):
                    self.bind(t, x, st)
                mid = v.items[len(before): len(v.items) - len(after)]
                self.bind(target.elts[k].value, Seq("list", list(mid)), st)
                for t, x in zip(after, v.items[len(v.items) - len(after):]):
                    self.bind(t, x, st)
            elif isinstance(v, Seq):
                st.events.append(("unpack-arity", len(before) + len(after), len(v.items), target))
                for t in before + after:
                    self.bind(t, Opaque("<unpack-error>"), st)
                self.bind(target.elts[k].value, Opaque("<unpack-error>"), st)
            else:
                for i, t in enumerate(before):
                    self.bind(t, self.getitem(v, C(i), st) if isinstance(v, Opaque) else Opaque("%s[%d]" % (key(v), i)), st)
                for i, t in enumerate(after):
                    self.bind(t, Opaque("%s[%d]" % (key(v), i - len(after))), st)
                self.bind(target.elts[k].value, Opaque("%s[%d:%s]" % (key(v), len(before), -len(after) if after else "")), st)
        elif isinstance(target, (ast.Tuple, ast.List)):
            n = len(target.elts)
            if isinstance(v, StrSym) or (isinstance(v, Const) and isinstance(v.v, str)):
                # unpacking a string gives its characters
                chars = [StrSym([c_], v.upper) for c_ in v.chars] if isinstance(v, StrSym) else [Const(c_) for c_ in v.v]
                v = Seq("tuple", chars)
            if isinstance(v, Seq) and len(v.items) == n:
                for t, x in zip(target.elts, v.items):
                    self.bind(t, x, st)
            elif isinstance(v, Seq):
                st.events.append(("unpack-arity", n, len(v.items), target))
                for t in target.elts:
                    self.bind(t, Opaque("<unpack-error>"), st)
            elif isinstance(v, Phi):
                for i, t in enumerate(target.elts):
                    self.bind(t, mkphi(v.cond, self.getitem(v.a, C(i), st), self.getitem(v.b, C(i), st)), st)
            else:
                for i, t in enumerate(target.elts):
                    self.bind(t, self.getitem(v, C(i), st) if isinstance(v, Opaque) else Opaque("%s[%d]" % (key(v), i)), st)
        elif isinstance(target, ast.Attribute):
            base = self.expr(target.value, st)
            self.setattr(base, target.attr, v, st, target)
        elif isinstance(target, ast.Subscript):
            base = self.expr(target.value, st)
            idx = self.expr(target.slice, st) if not isinstance(target.slice, ast.Slice) else Opaque("<slice>")
            self.setitem(base, idx, v, st, target)
        elif isinstance(target, ast.Starred):
            self.bind(target.value, v, st)

    def setattr(self, base, attr, v, st, node=None):
        if isinstance(base, Opaque):
            st.heap = _heapcopy(st.heap)
            st.heap[(base.text, attr)] = v
            st.events.append(("setattr", base.text, attr, v, node))
        elif isinstance(base, Phi):
            st.events.append(("setattr", key(base), attr, v, node))
        else:
            st.events.append(("setattr", key(base), attr, v, node))

    def setitem(self, base, idx, v, st, node=None):
        if isinstance(base, Phi):
            self.setitem(base.a, idx, v, st, node)
            self.setitem(base.b, idx, v, st, node)
            return
        ic = num_const(idx)
        if isinstance(base, Seq) and ic is not None and -len(base.items) <= int(ic) < len(base.items):
            base.items[int(ic)] = v
            st.events.append(("setitem", base.ident or key(base), key(idx), v, node))
            return
        if isinstance(base, DictV) and (isinstance(idx, Const) or ic is not None):
            kk = idx.v if isinstance(idx, Const) else (int(ic) if ic.denominator == 1 else float(ic))
            base.items[kk] = v
            st.events.append(("setitem", base.ident or key(base), repr(kk), v, node))
            if (base.ident or "").startswith("G:"):
                st.events.append(("mutate", base.ident, "__setitem__", base, node))
            return
        if isinstance(base, OverrideV):
            st.events.append(("setitem-maybe", base, key(idx), v, node))
            return
        if isinstance(base, Opaque):
            st.heap = _heapcopy(st.heap)
            st.heap[(base.text, "[%s]" % key(idx))] = v
        st.events.append(("setitem", key(base) if not isinstance(base, (Seq, DictV)) else (base.ident or key(base)), key(idx), v, node))

    def block(self, stmts, st, cont):
        """Execute stmts then the continuation stack `cont` (list of stmt lists) to the
        end of the function.  Returns Ret or None."""
        for i, s in enumerate(stmts):
            if isinstance(s, ast.Try):
                # rewritten in place (see try_rewrite) so that exits inside it meet the right continuation
                return self.block(self.try_rewrite(s, st) + list(stmts[i + 1:]), st, cont)
            if isinstance(s, ast.Match):
                from .normalise import desugar_match

                alt = desugar_match(s)
                if alt is not None:
                    return self.block(list(alt) + list(stmts[i + 1:]), st, cont)
            if isinstance(s, ast.If):
                c = self.cond(s.test, st)
                rest = list(stmts[i + 1:])
                if isinstance(c, Const):
                    return self.block((s.body if c.v else s.orelse) + rest, st, cont)
                if not _has_exit(s):
                    s1, s2 = st.fork(), st.fork()
                    self.on_branch(s, c, True, s1)
                    self.on_branch(s, c, False, s2)
                    with self.assuming(c, True):
                        self.block(list(s.body), s1, [])
                    with self.assuming(c, False):
                        self.block(list(s.orelse), s2, [])
                    self.merge(st, c, s1, s2)
                    continue
                s1, s2 = st.fork(), st.fork()
                self.on_branch(s, c, True, s1)
                self.on_branch(s, c, False, s2)
                with self.assuming(c, True):
                    r1 = self.block(list(s.body) + rest, s1, cont)
                with self.assuming(c, False):
                    r2 = self.block(list(s.orelse) + rest, s2, cont)
                self.merge(st, c, s1, s2)
                if r1 is None and r2 is None:
                    return None
                a = r1.value if r1 is not None else NONE
                b = r2.value if r2 is not None else NONE
                return Ret(mkphi(c, a, b))
            r = self.stmt(s, st)
            if r is not None:
                return r
        if cont:
            return self.block(cont[0], st, cont[1:])
        return None

    def on_branch(self, s, c, taken, st):
        st.events.append(("branch", c, taken, s))
        t = c.tree if isinstance(c, Cond) else None
        if t is not None and t[0] == "cmp" and t[1] in ("is", "isnot"):
            x, y = t[2], t[3]
            same_branch = taken if t[1] == "is" else not taken
            for a, b in ((x, y), (y, x)):
                if isinstance(a, OverrideV) and (a.old is b or key(a.old) == key(b)):
                    # in the branch where `a is not <default>` the value is the caller's; where it is, the default
                    new = a.old if same_branch else Opaque("%s[%r]" % (key(a.o), a.k), kind="obj")
                    self._replace_value(st, a, new)

    def _replace_value(self, st, old, new):
        seen = set()

        def walk(v):
            if id(v) in seen:
                return
            seen.add(id(v))
            if isinstance(v, DictV):
                for k_, x in list(v.items.items()):
                    if x is old or (isinstance(x, OverrideV) and isinstance(old, OverrideV) and x.k == old.k and key(x) == key(old)):
                        v.items[k_] = new
                    else:
                        walk(x)
            elif isinstance(v, Seq):
                for i, x in enumerate(v.items):
                    if x is old:
                        v.items[i] = new
                    else:
                        walk(x)

        e = st.env
        while e is not None:
            for k_, x in list(e.vars.items()):
                if x is old:
                    e.vars[k_] = new
                else:
                    walk(x)
            e = e.parent
        for k_, x in list(dict.items(st.heap)):
            if x is old:
                st.heap[k_] = new
            else:
                walk(x)

    def merge(self, st, c, s1, s2):
        # env (only the innermost frame and its parents that were forked)
        e, e1, e2 = st.env, s1.env, s2.env
        while e is not None and e1 is not None and e2 is not None:
            for k in set(e1.vars) | set(e2.vars):
                a, b = e1.vars.get(k), e2.vars.get(k)
                if a is None or b is None:
                    e.vars[k] = mkphi(c, a if a is not None else Opaque("<unbound %s>" % k, kind="unbound"), b if b is not None else Opaque("<unbound %s>" % k, kind="unbound"))
                else:
                    e.vars[k] = mkphi(c, a, b)
            e, e1, e2 = e.parent, e1.parent, e2.parent
        heap = {}
        for k in set(s1.heap) | set(s2.heap):
            a, b = s1.heap.get(k), s2.heap.get(k)
            if a is None:
                a = Opaque("%s.%s" % k)
            if b is None:
                b = Opaque("%s.%s" % k)
            heap[k] = mkphi(c, a, b)
        st.heap = LazyHeap(st.heap.ev, heap) if isinstance(st.heap, LazyHeap) else heap
        n0 = len(st.events)
        st.events.extend([("in-branch", c, True, ev) for ev in s1.events[n0:]] + [("in-branch", c, False, ev) for ev in s2.events[n0:]])
        st.havoc = s1.havoc | s2.havoc

    def stmt(self, s, st):
        if isinstance(s, ast.Return):
            return Ret(self.expr(s.value, st) if s.value is not None else NONE)
        if isinstance(s, ast.Assign):
            v = self.expr(s.value, st)
            for t in s.targets:
                self.bind(t, v, st)
            return None
        if isinstance(s, ast.AnnAssign):
            if s.value is not None:
                self.bind(s.target, self.expr(s.value, st), st)
            return None
        if isinstance(s, ast.AugAssign):
            cur = self.expr(_as_load(s.target), st)
            v = self.binop(type(s.op), cur, self.expr(s.value, st), s)
            self.bind(s.target, v, st)
            return None
        if isinstance(s, ast.Expr):
            self.expr(s.value, st)
            return None
        if isinstance(s, (ast.FunctionDef, ast.AsyncFunctionDef)):
            f = self.P.func_of_node.get(s)
            st.env.assign(s.name, Closure(f, st.env) if f is not None else Opaque(s.name))
            return None
        if isinstance(s, ast.Assert):
            if self.on_assert is not None:
                c = self.cond(s.test, st)
                self.on_assert(s, c, st)
            return None
        if isinstance(s, (ast.Pass, ast.Global, ast.Import, ast.ImportFrom, ast.Delete)):
            return None
        if isinstance(s, ast.Nonlocal):
            st.env.nonlocals |= set(s.names)
            return None
        if isinstance(s, ast.Raise):
            st.events.append(("raise", ntext(s), s))
            return Ret(Opaque("<raise %s>" % ntext(s), kind="raise"))
        if isinstance(s, (ast.For, ast.AsyncFor)):
            return self.for_loop(s, st)
        if isinstance(s, ast.While):
            return self.while_loop(s, st)
        if isinstance(s, ast.With):
            for it in s.items:
                v = self.expr(it.context_expr, st)
                if it.optional_vars is not None:
                    self.bind(it.optional_vars, Opaque("with(%s)" % key(v)), st)
            r = self.block(s.body, st, [])
            return r
        if isinstance(s, ast.Try):
            return self.try_stmt(s, st)
        if isinstance(s, ast.Continue):
            return Ret(CONTINUE)
        if isinstance(s, ast.Break):
            return Ret(BREAK)
        st.events.append(("stmt-unknown", ntext(s), s))
        return None

    def try_stmt(self, s, st):
        return self.block(self.try_rewrite(s, st), st, [])

    def try_rewrite(self, s, st):
        """try/except as a statement list: exceptions are not modelled in general (the body is evaluated, then else/finally).
        One idiom is: a body whose only raising construct of interest is a single table look-up `D[k]` under a handler for
        KeyError is evaluated as `if k in D: <body; else-part> else: <handler>` (that is what the statement does)."""
        lookups = []
        for stn in s.body:
            for nd in ast.walk(stn):
                if isinstance(nd, FUNC_NODES):
                    continue
                if isinstance(nd, ast.Subscript) and isinstance(nd.ctx, ast.Load) and not isinstance(nd.slice, (ast.Slice, ast.Constant)):
                    lookups.append(nd)
        handler = None
        for h in s.handlers:
            names = ["BaseException"] if h.type is None else ([ntext(x) for x in h.type.elts] if isinstance(h.type, ast.Tuple) else [ntext(h.type)])
            if any(nm in ("KeyError", "LookupError", "Exception", "BaseException") for nm in names):
                handler = h
                break
        ihandler = None
        for h in s.handlers:
            names = ["BaseException"] if h.type is None else ([ntext(x) for x in h.type.elts] if isinstance(h.type, ast.Tuple) else [ntext(h.type)])
            if any(nm in ("IndexError", "LookupError", "Exception", "BaseException") for nm in names):
                ihandler = h
                break
        if ihandler is not None and len(lookups) == 1:
            base = self.expr(lookups[0].value, st)
            if isinstance(base, Seq):
                # a sequence look-up under a handler for IndexError: `if -len(L) <= i < len(L): <body; else-part> else: <handler>`
                import copy as _copy

                ln = ast.Constant(value=len(base.items))
                test = ast.Compare(left=ast.Constant(value=-len(base.items)), ops=[ast.LtE(), ast.Lt()], comparators=[acopy(lookups[0].slice), ln])
                synth = ast.If(test=test, body=list(s.body) + list(s.orelse), orelse=list(ihandler.body))
                ast.copy_location(synth, s)
                ast.fix_missing_locations(synth)
                synth._parent = getattr(s, "_parent", None)
                return [synth] + list(s.finalbody)
        if handler is not None and len(lookups) == 1:
            base = self.expr(lookups[0].value, st)
            dictlike = isinstance(base, DictV) or (isinstance(base, Opaque) and base.kind in ("obj", "dict"))
            if dictlike:
                import copy as _copy

                test = ast.Compare(left=acopy(lookups[0].slice), ops=[ast.In()], comparators=[acopy(lookups[0].value)])
                synth = ast.If(test=test, body=list(s.body) + list(s.orelse), orelse=list(handler.body))
                ast.copy_location(synth, s)
                ast.fix_missing_locations(synth)
                synth._parent = getattr(s, "_parent", None)
                return [synth] + list(s.finalbody)
        return list(s.body) + list(s.orelse) + list(s.finalbody)

    # loops --------------------------------------------------------------------
    def assigned_in(self, stmts):
        names = set()
        for s in stmts:
            for n in ast.walk(s):
                if isinstance(n, FUNC_NODES):
                    continue
                if isinstance(n, ast.Name) and isinstance(n.ctx, ast.Store):
                    names.add(n.id)
                # containers mutated in place inside the loop are loop-carried too
                if isinstance(n, ast.Call) and isinstance(n.func, ast.Attribute) and isinstance(n.func.value, ast.Name) and n.func.attr in ("append", "extend", "insert", "pop", "remove", "sort", "reverse", "clear", "update", "setdefault", "add"):
                    names.add(n.func.value.id)
                if isinstance(n, (ast.Subscript,)) and isinstance(n.ctx, (ast.Store, ast.Del)) and isinstance(n.value, ast.Name):
                    names.add(n.value.id)
        return names

    def for_loop(self, s, st):
        it = self.expr(s.iter, st)
        if self.on_loop is not None and self.on_loop(s, it, st):
            return None
        items = self.iter_items(it)
        if items is not None and len(items) <= 64:
            broke = None  # condition under which an earlier pass left the loop through `break`
            for x in items:
                if broke is None:
                    self.bind(s.target, x, st)
                    r = self.block(s.body, st, [])
                else:
                    # the pass runs only if no earlier pass broke out: evaluate it on a fork and gate the merge
                    s_skip, s_run = st.fork(), st.fork()
                    with self.assuming(broke, False):
                        self.bind(s.target, x, s_run)
                        r = self.block(s.body, s_run, [])
                    self.merge(st, broke, s_skip, s_run)
                if r is not None:
                    if r.value is CONTINUE:
                        continue
                    if r.value is BREAK:
                        if broke is None:
                            break
                        continue  # every path has left the loop by now
                    if _only_loop_exits(r.value):
                        # some paths continue, none returns: state already merged
                        if _has_break(r.value):
                            st.events.append(("break-maybe", s))
                            bc = self._break_cond(r.value)
                            if isinstance(bc, Const):
                                if bc.v and broke is None:
                                    break
                            else:
                                broke = bc if broke is None else self._bool_join(False, [broke, bc])
                        continue
                    return r
            return None
        m = self._as_map_loop(s, st)
        if m is not None:
            return None
        return self.generic_loop(s, st, it)

    def _as_map_loop(self, s, st):
        """`acc = []; for v in it: acc.append(E)` (optionally `if C: acc.append(E)`) over a sequence of unknown length is the
        list comprehension `[E for v in it if C]`: evaluated as that comprehension, so that loop and comprehension spellings
        of one computation get one value.  Only when the accumulator is a local that holds a fresh empty list, the body is
        exactly that one statement, and E / C do not mention the accumulator."""
        if s.orelse or len(s.body) != 1:
            return None
        b = s.body[0]
        conds = []
        if isinstance(b, ast.If) and not b.orelse and len(b.body) == 1:
            conds = [b.test]
            b = b.body[0]
        if not (isinstance(b, ast.Expr) and isinstance(b.value, ast.Call) and isinstance(b.value.func, ast.Attribute) and b.value.func.attr == "append"
                and isinstance(b.value.func.value, ast.Name) and len(b.value.args) == 1 and not b.value.keywords):
            return None
        acc = b.value.func.value.id
        cur = st.env.vars.get(acc)
        if not (isinstance(cur, Seq) and cur.kind == "list" and not cur.items):
            return None
        elt = b.value.args[0]
        for e in [elt] + conds:
            for n in ast.walk(e):
                if isinstance(n, ast.Name) and n.id == acc:
                    return None
                if isinstance(n, (ast.Yield, ast.YieldFrom, ast.Await, ast.NamedExpr)):
                    return None
        tnames = {n.id for n in ast.walk(s.target) if isinstance(n, ast.Name)}
        if acc in tnames:
            return None
        comp = ast.ListComp(elt=elt, generators=[ast.comprehension(target=s.target, iter=s.iter, ifs=list(conds), is_async=0)])
        ast.copy_location(comp, s)
        ast.fix_missing_locations(comp)
        comp._parent = getattr(s, "_parent", None)
        v = self._comp(comp, st, "list")
        if not isinstance(v, (MapV, Seq)):
            return None
        st.env.assign(acc, v)
        return v

    def _break_cond(self, v):
        """Condition under which the value of a loop body's exit is BREAK."""
        if v is BREAK:
            return TRUE
        if isinstance(v, Phi):
            a, b = self._break_cond(v.a), self._break_cond(v.b)
            ta = self._bool_join(True, [v.cond, a])
            tb = self._bool_join(True, [cnot(v.cond), b])
            return self._bool_join(False, [ta, tb])
        return FALSE

    def generic_loop(self, s, st, it):
        el = self.elem_of(it) if it is not None else None
        assigned = self.assigned_in(s.body)
        pre = {k: st.env.lookup(k) for k in assigned}
        s2 = st.fork()
        if el is not None:
            self.bind(s.target, el, s2)
        line = getattr(s, "lineno", 0)
        # loop-carried variables are unknown inside the body, except recognised accumulators
        accs = self.accumulators(s.body, assigned)
        for k in assigned:
            if k in accs:
                continue
            if pre[k] is not None:
                s2.env.assign(k, Opaque("%s@loop%d" % (k, line), cls=getattr(pre[k], "cls", None), kind="seq" if _seqlike(pre[k]) else None))
        for k in accs:
            s2.env.assign(k, Num.atom("acc:%s@loop%d" % (k, line)))
        n0 = len(s2.events)
        self.block(s.body, s2, [])
        body_events = s2.events[n0:]
        st.events.append(("loop", it, el, body_events, s, s2))
        # after the loop
        for k in assigned:
            if k in accs and pre[k] is not None and it is not None:
                inc = as_num(s2.env.lookup(k))
                base = as_num(pre[k])
                if inc is not None and base is not None:
                    delta = inc - Num.atom("acc:%s@loop%d" % (k, line))
                    st.env.assign(k, base + self.sum_over(delta, it, el))
                    continue
            st.env.assign(k, Opaque("%s@after-loop%d" % (k, line), cls=getattr(pre.get(k), "cls", None), kind="seq" if _seqlike(pre.get(k)) else None))
        if el is not None:
            for t in ast.walk(s.target):
                if isinstance(t, ast.Name):
                    st.env.assign(t.id, Opaque("%s@after-loop%d" % (t.id, line)))
        # heap: cells written in the body on non-element objects are havoc'd
        for k, v in s2.heap.items():
            old = st.heap.get(k)
            if old is not v and (old is None or key(old) != key(v)):
                st.heap = _heapcopy(st.heap)
                if el is not None and isinstance(el, Opaque) and k[0].startswith(el.text):
                    st.heap[k] = v
                else:
                    st.heap[k] = Opaque("%s.%s@after-loop%d" % (k[0], k[1], line))
        return None

    def accumulators(self, body, assigned):
        accs = set()
        for k in assigned:
            ok = True
            seen = False
            for s in body:
                for n in ast.walk(s):
                    if isinstance(n, ast.Name) and n.id == k and isinstance(n.ctx, ast.Store):
                        par = getattr(n, "_parent", None)
                        if isinstance(par, ast.AugAssign) and par.target is n and isinstance(par.op, (ast.Add, ast.Sub)) and par in body:
                            seen = True
                        else:
                            ok = False
            if ok and seen:
                accs.add(k)
        return accs

    def sum_over(self, delta, it, el):
        """Sum of per-iteration increment `delta` over the iteration of `it`."""
        n_it = Num.atom("len(%s)" % key(it))
        eltext = el.text if isinstance(el, Opaque) else None
        if not delta.is_poly():
            return Num.atom(("sum", key(it), delta.key()))
        res = C(0)
        dv = delta.d.const_value()
        for m, c in delta.n.t.items():
            dep = eltext is not None and any((isinstance(a, str) and eltext in a) or (isinstance(a, tuple) and eltext in repr(a)) for a, _ in m)
            mono = Num(Poly({m: Fraction(1)}))
            if dep:
                res = res + Num.atom(("sum", key(it), mono.key())) * C(c / dv)
            else:
                res = res + mono * C(c / dv) * n_it
        return res

    def while_loop(self, s, st):
        class _T:
            pass

        if getattr(self, "unroll_while", False) and not s.orelse:
            # instance evaluation (opt-in): a loop whose test folds to a constant on every pass is simply run (bounded)
            bk = st.fork()
            ok = True
            result = None
            for _ in range(64):
                c = self.cond(s.test, st)
                if not isinstance(c, Const):
                    ok = False
                    break
                if not c.v:
                    break
                r = self.block(s.body, st, [])
                if r is not None:
                    if r.value is CONTINUE:
                        continue
                    if r.value is BREAK:
                        break
                    if _only_loop_exits(r.value):
                        ok = False
                        break
                    result = r
                    break
            else:
                ok = False
            if ok:
                return result
            st.env, st.heap, st.events, st.havoc = bk.env, bk.heap, bk.events, bk.havoc

        fake = ast.For(target=ast.Name(id="_", ctx=ast.Store()), iter=s.test, body=s.body, orelse=[], lineno=s.lineno, col_offset=0)
        assigned = self.assigned_in(s.body)
        line = s.lineno
        s2 = st.fork()
        for k in assigned:
            if st.env.lookup(k) is not None:
                s2.env.assign(k, Opaque("%s@loop%d" % (k, line), cls=getattr(st.env.lookup(k), "cls", None), kind="seq" if _seqlike(st.env.lookup(k)) else None))
        n0 = len(s2.events)
        c = self.cond(s.test, s2)
        self.block(s.body, s2, [])
        st.events.append(("while", c, s2.events[n0:], s, s2))
        for k in assigned:
            st.env.assign(k, Opaque("%s@after-loop%d" % (k, line), cls=getattr(st.env.lookup(k), "cls", None), kind="seq" if _seqlike(st.env.lookup(k)) else None))
        for k, v in s2.heap.items():
            old = st.heap.get(k)
            if old is not v and (old is None or key(old) != key(v)):
                st.heap = _heapcopy(st.heap)
                st.heap[k] = Opaque("%s.%s@after-loop%d" % (k[0], k[1], line))
        return None


def _only_loop_exits(v):
    if isinstance(v, _LoopExit):
        return True
    if isinstance(v, Const) and v.v is None:
        return True
    if isinstance(v, Phi):
        return _only_loop_exits(v.a) and _only_loop_exits(v.b)
    return False


def _has_break(v):
    if v is BREAK:
        return True
    if isinstance(v, Phi):
        return _has_break(v.a) or _has_break(v.b)
    return False


def _seqlike(v):
    return isinstance(v, (Seq, Cat, MapV)) or (isinstance(v, Opaque) and v.kind in ("seq", "copy"))


def _has_exit(s):
    """Does the if-statement contain a return/raise/break/continue (own scope)?"""
    stack = list(s.body) + list(s.orelse)
    while stack:
        n = stack.pop()
        if isinstance(n, (ast.Return, ast.Raise, ast.Break, ast.Continue)):
            return True
        if isinstance(n, FUNC_NODES + (ast.ClassDef,)):
            continue
        stack.extend(c for c in ast.iter_child_nodes(n) if isinstance(c, ast.stmt) or isinstance(c, ast.ExceptHandler))
    return False


def _as_load(t):
    import copy

    t2 = copy.copy(t)
    t2.ctx = ast.Load()
    return t2


# ---------------------------------------------------------------------------
# auxiliary values
# ---------------------------------------------------------------------------

class SuperV:
    def __init__(self, cls, selfv):
        self.cls = cls
        self.selfv = selfv


class Template:
    """String with holes: parts = [("lit", text) | ("hole", value, spec)]."""

    def __init__(self, parts):
        self.parts = parts
        self.nargs = None

    def __repr__(self):
        return "Template(%s)" % key(self)


class DictItems:
    def __init__(self, d):
        self.d = d


class EnumV:
    def __init__(self, inner, start=0):
        self.inner = inner
        self.start = start
        self.pos = 0  # items already consumed through next()


class ZipV:
    def __init__(self, parts):
        self.parts = parts


class RangeV:
    def __init__(self, args):
        self.args = args


class MapV:
    """[body(el) for el in it if conds]"""

    def __init__(self, it, el, body, conds):
        self.it = it
        self.el = el
        self.body = body
        self.conds = conds
        self.cls = None


class JoinV:
    def __init__(self, sep, mapv):
        self.sep = sep
        self.mapv = mapv


class OverrideV:
    """Value of key `k` after `d.update(o)`: o[k] if k in o else old."""

    def __init__(self, o, k, old):
        self.o = o
        self.k = k
        self.old = old


class StrSym:
    """Symbolic string of known length made of symbolic characters (digit provenance).
    chars: list of atoms (e.g. 'd0', 'd1'); prefix-less."""

    def __init__(self, chars, upper=False):
        self.chars = list(chars)
        self.upper = upper

    @property
    def length(self):
        return len(self.chars)

    def index(self, i):
        if -len(self.chars) <= i < len(self.chars):
            return StrSym([self.chars[i]], self.upper)
        return Opaque("<index out of range>", kind="indexerror")

    def slice(self, lo, hi, step):
        return StrSym(self.chars[slice(lo, hi, step)], self.upper)

    def method(self, name, args):
        if name in ("lstrip", "strip", "removeprefix") and len(args) == 1 and isinstance(args[0], Const) and args[0].v == "#":
            ch = list(self.chars)
            if name == "removeprefix":
                if ch and ch[0] == "lit:#":
                    ch = ch[1:]
            else:
                while ch and ch[0] == "lit:#":
                    ch = ch[1:]
            return StrSym(ch, self.upper)
        if name == "startswith" and len(args) == 1 and isinstance(args[0], Const) and isinstance(args[0].v, str) and len(args[0].v) == 1:
            if not self.chars:
                return FALSE
            c0 = self.chars[0]
            if c0.startswith("lit:"):
                return Const(c0[4:] == args[0].v)
            return Const(False) if args[0].v not in "0123456789abcdefABCDEF" else None
        if name == "upper" and not args:
            return StrSym(self.chars, True)
        if name == "lower" and not args:
            return StrSym(self.chars, False) if not self.upper else None
        return None


_old_key = key


def key(v):  # noqa: F811  (extend with auxiliary values)
    if isinstance(v, Template):
        out = []
        for p in v.parts:
            if p[0] == "lit":
                out.append(repr(p[1]))
            else:
                out.append("{%s|%s}" % (key(p[1]), p[2]))
        return "T[" + " ".join(out) + "]"
    if isinstance(v, DictItems):
        return "items(%s)" % key(v.d)
    if isinstance(v, EnumV):
        return "enumerate(%s%s)" % (key(v.inner), ", %d" % v.start if v.start else "")
    if isinstance(v, ZipV):
        return "zip(%s)" % ", ".join(key(x) for x in v.parts)
    if isinstance(v, RangeV):
        return "range(%s)" % ", ".join(key(x) for x in v.args)
    if isinstance(v, MapV):
        return "[%s for %s in %s%s]" % (key(v.body), key(v.el), key(v.it), "".join(" if " + c for c in v.conds))
    if isinstance(v, JoinV):
        return "%r.join(%s)" % (v.sep, key(v.mapv))
    if isinstance(v, OverrideV):
        return "override(%s[%r], %s)" % (key(v.o), v.k, key(v.old))
    if isinstance(v, StrSym):
        return "S<%s%s>" % (",".join(v.chars), "^" if v.upper else "")
    if isinstance(v, SliceV):
        return "slice(%s, %s%s)" % ("None" if v.lo is None else key(v.lo), "None" if v.hi is None else key(v.hi), "" if v.step is None else ", " + key(v.step))
    if isinstance(v, StrTplV):
        return "string.Template(%r)" % v.text
    if isinstance(v, PartialV):
        return "partial(%s)" % ", ".join([key(v.fn)] + [key(a) for a in v.args] + ["%s=%s" % (k, key(x)) for k, x in sorted(v.kwargs.items())])
    return _old_key(v)
