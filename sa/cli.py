"""./check <property|all> [--tier quick|thorough] [--root DIR] | --replay FILE"""
import argparse
import json
import os
import sys
import time
import traceback

from .core import Program, AnchorMissing, Undecided
from .report import Reporter, verdict, write_evidence, write_replay, VERIF


class Ctx:
    """Shared, lazily built analyses for one Program."""

    def __init__(self, P, params=None):
        self.P = P
        self._cache = {}
        self.params = params or {}  # analysis parameters of the deeper (thorough) pass: n_items, big_instances

    def get(self, name, builder):
        if name not in self._cache:
            self._cache[name] = builder()
        return self._cache[name]

    def cfg(self, f):
        from .cfg import CFG

        return self.get(("cfg", f.qual, id(f.node)), lambda: CFG(f.body))

    @property
    def types(self):
        from .types import TypeFlow

        return self.get("types", lambda: TypeFlow(self.P))

    @property
    def cg(self):
        from .callgraph import CallGraph

        return self.get("cg", lambda: CallGraph(self.P, self.types))


DEEP = {"n_items": 3, "big_instances": True}


def run_rules(prop, P, only=None, params=None, rep=None):
    """Run all rules of a property on Program P.  Returns Reporter."""
    from .rules import registry

    rep = Reporter() if rep is None else rep
    ctx = Ctx(P, params)
    for rule in registry()[prop]["rules"]:
        name = getattr(rule, "rule_id", rule.__name__)
        if only and name not in only:
            continue
        try:
            rule(ctx, rep)
        except AnchorMissing as e:
            rep.undecided(name, "anchor", "", "anchor missing: %s" % e)
        except Undecided as e:
            rep.undecided(name, "recogniser", "", "construct not understood: %s" % e)
        except RecursionError:
            rep.undecided(name, "crash", "", "checker recursion limit")
        except Exception as e:  # checker bug -> analysis error, never a silent pass
            tb = traceback.format_exc().strip().splitlines()
            rep.undecided(name, "crash", "", "checker crashed: %r @ %s" % (e, " | ".join(tb[-3:])))
    return rep


def check_property(prop, tier, root, seed, quiet=False):
    from .rules import registry

    t0 = time.time()
    reg = registry()
    if prop not in reg:
        print("ANALYSIS-ERROR property=%s no such property" % prop)
        return 2
    try:
        P = Program.load(root)
    except (AnchorMissing, SyntaxError, OSError, UnicodeDecodeError) as e:
        print("ANALYSIS-ERROR property=%s cannot load %s: %r" % (prop, root, e))
        rep = Reporter()
        rep.undecided(prop + ".LOAD", "load", root, repr(e))
        ver = verdict(prop, rep)
        write_evidence(prop, tier, seed, rep, ver, time.time() - t0, reg[prop], root=root)
        return 2
    rep = run_rules(prop, P)
    extra = {}
    if tier == "thorough":
        # second pass with larger symbolic instances: three items per timeline (index/colour/one-each rules see a third
        # datum), deeper layerings for the stub-chain instance, a two-stub chain for the link rules
        n1 = len(rep.obs)
        run_rules(prop, P, params=DEEP, rep=rep)
        extra["deep_pass"] = {"parameters": DEEP, "additional_obligations": len(rep.obs) - n1}
    ver = verdict(prop, rep)
    code = ver["code"]
    if tier == "thorough":
        from .selftest import runner

        st = runner.run_for_property(prop, P, seed)
        extra["selftest"] = st["summary"]
        for line in st["lines"]:
            print(line)
        if st["failed"] and code == 0:
            code = 2
    meta = dict(reg[prop])
    meta.pop("rules", None)
    meta["digests"] = {m.path: m.digest for m in P.modules.values()}
    wall = time.time() - t0
    write_evidence(prop, tier, seed, rep, ver, wall, meta, extra, root=root)
    n_ok = sum(1 for o in rep.obs if o.status == "ok")
    if not quiet:
        print(
            "%s tier=%s root=%s: %d obligations, %d discharged, %d violated, %d known, %d undecided (%.2fs)"
            % (prop, tier, root, len(rep.obs), n_ok, len(ver["violations"]), len(ver["knowns"]), len(ver["undecided"]), wall)
        )
    for o, k in ver["knowns"]:
        print("KNOWN-FINDING: property=%s %s %s %s -- %s" % (prop, k.get("id", ""), o.rule, o.key, k.get("what", "")))
    for i, o in enumerate(ver["violations"]):
        path = write_replay(prop, i, o, root)
        print("VIOLATION property=%s replay=%s" % (prop, path))
        print("  rule=%s at %s\n  construct: %s\n  %s" % (o.rule, o.where, o.key, o.detail))
    for o in ver["undecided"]:
        print("ANALYSIS-ERROR property=%s rule=%s at %s: %s (%s)" % (prop, o.rule, o.where, o.detail, o.key))
    for rule, n, fl in ver["floor_fail"]:
        print("ANALYSIS-ERROR property=%s rule=%s matched %d instances, floor is %d" % (prop, rule, n, fl))
    return code


def replay(path, root_override=None):
    with open(path) as fh:
        d = json.load(fh)
    prop = d["property"]
    root = root_override or d.get("root", "/repo")
    want = d["obligation"]
    P = Program.load(root)
    rep = run_rules(prop, P)
    found = [o for o in rep.obs if o.rule == want["rule"] and o.key == want["key"]]
    if not found:
        found = [o for o in rep.obs if o.rule == want["rule"] and o.status != "ok"]
    bad = False
    for o in found:
        print("%s %s at %s\n  construct: %s\n  %s" % (o.status.upper(), o.rule, o.where, o.key, o.detail))
        if o.status == "violated":
            bad = True
    if not found:
        print("obligation %s|%s not present on this tree (rule instances: %d)" % (want["rule"], want["key"], sum(1 for o in rep.obs if o.rule == want["rule"])))
    if bad:
        print("VIOLATION property=%s replay=%s" % (prop, path))
        return 1
    return 0


def main(argv=None):
    try:
        import signal

        signal.signal(signal.SIGPIPE, signal.SIG_DFL)
    except Exception:
        pass
    ap = argparse.ArgumentParser(prog="check")
    ap.add_argument("prop", nargs="?")
    ap.add_argument("--tier", default=os.environ.get("VERIF_TIER", "quick"), choices=["quick", "thorough"])
    ap.add_argument("--root", default=os.environ.get("VERIF_ROOT", "/repo"))
    ap.add_argument("--replay")
    ap.add_argument("--list", action="store_true")
    a = ap.parse_args(argv)
    seed = int(os.environ.get("VERIF_SEED", "0") or 0)
    try:
        if a.replay:
            return replay(a.replay, None if a.root == "/repo" else a.root)
        from .rules import registry

        if a.list or not a.prop:
            for k in sorted(registry()):
                print(k, len(registry()[k]["rules"]), "rules")
            return 0
        if a.prop == "all":
            worst = 0
            for k in sorted(registry()):
                c = check_property(k, a.tier, a.root, seed)
                worst = max(worst, c) if 1 not in (worst, c) else 1
            return worst
        return check_property(a.prop, a.tier, a.root, seed)
    except SystemExit:
        raise
    except BaseException as e:
        traceback.print_exc()
        print("ANALYSIS-ERROR checker crashed: %r" % (e,))
        return 2


if __name__ == "__main__":
    sys.exit(main())
