"""Obligations, verdicts, evidence, known findings."""
import json
import os
import time

VERIF = os.path.dirname(os.path.dirname(os.path.abspath(__file__)))


class Ob:
    __slots__ = ("rule", "key", "status", "where", "detail", "nontrivial")

    def __init__(self, rule, key, status, where, detail, nontrivial):
        self.rule = rule
        self.key = key
        self.status = status  # ok | violated | undecided
        self.where = where
        self.detail = detail
        self.nontrivial = nontrivial

    def ident(self):
        return "%s|%s" % (self.rule, self.key)

    def asdict(self):
        return {
            "rule": self.rule,
            "key": self.key,
            "status": self.status,
            "where": self.where,
            "detail": self.detail,
        }


class Reporter:
    def __init__(self):
        self.obs = []
        self.analysed = {"functions": set(), "notes": []}

    def _add(self, rule, key, status, where, detail, nontrivial=True):
        self.obs.append(Ob(rule, key, status, where, detail, nontrivial))

    def ok(self, rule, key, where="", detail="", nontrivial=True):
        self._add(rule, key, "ok", where, detail, nontrivial)

    def bad(self, rule, key, where="", detail="", nontrivial=True):
        self._add(rule, key, "violated", where, detail, nontrivial)

    def undecided(self, rule, key, where="", detail=""):
        self._add(rule, key, "undecided", where, detail, True)

    def check(self, cond, rule, key, where="", detail="", bad_detail=None, nontrivial=True):
        if cond:
            self.ok(rule, key, where, detail, nontrivial)
        elif rule.endswith(".inventory"):
            # fewer instances than confirmed by hand: the analysis lost sight of the code, not a property violation
            self.undecided(rule, key, where, bad_detail or detail)
        else:
            self.bad(rule, key, where, bad_detail or detail, nontrivial)
        return cond

    def saw(self, *funcs):
        for f in funcs:
            self.analysed["functions"].add(getattr(f, "qual", str(f)))

    def note(self, s):
        self.analysed["notes"].append(s)


def load_known():
    p = os.path.join(VERIF, "known_findings.json")
    if not os.path.exists(p):
        return {"open": [], "fixed": []}
    with open(p) as fh:
        return json.load(fh)


def load_floors():
    p = os.path.join(VERIF, "expectations.json")
    if not os.path.exists(p):
        return {}
    with open(p) as fh:
        return json.load(fh)


def verdict(prop, rep, floors=None, known=None):
    """Apply floors and known findings.  Returns dict with exit code, lines to print."""
    floors = load_floors() if floors is None else floors
    known = load_known() if known is None else known
    open_k = [k for k in known.get("open", []) if k["property"] == prop]
    lines = []
    violations = []
    knowns = []
    undecided = []
    counts = {}
    for o in rep.obs:
        counts[o.rule] = counts.get(o.rule, 0) + 1
        if o.status == "violated":
            hit = None
            for k in open_k:
                if k["rule"] == o.rule and k["key"] == o.key:
                    hit = k
                    break
            if hit:
                knowns.append((o, hit))
            else:
                violations.append(o)
        elif o.status == "undecided":
            undecided.append(o)
    floor_fail = []
    for rule, fl in floors.get(prop, {}).items():
        if counts.get(rule, 0) < fl:
            floor_fail.append((rule, counts.get(rule, 0), fl))
    code = 0
    if violations:
        code = 1
    elif undecided or floor_fail:
        code = 2
    return {
        "code": code,
        "violations": violations,
        "knowns": knowns,
        "undecided": undecided,
        "floor_fail": floor_fail,
        "counts": counts,
    }


def out_dir(root="/repo"):
    """Evidence of the tree under verification lives in /verif/evidence; runs against any other root
    (scratch copies used by the self-test and the tools) must never overwrite it."""
    if os.path.realpath(root) == os.path.realpath(os.environ.get("VERIF_DEFAULT_ROOT", "/repo")):
        return os.path.join(VERIF, "evidence")
    import tempfile

    return os.environ.get("VERIF_SCRATCH_OUT") or os.path.join(tempfile.gettempdir(), "verif-scratch-evidence")


def write_evidence(prop, tier, seed, rep, ver, wall, meta, extra=None, root="/repo"):
    os.makedirs(out_dir(root), exist_ok=True)
    obs = rep.obs
    discharged = sum(1 for o in obs if o.status == "ok")
    distinct = len({o.ident() for o in obs if o.nontrivial})
    samples = []
    seen_rules = set()
    for o in obs:
        if o.rule not in seen_rules:
            seen_rules.add(o.rule)
            samples.append(o.asdict())
    for o in ver["violations"] + [k[0] for k in ver["knowns"]] + ver["undecided"]:
        d = o.asdict()
        if d not in samples:
            samples.append(d)
    cov = {
        "explanation": meta.get("explanation", ""),
        "obligations": len(obs),
        "discharged": discharged,
        "evaluations": len(obs),
        "distinct_nontrivial": distinct,
        "rule": "one evaluation = one rule instance (obligation) decided on the current tree; "
        "an obligation is keyed by (rule, function, normalised construct); non-trivial = it needed a "
        "dominance / path / algebraic-normal-form / dataflow / heap argument rather than a constant lookup; "
        "distinct = distinct keys",
        "samples": samples[:60],
        "per_rule_instances": ver["counts"],
        "floors": load_floors().get(prop, {}),
        "functions_analysed": sorted(rep.analysed["functions"]),
        "module_digests": meta.get("digests", {}),
        "checker_cmd": "./check %s --tier %s" % (prop, tier),
        "trusted_base": [
            "CPython ast parser and ast.unparse",
            "the rule tables written in /verif/sa/rules (expected normal forms, allowed writers, oracle tables)",
            "Python/stdlib semantics assumed by the rules (datetime is a subclass of date; naive datetime arithmetic consults no zone; % formatting)",
        ],
        "known_findings_printed": [k[1].get("id", "") for k in ver["knowns"]],
        "undecided": [o.asdict() for o in ver["undecided"]],
        "floor_failures": ver["floor_fail"],
        "exhaustive": False,
    }
    if rep.analysed["notes"]:
        cov["notes"] = rep.analysed["notes"]
    if extra:
        cov.update(extra)
    ev = {
        "property_id": prop,
        "tier": tier,
        "seed": seed,
        "level": "other",
        "coverage": cov,
        "assumptions": meta.get("assumptions", []),
        "wall_s": round(wall, 3),
        "violations": len(ver["violations"]),
    }
    path = os.path.join(out_dir(root), "%s.json" % prop)
    with open(path, "w") as fh:
        json.dump(ev, fh, indent=1, default=str)
    return path


def write_replay(prop, idx, ob, root):
    d = os.path.join(out_dir(root), "replay")
    os.makedirs(d, exist_ok=True)
    path = os.path.join(d, "%s-%d.json" % (prop, idx))
    with open(path, "w") as fh:
        json.dump({"property": prop, "root": root, "obligation": ob.asdict()}, fh, indent=1)
    return path
