"""Mechanical behaviour-preserving transformations of the *current* tree (thorough tier, "must stay silent" side).

Each probe rewrites every module of the package by a rule that preserves behaviour by construction (renaming of locals,
branch swapping with negated tests, mirrored comparisons, return temporaries, conditional expression <-> if/else,
comprehension -> loop, loop rotation, nested ifs, De Morgan, annotated assignments, reversed method order, hoisted
attribute reads).  The variants are built in memory from the sources under analysis and are only analysed, never run.
The transformations themselves live in /verif/tools/*.py (also usable from the command line through tools/probe.sh)."""
import ast
import importlib.util
import os

from ..report import VERIF


def _tool(name):
    spec = importlib.util.spec_from_file_location("verif_tool_" + name, os.path.join(VERIF, "tools", name + ".py"))
    m = importlib.util.module_from_spec(spec)
    spec.loader.exec_module(m)
    return m


def _per_module(sources, fn):
    out = {}
    for p, s in sources.items():
        if p.startswith("labella/") and p.endswith(".py"):
            new = fn(s)
            compile(new, p, "exec")
            out[p] = new
        else:
            out[p] = s
    return out


def variants(sources, root="/repo"):
    """Yield (name, sources) for every probe that can be built; a probe whose transformation fails to produce compilable
    code on the current tree is skipped (reported as such)."""
    made = []

    def add(name, thunk):
        try:
            made.append((name, thunk(), None))
        except Exception as e:  # noqa
            made.append((name, None, repr(e)[:120]))

    alpha = _tool("alpha_rename")
    add("alpha_rename", lambda: _per_module(sources, alpha.rename_module))
    par = _tool("param_rename")
    keep = par.kw_names(root) if "root" in par.kw_names.__code__.co_varnames else par.kw_names()
    # keyword names used in the sources under analysis themselves (they may differ from /repo's)
    for p_, s_ in sources.items():
        try:
            for n_ in ast.walk(ast.parse(s_)):
                if isinstance(n_, ast.Call):
                    keep |= {k_.arg for k_ in n_.keywords if k_.arg}
        except SyntaxError:
            pass
    add("param_rename", lambda: _per_module(sources, lambda s: par.rename_module(s, keep)))
    logic = _tool("logic_rewrite")

    def logic_fn(s):
        t = logic.T().visit(ast.parse(s))
        ast.fix_missing_locations(t)
        return ast.unparse(t) + "\n"

    add("logic_rewrite", lambda: _per_module(sources, logic_fn))
    stmt = _tool("stmt_rewrite")
    for mode in ("ret", "ifexp", "comp"):
        def stmt_fn(s, mode=mode):
            stmt.MODE = {mode}
            tree = ast.parse(s)
            tree.body = stmt.T().body(tree.body)
            ast.fix_missing_locations(tree)
            return ast.unparse(tree) + "\n"

        add("stmt_rewrite:" + mode, lambda f=stmt_fn: _per_module(sources, f))
    shape = _tool("shape_rewrite")
    for mode in ("methods", "rotate", "nest", "demorgan", "annassign"):
        def shape_fn(s, mode=mode):
            shape.MODE = {mode}
            t = shape.T().visit(ast.parse(s))
            ast.fix_missing_locations(t)
            return ast.unparse(t) + "\n"

        add("shape_rewrite:" + mode, lambda f=shape_fn: _per_module(sources, f))
    alias = _tool("alias_rewrite")
    add("alias_rewrite", lambda: alias.transform_sources(sources))
    return made
