"""Both-ways self-test of a property's rules (thorough tier).

 * seeded changes (/verif/seeded/<prop>-k, confirmed to break the property while passing the 109 tests) and the
   inverses of the repairs (/verif/selftest/defects) must be reported with a VIOLATION;
 * behaviour-preserving refactorings (/verif/selftest/equivalents) must stay silent, and so must the mechanical
   transformations of the current tree built by selftest/probes.py;
 * the first-order mutants of the authoring-time survey whose dynamic oracle recorded a violation of this property
   are re-generated in memory and analysed (never executed); the detection rate is reported and must not fall below
   the floor recorded in expectations.json.
Patched variants are materialised in a temporary directory outside /repo and /verif and removed at once.
"""
import glob
import json
import os
import re
import shutil
import subprocess
import tempfile
from concurrent.futures import ProcessPoolExecutor

from ..core import Program
from ..report import VERIF, verdict, load_floors


def _analyse_dir(args):
    prop, root = args
    from ..cli import run_rules

    try:
        P = Program.load(root)
        rep = run_rules(prop, P)
        ver = verdict(prop, rep)
        return ver["code"], sorted({o.rule for o in ver["violations"]}), [o.detail[:160] for o in ver["undecided"]][:3]
    except Exception as e:  # noqa
        return 2, [], ["crash %r" % (e,)]


def _analyse_sources(args):
    prop, sources = args
    from ..cli import run_rules

    try:
        P = Program(sources, "<memory>")
        rep = run_rules(prop, P)
        ver = verdict(prop, rep)
        return ver["code"], sorted({o.rule for o in ver["violations"]})
    except Exception as e:  # noqa
        return 2, ["crash %r" % (e,)]


def _patched_copy(repo_root, patch):
    d = tempfile.mkdtemp(prefix="sa_selftest_")
    shutil.copytree(os.path.join(repo_root, "labella"), os.path.join(d, "labella"))
    p = subprocess.run(["patch", "-p1", "-s", "-i", patch], cwd=d, capture_output=True, text=True)
    if p.returncode != 0:
        shutil.rmtree(d, ignore_errors=True)
        return None
    return d


def _patch_job(args):
    prop, repo_root, patch = args
    d = _patched_copy(repo_root, patch)
    if d is None:
        return ("noapply", [], [])
    try:
        return _analyse_dir((prop, d))
    finally:
        shutil.rmtree(d, ignore_errors=True)


SURVEY_FIELD = {"vpsc.py": ("vpsc", "engine"), "removeOverlap.py": ("engine",), "force.py": ("engine",), "distributor.py": ("engine",), "node.py": ("engine",), "scale.py": ("scale", "engine"), "d3_time.py": ("scale",),
                "timeline.py": ("export",), "renderer.py": ("export",), "utils.py": ("export",), "tex.py": ("export",)}


def survey_cases(prop):
    """Ground truth of the authoring-time survey: mutants whose dynamic oracle recorded a violation of `prop`."""
    out = []
    base = os.path.join(VERIF, "notes", "authoring")
    # C11: the export oracle wrapped its own output parsers in the same try block as the export, so its "C11" verdicts
    # include parser failures; c11_reclassified.jsonl (export-only driver) says which mutants make the *library* raise
    reclass = {}
    rp = os.path.join(base, "c11_reclassified.jsonl")
    if prop == "C11" and os.path.exists(rp):
        for line in open(rp):
            r = json.loads(line)
            reclass[(r["file"], r["line"], r["desc"])] = r["library_raises"]
    for fn in ("survey_tested_modules.jsonl", "survey_untested_modules.jsonl"):
        p = os.path.join(base, fn)
        if not os.path.exists(p):
            continue
        for line in open(p):
            r = json.loads(line)
            if fn.startswith("survey_tested") and not r.get("survived"):
                continue
            verd = " ".join(str(r.get(k, "")) for k in ("engine", "vpsc", "scale", "export"))
            props = set(re.findall(r"\bC\d\d\b", verd))
            if prop in props:
                if reclass and not reclass.get((r["file"], r["line"], r["desc"]), True):
                    continue
                out.append((r["file"], r["line"], r["desc"], verd.strip()[:80]))
    return out


def run_for_property(prop, P, seed, jobs=16):
    repo_root = P.root
    lines = []
    failed = False
    summary = {}
    pats = []
    for d in sorted(glob.glob(os.path.join(VERIF, "seeded", "%s-*" % prop))):
        pats.append(("seeded", os.path.basename(d), os.path.join(d, "patch.diff"), 1))
    for f in sorted(glob.glob(os.path.join(VERIF, "selftest", "defects", "*-%s.diff" % prop))):
        pats.append(("defect", os.path.basename(f)[:-5], f, 1))
    for f in sorted(glob.glob(os.path.join(VERIF, "selftest", "equivalents", "*.diff"))):
        pats.append(("equivalent", os.path.basename(f)[:-5], f, 0))
    with ProcessPoolExecutor(max_workers=jobs) as ex:
        res = list(ex.map(_patch_job, [(prop, repo_root, p[2]) for p in pats]))
        cases = survey_cases(prop)
        # regenerate the mutants
        from .mutants import file_mutants

        by_file = {}
        for f, ln, desc, verd in cases:
            by_file.setdefault(f, []).append((ln, desc, verd))
        jobs_ = []
        meta = []
        for f, lst in by_file.items():
            rel = "labella/" + f
            if rel not in P.sources:
                continue
            muts = file_mutants(f, P.sources[rel])
            for ln, desc, verd in lst:
                ms = muts.get((ln, desc))
                if ms is None:
                    continue
                src = dict(P.sources)
                src[rel] = ms
                jobs_.append((prop, src))
                meta.append((f, ln, desc, verd))
        sres = list(ex.map(_analyse_sources, jobs_, chunksize=4))
        # mechanical behaviour-preserving transformations of the current tree (built in memory, analysed only)
        from .probes import variants

        pv = variants(dict(P.sources), repo_root)
        pres = list(ex.map(_analyse_sources, [(prop, src) for name, src, err in pv if src is not None]))
    tallies = {"seeded": [0, 0], "defect": [0, 0], "equivalent": [0, 0]}
    for (kind, name, path, want), r in zip(pats, res):
        code = r[0]
        if code == "noapply":
            lines.append("SELFTEST %s %s: patch no longer applies to the current tree (skipped)" % (kind, name))
            continue
        tallies[kind][1] += 1
        ok = (code == 1) if want == 1 else (code == 0)
        if ok:
            tallies[kind][0] += 1
        else:
            failed = True
            if want == 1:
                lines.append("SELFTEST-FAIL property=%s %s %s is NOT reported (exit %s) %s" % (prop, kind, name, code, r[2]))
            else:
                lines.append("SELFTEST-FAIL property=%s equivalent %s raises an alarm (exit %s): %s %s" % (prop, name, code, r[1], r[2]))
    probe_total = probe_silent = 0
    it = iter(pres)
    for name, src, err in pv:
        if src is None:
            lines.append("SELFTEST probe %s could not be built on the current tree (skipped): %s" % (name, err))
            continue
        r = next(it)
        probe_total += 1
        if r[0] == 0:
            probe_silent += 1
        else:
            failed = True
            lines.append("SELFTEST-FAIL property=%s behaviour-preserving transformation `%s` of the current tree raises an alarm (exit %s): %s" % (prop, name, r[0], r[1][:6]))
    caught = sum(1 for r in sres if r[0] == 1)
    undec = sum(1 for r in sres if r[0] == 2)
    missed = [(m, r) for m, r in zip(meta, sres) if r[0] == 0]
    floor = load_floors().get("_selftest_survey_floor", {}).get(prop)
    summary = {
        "seeded_changes_reported": "%d/%d" % tuple(tallies["seeded"]),
        "repair_inverses_reported": "%d/%d" % tuple(tallies["defect"]),
        "equivalents_silent": "%d/%d" % tuple(tallies["equivalent"]),
        "mechanical_transformations_silent": "%d/%d" % (probe_silent, probe_total),
        "survey_mutants_with_recorded_violation": len(sres),
        "survey_reported": caught,
        "survey_analysis_error": undec,
        "survey_silent": len(missed),
        "survey_silent_samples": [{"file": m[0], "line": m[1], "mutation": m[2], "oracle": m[3]} for m, r in missed[:12]],
        "survey_floor": floor,
    }
    if floor is not None and caught + undec < floor:
        failed = True
        lines.append("SELFTEST-FAIL property=%s survey detection %d (+%d analysis errors) fell below the recorded floor %d" % (prop, caught, undec, floor))
    lines.append("SELFTEST property=%s seeded %s, repair inverses %s, equivalents silent %s, mechanical transformations silent %s, survey mutants reported %d/%d (analysis errors %d)" % (
        prop, summary["seeded_changes_reported"], summary["repair_inverses_reported"], summary["equivalents_silent"], summary["mechanical_transformations_silent"], caught, len(sres), undec))
    return {"summary": summary, "lines": lines, "failed": failed}
