"""First-order AST mutants (same generator as the authoring-time survey, so that (file, line, description)
identifies a mutant and the survey's recorded ground truth can be looked up).  Mutants are produced as source
text and analysed in memory; nothing is executed."""
import ast
import copy
import hashlib

BIN = {ast.Add: [ast.Sub], ast.Sub: [ast.Add], ast.Mult: [ast.Div], ast.Div: [ast.Mult], ast.FloorDiv: [ast.Div], ast.Mod: [ast.FloorDiv]}
CMP = {ast.Lt: [ast.LtE, ast.Gt], ast.LtE: [ast.Lt, ast.GtE], ast.Gt: [ast.GtE, ast.Lt], ast.GtE: [ast.Gt, ast.LtE], ast.Eq: [ast.NotEq], ast.NotEq: [ast.Eq], ast.Is: [ast.IsNot], ast.IsNot: [ast.Is], ast.In: [ast.NotIn], ast.NotIn: [ast.In]}


def mutants(tree):
    """yield (lineno, desc, mutated_tree)"""
    nodes = list(ast.walk(tree))

    def clone_with(i, fn):
        t = copy.deepcopy(tree)
        n = list(ast.walk(t))[i]
        fn(n)
        return t

    for i, n in enumerate(nodes):
        ln = getattr(n, "lineno", None)
        if isinstance(n, ast.BinOp) and type(n.op) in BIN:
            if isinstance(n.op, ast.Mod) and isinstance(n.left, ast.Constant) and isinstance(n.left.value, str):
                continue
            for new in BIN[type(n.op)]:
                yield ln, f"binop {type(n.op).__name__}->{new.__name__}: {ast.unparse(n)[:60]}", clone_with(i, lambda m, new=new: setattr(m, "op", new()))
        if isinstance(n, ast.AugAssign) and type(n.op) in BIN:
            for new in BIN[type(n.op)]:
                yield ln, f"augop {type(n.op).__name__}->{new.__name__}: {ast.unparse(n)[:60]}", clone_with(i, lambda m, new=new: setattr(m, "op", new()))
        if isinstance(n, ast.Compare) and len(n.ops) == 1 and type(n.ops[0]) in CMP:
            for new in CMP[type(n.ops[0])]:
                yield ln, f"cmp {type(n.ops[0]).__name__}->{new.__name__}: {ast.unparse(n)[:60]}", clone_with(i, lambda m, new=new: setattr(m, "ops", [new()]))
        if isinstance(n, ast.BoolOp):
            new = ast.Or if isinstance(n.op, ast.And) else ast.And
            yield ln, f"bool {type(n.op).__name__}->{new.__name__}: {ast.unparse(n)[:60]}", clone_with(i, lambda m, new=new: setattr(m, "op", new()))
        if isinstance(n, ast.UnaryOp) and isinstance(n.op, ast.Not):
            yield ln, f"not-removed: {ast.unparse(n)[:60]}", clone_with(i, lambda m: (setattr(m, "operand", ast.UnaryOp(op=ast.Not(), operand=m.operand))))
        if isinstance(n, ast.UnaryOp) and isinstance(n.op, ast.USub) and not isinstance(n.operand, ast.Constant):
            yield ln, f"neg-removed: {ast.unparse(n)[:60]}", clone_with(i, lambda m: setattr(m, "op", ast.UAdd()))
        if isinstance(n, ast.Constant) and isinstance(n.value, (int, float)) and not isinstance(n.value, bool):
            v = n.value
            if v == 0:
                cands = [1, -1]
            elif v == 1:
                cands = [0, 2]
            elif v == -1:
                cands = [0, 1]
            else:
                cands = [v + 1, v - 1, v * 2, v / 2 if isinstance(v, float) else v // 2, -v]
            seen = set()
            for c in cands:
                if c == v or c in seen:
                    continue
                seen.add(c)
                yield ln, f"const {v!r}->{c!r}", clone_with(i, lambda m, c=c: setattr(m, "value", c))
        if isinstance(n, ast.Constant) and isinstance(n.value, bool):
            yield ln, f"const {n.value}->{not n.value}", clone_with(i, lambda m: setattr(m, "value", not m.value))
        if isinstance(n, ast.IfExp):
            yield ln, f"ifexp-swap: {ast.unparse(n)[:60]}", clone_with(i, lambda m: (lambda b, o: (setattr(m, "body", o), setattr(m, "orelse", b)))(m.body, m.orelse))
        if isinstance(n, ast.Call) and len(n.args) == 2 and not n.keywords and not any(isinstance(a, ast.Starred) for a in n.args):
            yield ln, f"argswap: {ast.unparse(n)[:60]}", clone_with(i, lambda m: setattr(m, "args", [m.args[1], m.args[0]]))
        if isinstance(n, (ast.Expr, ast.Assign, ast.AugAssign)) and not (isinstance(n, ast.Expr) and isinstance(n.value, ast.Constant)):
            def delete(m):
                m.__class__ = ast.Pass
                for f in list(m.__dict__):
                    if f not in ("lineno", "col_offset", "end_lineno", "end_col_offset"):
                        delattr(m, f)
                m._fields = ()

            yield ln, f"del-stmt: {ast.unparse(n)[:60]}", clone_with(i, delete)
        if isinstance(n, ast.If) and not n.orelse:
            yield ln, f"if-never: {ast.unparse(n.test)[:50]}", clone_with(i, lambda m: setattr(m, "test", ast.Constant(value=False)))


def file_mutants(fname, src):
    """{(line, desc): mutated source} for one file, de-duplicated like the survey."""
    tree = ast.parse(src)
    base = ast.unparse(tree)
    out = {}
    seen = set()
    for ln, desc, t in mutants(tree):
        try:
            ms = ast.unparse(ast.fix_missing_locations(t))
            compile(ms, fname, "exec")
        except Exception:
            continue
        if ms == base:
            continue
        h = hashlib.md5((fname + ms).encode()).hexdigest()
        if h in seen:
            continue
        seen.add(h)
        out.setdefault((ln, desc), ms)
    return out
