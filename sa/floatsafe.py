"""Float-safe term rewriting: evaluate a small closure with only those identities
that are exact in IEEE arithmetic for finite operands.

terms: ("c", Fraction) | ("sym", name) | ("op", op, l, r) | ("fn", name, args...)
"""
import ast
from fractions import Fraction

from .core import Undecided, ntext
from .sym import Closure, Opaque, Const, Phi, key
from .poly import Num

ZERO = ("c", Fraction(0))
ONE = ("c", Fraction(1))


def fs_key(t):
    if t[0] == "c":
        return str(t[1])
    if t[0] == "sym":
        return t[1]
    if t[0] == "op":
        return "(%s %s %s)" % (fs_key(t[2]), {"add": "+", "sub": "-", "mul": "*", "div": "/"}[t[1]], fs_key(t[3]))
    if t[0] == "fn":
        return "%s(%s)" % (t[1], ", ".join(fs_key(x) for x in t[2:]))
    return str(t)


def _isneg(t):
    return t[0] == "fn" and t[1] == "neg"


def mkneg(t):
    # negation is exact and an involution
    if _isneg(t):
        return t[2]
    if t[0] == "c":
        return ("c", -t[1])
    return ("fn", "neg", t)


def mk(op, l, r):
    # sign symmetry of IEEE multiplication/division, commutativity of * and +: all exact
    if op in ("mul", "div") and (_isneg(l) or _isneg(r)):
        sign = _isneg(l) != _isneg(r)
        inner = mk(op, l[2] if _isneg(l) else l, r[2] if _isneg(r) else r)
        return mkneg(inner) if sign else inner
    if op == "add" and _isneg(r):
        return mk("sub", l, r[2])
    if op == "add" and _isneg(l):
        return mk("sub", r, l[2])
    if op == "sub" and _isneg(r):
        return mk("add", l, r[2])
    if op in ("mul", "add") and l[0] != "c" and r[0] != "c" and fs_key(r) < fs_key(l):
        l, r = r, l
    lc = l[1] if l[0] == "c" else None
    rc = r[1] if r[0] == "c" else None
    if lc is not None and rc is not None and abs(lc) <= 2 and abs(rc) <= 2 and lc.denominator == 1 and rc.denominator == 1:
        # small-integer constant folding is exact
        if op == "add":
            return ("c", lc + rc)
        if op == "sub":
            return ("c", lc - rc)
        if op == "mul":
            return ("c", lc * rc)
        if op == "div" and rc != 0:
            q = lc / rc
            if q.denominator == 1:
                return ("c", q)
    if op == "sub":
        if l == r:
            return ZERO
        if rc == 0:
            return l
    if op == "add":
        if lc == 0:
            return r
        if rc == 0:
            return l
    if op == "mul":
        if lc == 0 or rc == 0:
            return ZERO
        if lc == 1:
            return r
        if rc == 1:
            return l
    if op == "div":
        if lc == 0:
            return ZERO
        if l == r:
            return ONE
        if rc == 1:
            return l
    return ("op", op, l, r)


OPS = {ast.Add: "add", ast.Sub: "sub", ast.Mult: "mul", ast.Div: "div"}


def from_value(v):
    if isinstance(v, Opaque):
        return ("sym", v.text)
    if isinstance(v, Num) and v.is_const():
        return ("c", v.const_value())
    if isinstance(v, Const) and isinstance(v.v, (int, float)) and not isinstance(v.v, bool):
        return ("c", Fraction(repr(v.v)) if isinstance(v.v, float) else Fraction(v.v))
    if isinstance(v, Num):
        ats = v.atoms()
        if len(ats) == 1 and v.equals(Num.atom(next(iter(ats)))):
            a = next(iter(ats))
            if isinstance(a, str):
                return ("sym", a)
    return None


class FS:
    def __init__(self, P, ev):
        self.P = P
        self.ev = ev
        self.depth = 0

    def apply(self, cl, args):
        if isinstance(cl, Phi):
            raise Undecided("closure guarded by an unresolved condition: %s" % key(cl.cond))
        if not isinstance(cl, Closure):
            raise Undecided("not a closure: %s" % key(cl))
        f = cl.func
        if self.depth > 8:
            raise Undecided("float-safe inlining too deep")
        params = f.params[1:] if cl.selfv is not None else f.params
        env = dict(zip(params, args))
        self.depth += 1
        try:
            if f.is_lambda:
                return self.expr(f.node.body, env, cl)
            # def with straight-line assignments and one return
            for st in f.node.body:
                if isinstance(st, ast.Assign) and len(st.targets) == 1 and isinstance(st.targets[0], ast.Name):
                    env[st.targets[0].id] = self.expr(st.value, env, cl)
                elif isinstance(st, ast.Return):
                    return self.expr(st.value, env, cl)
                elif isinstance(st, ast.Expr) and isinstance(st.value, ast.Constant):
                    continue
                else:
                    raise Undecided("float-safe: statement %s" % ntext(st)[:60])
            raise Undecided("float-safe: no return")
        finally:
            self.depth -= 1

    def free(self, name, cl):
        """Value of a free variable of closure cl."""
        v = cl.env.lookup(name) if cl.env is not None else None
        if v is None:
            v = self.ev.resolve_global(cl.func.module.name, name)
        if isinstance(v, (Closure, Phi)):
            return v
        t = from_value(v)
        if t is not None:
            return t
        # derived local of the enclosing function: inline its defining expression
        par = cl.func if isinstance(cl, _Shim) else cl.func.parent
        if par is not None and not par.is_lambda:
            defs = [s for s in ast.walk(par.node) if isinstance(s, ast.Assign) and len(s.targets) == 1 and isinstance(s.targets[0], ast.Name) and s.targets[0].id == name]
            if len(defs) == 1:
                outer = Closure(par, cl.env.parent if cl.env is not None else None)
                penv = {}
                for p in par.params:
                    pv = cl.env.lookup(p) if cl.env is not None else None
                    t = from_value(pv) if pv is not None else None
                    if t is not None:
                        penv[p] = t
                return self.expr(defs[0].value, penv, _Shim(par, cl.env))
        raise Undecided("float-safe: free variable %s = %s" % (name, key(v)))

    def expr(self, n, env, cl):
        if isinstance(n, ast.Constant) and isinstance(n.value, (int, float)) and not isinstance(n.value, bool):
            return ("c", Fraction(repr(n.value)) if isinstance(n.value, float) else Fraction(n.value))
        if isinstance(n, ast.Name):
            if n.id in env:
                return env[n.id]
            return self.free(n.id, cl)
        if isinstance(n, ast.BinOp) and type(n.op) in OPS:
            return mk(OPS[type(n.op)], self.expr(n.left, env, cl), self.expr(n.right, env, cl))
        if isinstance(n, ast.UnaryOp) and isinstance(n.op, ast.USub):
            return mkneg(self.expr(n.operand, env, cl))
        if isinstance(n, ast.UnaryOp) and isinstance(n.op, ast.UAdd):
            return self.expr(n.operand, env, cl)
        if isinstance(n, ast.Call):
            if isinstance(n.func, ast.Name) and n.func.id in ("max", "min") and n.func.id not in env and len(n.args) == 2 and not n.keywords:
                a, b = (self.expr(x, env, cl) for x in n.args)
                if a[0] == "c" and b[0] == "c":
                    return ("c", max(a[1], b[1]) if n.func.id == "max" else min(a[1], b[1]))
                return ("fn", n.func.id, a, b)
            if isinstance(n.func, ast.Name) and n.func.id == "float" and len(n.args) == 1:
                return self.expr(n.args[0], env, cl)
            fv = None
            if isinstance(n.func, ast.Name):
                fv = env.get(n.func.id)
                if fv is None:
                    fv = self.free(n.func.id, cl)
            if isinstance(fv, Closure) and not n.keywords:
                return self.apply(fv, [self.expr(a, env, cl) for a in n.args])
            raise Undecided("float-safe: call %s" % ntext(n)[:60])
        if isinstance(n, ast.IfExp):
            raise Undecided("float-safe: conditional expression")
        raise Undecided("float-safe: expression %s" % ntext(n)[:60])


class _Shim:
    def __init__(self, func, env):
        self.func = func
        self.env = env


def fs_apply(P, cl, args, ev):
    return FS(P, ev).apply(cl, args)
