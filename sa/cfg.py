"""Statement-level control-flow graph for one function, with dominators,
post-dominators, loops, reachability-avoiding queries and definite assignment.
"""
import ast
from .core import walk_local, FUNC_NODES, ntext


class N:
    __slots__ = ("kind", "ast", "owner", "id")

    def __init__(self, kind, node=None, owner=None):
        self.kind = kind  # entry | exit | raise | stmt | test | for | forassign | with | except
        self.ast = node
        self.owner = owner  # the compound statement this header belongs to

    @property
    def lineno(self):
        n = self.ast if self.ast is not None else self.owner
        return getattr(n, "lineno", 0)

    def __repr__(self):
        return "<%s %s:%s>" % (self.kind, self.lineno, ntext(self.ast)[:40] if self.ast is not None else "")


class CFG:
    def __init__(self, body):
        self.nodes = []
        self.succ = {}
        self.pred = {}
        self.elabel = {}
        self.entry = self._new("entry")
        self.exit = self._new("exit")
        self.raise_exit = self._new("raise")
        self.of_stmt = {}  # ast stmt -> node (simple stmt, or header of compound)
        self.loops = []  # (header node, stmt)
        self.loop_stack = []
        ends = self._seq(body, [(self.entry, None)])
        for e, lab in ends:
            self._edge(e, self.exit, lab)
        self._dom = None
        self._pdom = None

    # -- construction --------------------------------------------------------
    def _new(self, kind, node=None, owner=None):
        n = N(kind, node, owner)
        n.id = len(self.nodes)
        self.nodes.append(n)
        self.succ[n] = []
        self.pred[n] = []
        return n

    def _edge(self, a, b, label=None):
        if b not in self.succ[a]:
            self.succ[a].append(b)
            self.pred[b].append(a)
        self.elabel[(a, b)] = label

    def _connect(self, ins, n):
        for a, lab in ins:
            self._edge(a, n, lab)

    def _seq(self, stmts, ins):
        for st in stmts:
            ins = self._stmt(st, ins)
        return ins

    def _stmt(self, st, ins):
        if isinstance(st, ast.If):
            # the test node carries the condition with leading `not`s removed; the edge labels say what *that* condition is
            # on each branch (so `if not c: B else: A` and `if c: A else: B` give the same graph)
            test, flip = _strip_not(st.test)
            t = self._new("test", test, st)
            self.of_stmt[st] = t
            self._connect(ins, t)
            a = self._seq(st.body, [(t, not flip)])
            b = self._seq(st.orelse, [(t, flip)]) if st.orelse else [(t, flip)]
            return a + b
        if isinstance(st, ast.While):
            test, flip = _strip_not(st.test)
            t = self._new("test", test, st)
            self.of_stmt[st] = t
            self._connect(ins, t)
            ctx = {"head": t, "breaks": [], "stmt": st}
            self.loops.append(ctx)
            self.loop_stack.append(ctx)
            b = self._seq(st.body, [(t, not flip)])
            self.loop_stack.pop()
            for e, lab in b:
                self._edge(e, t, lab)
            out = [(t, flip)]
            const_true = isinstance(st.test, ast.Constant) and bool(st.test.value)
            if const_true:
                out = []
            if st.orelse:
                out = self._seq(st.orelse, out)
            return out + ctx["breaks"]
        if isinstance(st, (ast.For, ast.AsyncFor)):
            h = self._new("for", st.iter, st)
            self.of_stmt[st] = h
            self._connect(ins, h)
            asg = self._new("forassign", st.target, st)
            self._edge(h, asg, True)
            ctx = {"head": h, "breaks": [], "stmt": st}
            self.loops.append(ctx)
            self.loop_stack.append(ctx)
            b = self._seq(st.body, [(asg, None)])
            self.loop_stack.pop()
            for e, lab in b:
                self._edge(e, h, lab)
            out = [(h, False)]
            if st.orelse:
                out = self._seq(st.orelse, out)
            return out + ctx["breaks"]
        if isinstance(st, ast.Break):
            n = self._new("stmt", st)
            self.of_stmt[st] = n
            self._connect(ins, n)
            self.loop_stack[-1]["breaks"].append((n, None))
            return []
        if isinstance(st, ast.Continue):
            n = self._new("stmt", st)
            self.of_stmt[st] = n
            self._connect(ins, n)
            self._edge(n, self.loop_stack[-1]["head"])
            return []
        if isinstance(st, ast.Return):
            n = self._new("stmt", st)
            self.of_stmt[st] = n
            self._connect(ins, n)
            self._edge(n, self.exit)
            return []
        if isinstance(st, ast.Raise):
            n = self._new("stmt", st)
            self.of_stmt[st] = n
            self._connect(ins, n)
            self._edge(n, self.raise_exit)
            return []
        if isinstance(st, (ast.With, ast.AsyncWith)):
            n = self._new("with", st, st)
            self.of_stmt[st] = n
            self._connect(ins, n)
            return self._seq(st.body, [(n, None)])
        if isinstance(st, ast.Try):
            start = len(self.nodes)
            first = self._new("stmt", ast.Pass(lineno=st.lineno, col_offset=0))
            self._connect(ins, first)
            b = self._seq(st.body, [(first, None)])
            body_nodes = self.nodes[start:]
            outs = []
            for h in st.handlers:
                hn = self._new("except", h, st)
                for bn in body_nodes:
                    self._edge(bn, hn)
                outs += self._seq(h.body, [(hn, None)])
            if st.orelse:
                b = self._seq(st.orelse, b)
            outs += b
            if st.finalbody:
                outs = self._seq(st.finalbody, outs)
            return outs
        if isinstance(st, ast.Match):
            from .normalise import desugar_match

            alt = desugar_match(st)
            if alt is not None:
                outs = self._seq(alt, ins)
                if alt:
                    self.of_stmt[st] = self.of_stmt.get(alt[0])
                return outs
        # simple statement (incl. nested def/class as a definition statement)
        n = self._new("stmt", st)
        self.of_stmt[st] = n
        self._connect(ins, n)
        return [(n, None)]

    # -- queries -------------------------------------------------------------
    def reach(self, src, avoid=(), forward=True, include_src=False):
        """Nodes reachable from src by >=1 edge, never entering a node in `avoid`."""
        avoid = set(avoid)
        nxt = self.succ if forward else self.pred
        seen = set()
        stack = [x for x in nxt[src] if x not in avoid]
        while stack:
            n = stack.pop()
            if n in seen:
                continue
            seen.add(n)
            for m in nxt[n]:
                if m not in avoid and m not in seen:
                    stack.append(m)
        if include_src:
            seen.add(src)
        return seen

    def exists_path(self, a, b, avoid=()):
        return b in self.reach(a, avoid)

    def dominators(self):
        if self._dom is None:
            self._dom = self._domcalc(self.entry, self.pred, self.succ)
        return self._dom

    def postdominators(self):
        """Post-dominators w.r.t. normal exit (raise exits are ignored)."""
        if self._pdom is None:
            self._pdom = self._domcalc(self.exit, self.succ, self.pred)
        return self._pdom

    def _domcalc(self, root, pred, succ):
        # restrict to nodes reachable from root
        reach = {root}
        stack = [root]
        while stack:
            n = stack.pop()
            for m in succ[n]:
                if m not in reach:
                    reach.add(m)
                    stack.append(m)
        dom = {n: set(reach) for n in reach}
        dom[root] = {root}
        changed = True
        order = [n for n in self.nodes if n in reach]
        while changed:
            changed = False
            for n in order:
                if n is root:
                    continue
                ps = [dom[p] for p in pred[n] if p in reach]
                new = set.intersection(*ps) if ps else set()
                new = new | {n}
                if new != dom[n]:
                    dom[n] = new
                    changed = True
        return dom

    def dominates(self, a, b):
        d = self.dominators()
        return b in d and a in d[b]

    def postdominates(self, a, b):
        d = self.postdominators()
        return b in d and a in d[b]

    def loop_body(self, ctx):
        """Nodes of a loop: reachable from head's True successor without leaving through head... (natural loop)."""
        head = ctx["head"]
        body = set()
        # natural loop: nodes that can reach head via back edges without passing head
        stack = [p for p in self.pred[head] if self.dominates(head, p)]
        while stack:
            n = stack.pop()
            if n in body or n is head:
                continue
            body.add(n)
            stack.extend(self.pred[n])
        return body

    def loop_of(self, stmt):
        for c in self.loops:
            if c["stmt"] is stmt:
                return c
        return None

    def stmt_nodes(self):
        return [n for n in self.nodes if n.kind in ("stmt", "test", "for", "forassign", "with", "except")]


# -- names -----------------------------------------------------------------

def assigned_names(node):
    """Names bound by executing CFG node `node` (not descending into nested scopes)."""
    out = set()
    a = node.ast
    if node.kind == "forassign":
        for n in ast.walk(a):
            if isinstance(n, ast.Name):
                out.add(n.id)
        return out
    if node.kind == "with":
        for it in a.items:
            if it.optional_vars is not None:
                for n in ast.walk(it.optional_vars):
                    if isinstance(n, ast.Name):
                        out.add(n.id)
        for it in a.items:
            out |= _walrus(it.context_expr)
        return out
    if node.kind == "except":
        if a.name:
            out.add(a.name)
        return out
    if node.kind in ("test", "for"):
        return _walrus(a)
    if node.kind != "stmt":
        return out
    if isinstance(a, ast.Assign):
        for t in a.targets:
            out |= _target_names(t)
        out |= _walrus(a.value)
    elif isinstance(a, ast.AugAssign):
        out |= _target_names(a.target)
    elif isinstance(a, ast.AnnAssign):
        if a.value is not None:
            out |= _target_names(a.target)
    elif isinstance(a, (ast.FunctionDef, ast.AsyncFunctionDef, ast.ClassDef)):
        out.add(a.name)
    elif isinstance(a, (ast.Import, ast.ImportFrom)):
        for al in a.names:
            out.add((al.asname or al.name).split(".")[0])
    elif isinstance(a, ast.Expr):
        out |= _walrus(a.value)
    elif isinstance(a, ast.Return) and a.value is not None:
        out |= _walrus(a.value)
    return out


def _target_names(t):
    out = set()
    if isinstance(t, ast.Name):
        out.add(t.id)
    elif isinstance(t, (ast.Tuple, ast.List)):
        for e in t.elts:
            out |= _target_names(e)
    elif isinstance(t, ast.Starred):
        out |= _target_names(t.value)
    return out


def _strip_not(test):
    flip = False
    while isinstance(test, ast.UnaryOp) and isinstance(test.op, ast.Not):
        test = test.operand
        flip = not flip
    return test, flip


def _walrus(e):
    out = set()
    for n in walk_local(e, include_self=True):
        if isinstance(n, ast.NamedExpr) and isinstance(n.target, ast.Name):
            out.add(n.target.id)
    return out


def used_names(node):
    """Names *read* by executing CFG node (Load context, own scope only; comprehension
    variables excluded)."""
    a = node.ast
    if a is None:
        return []
    roots = []
    if node.kind == "forassign":
        # subscripts/attributes in target read their bases
        roots = [n for n in ast.walk(a) if isinstance(n, (ast.Subscript, ast.Attribute))]
    elif node.kind == "with":
        roots = [it.context_expr for it in a.items]
    elif node.kind == "except":
        roots = [a.type] if a.type is not None else []
    elif node.kind in ("test", "for"):
        roots = [a]
    elif isinstance(a, (ast.FunctionDef, ast.AsyncFunctionDef)):
        roots = list(a.args.defaults) + [k for k in a.args.kw_defaults if k is not None] + list(a.decorator_list)
    elif isinstance(a, ast.ClassDef):
        roots = list(a.bases) + list(a.decorator_list)
    else:
        roots = [a]
    out = []
    for r in roots:
        out.extend(_loads(r, set()))
    if isinstance(a, ast.AugAssign) and isinstance(a.target, ast.Name) and node.kind == "stmt":
        out.append((a.target.id, a.target))
    return out


def _loads(n, bound):
    """Loads of names not in `bound`, in evaluation order; a walrus binds its target for what is evaluated after it
    (only where that later part cannot run without the walrus having run)."""
    return _loads_seq(n, set(bound))[0]


def _loads_seq(n, bound):
    # returns (loads, bound afterwards); `bound` is not mutated
    out = []
    if isinstance(n, ast.Name):
        if isinstance(n.ctx, ast.Load) and n.id not in bound:
            out.append((n.id, n))
        return out, bound
    if isinstance(n, ast.NamedExpr):
        o, b = _loads_seq(n.value, bound)
        if isinstance(n.target, ast.Name):
            b = b | {n.target.id}
        return o, b
    if isinstance(n, ast.BoolOp):
        b = bound
        after = None
        for v in n.values:
            o, b = _loads_seq(v, b)
            out.extend(o)
            if after is None:
                after = b
        return out, after if after is not None else bound
    if isinstance(n, ast.IfExp):
        o, b = _loads_seq(n.test, bound)
        out.extend(o)
        out.extend(_loads_seq(n.body, b)[0])
        out.extend(_loads_seq(n.orelse, b)[0])
        return out, b
    if isinstance(n, FUNC_NODES):
        # free variables of nested functions are read later; defaults now
        for d in n.args.defaults + [k for k in n.args.kw_defaults if k is not None]:
            out.extend(_loads_seq(d, bound)[0])
        return out, bound
    if isinstance(n, ast.ClassDef):
        return out, bound
    if isinstance(n, (ast.ListComp, ast.SetComp, ast.GeneratorExp, ast.DictComp)):
        b = set(bound)
        first = True
        for g in n.generators:
            out.extend(_loads_seq(g.iter, bound if first else b)[0])
            first = False
            b |= _target_names(g.target)
            for c in g.ifs:
                out.extend(_loads_seq(c, b)[0])
        if isinstance(n, ast.DictComp):
            out.extend(_loads_seq(n.key, b)[0])
            out.extend(_loads_seq(n.value, b)[0])
        else:
            out.extend(_loads_seq(n.elt, b)[0])
        return out, bound
    b = bound
    for c in ast.iter_child_nodes(n):
        o, b = _loads_seq(c, b)
        out.extend(o)
    return out, b


def local_names(fnode, params):
    """Names that are local to the function: params + assigned anywhere, minus global/nonlocal."""
    loc = set(params)
    glob = set()
    body = fnode.body if isinstance(fnode.body, list) else []
    for n in walk_body_nodes(body):
        if isinstance(n, (ast.Global, ast.Nonlocal)):
            glob |= set(n.names)
        elif isinstance(n, ast.Name) and isinstance(n.ctx, (ast.Store, ast.Del)):
            loc.add(n.id)
        elif isinstance(n, (ast.FunctionDef, ast.AsyncFunctionDef, ast.ClassDef)):
            loc.add(n.name)
        elif isinstance(n, (ast.Import, ast.ImportFrom)):
            for al in n.names:
                loc.add((al.asname or al.name).split(".")[0])
        elif isinstance(n, ast.ExceptHandler) and n.name:
            loc.add(n.name)
        elif isinstance(n, (ast.MatchAs, ast.MatchStar)) and n.name:
            loc.add(n.name)  # names captured by a match pattern
        elif isinstance(n, ast.MatchMapping) and n.rest:
            loc.add(n.rest)
    return loc - glob, glob


def walk_body_nodes(stmts):
    """All nodes in own scope (no nested function bodies; comprehension targets excluded)."""
    stack = list(stmts)
    while stack:
        n = stack.pop()
        yield n
        if isinstance(n, FUNC_NODES + (ast.ClassDef,)):
            continue
        if isinstance(n, (ast.ListComp, ast.SetComp, ast.GeneratorExp, ast.DictComp)):
            # comprehension has own scope for targets; only first iter evaluated outside
            for g in n.generators[:1]:
                stack.append(g.iter)
            continue
        stack.extend(ast.iter_child_nodes(n))


def definite_assignment(cfg, params):
    """Forward must-analysis: for each node, the set of names definitely assigned on entry."""
    allnames = set(params)
    gen = {}
    for n in cfg.nodes:
        gen[n] = assigned_names(n)
        allnames |= gen[n]
    IN = {n: set(allnames) for n in cfg.nodes}
    OUT = {n: set(allnames) for n in cfg.nodes}
    IN[cfg.entry] = set(params)
    OUT[cfg.entry] = set(params)
    changed = True
    while changed:
        changed = False
        for n in cfg.nodes:
            if n is cfg.entry:
                continue
            ps = cfg.pred[n]
            if ps:
                new = set.intersection(*[OUT[p] for p in ps])
            else:
                new = set(allnames)  # unreachable
            if new != IN[n]:
                IN[n] = new
                changed = True
            o = new | gen[n]
            # `del x`
            if n.kind == "stmt" and isinstance(n.ast, ast.Delete):
                for t in n.ast.targets:
                    if isinstance(t, ast.Name):
                        o = o - {t.id}
            if o != OUT[n]:
                OUT[n] = o
                changed = True
    return IN, OUT
