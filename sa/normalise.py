"""Source-level normalisations applied before shape-sensitive rules.

fuse_generators: a list comprehension (or list(...)) over a call of a *simple generator* of the package is the loop of
that generator with the comprehension's filter and element at the yield.  Rewriting it that way gives the canonical
`result = []; while ...: ...append(...)` form the loop recognisers understand, whatever helper the enumeration was
factored into.  The rewrite is purely syntactic and local to one function; when a construct is outside what it handles
it returns None and the caller reports the function as undecided (never as a violation).
"""
import ast
import copy

from .core import acopy, walk_local, ntext


def _is_generator(fn_node):
    for n in walk_local(fn_node):
        if isinstance(n, (ast.Yield, ast.YieldFrom)):
            return True
    return False


def _gen_target(P, f, call):
    """Func of the generator a call expression refers to (self.method(...) or module-level name(...)), or None."""
    if not isinstance(call, ast.Call):
        return None
    g = None
    if isinstance(call.func, ast.Attribute) and isinstance(call.func.value, ast.Name):
        owner = f
        while owner is not None and owner.cls is None:
            owner = owner.parent
        if owner is not None and owner.params and call.func.value.id == owner.params[0]:
            g = P.method(owner.cls, call.func.attr)
    elif isinstance(call.func, ast.Name):
        q = "%s.%s" % (f.module.name, call.func.id)
        g = P.funcs.get(q)
        if g is None and P.has_func(q):
            g = P.func(q)
    if g is None or g.is_lambda or not _is_generator(g.node):
        return None
    if any(isinstance(n, ast.YieldFrom) for n in walk_local(g.node)):
        return None
    if call.keywords or any(isinstance(a, ast.Starred) for a in call.args):
        return None
    return g


class _Rename(ast.NodeTransformer):
    def __init__(self, mapping):
        self.mapping = mapping

    def visit_Name(self, node):
        if node.id in self.mapping:
            new = self.mapping[node.id]
            if isinstance(new, str):
                return ast.copy_location(ast.Name(id=new, ctx=node.ctx), node)
            return acopy(new)
        return node


def _comp_parts(e):
    """(element, target, iter, [conditions]) of a single-generator list comprehension or list(<genexp>), else None."""
    if isinstance(e, ast.Call) and isinstance(e.func, ast.Name) and e.func.id == "list" and len(e.args) == 1 and not e.keywords:
        inner = e.args[0]
        if isinstance(inner, ast.GeneratorExp):
            e = inner
        else:
            # list(gen(...)) == [x for x in gen(...)]
            v = ast.Name(id="_g_item", ctx=ast.Load())
            return v, ast.Name(id="_g_item", ctx=ast.Store()), inner, []
    if isinstance(e, (ast.ListComp, ast.GeneratorExp)) and len(e.generators) == 1 and not e.generators[0].is_async:
        gen = e.generators[0]
        elt, target, it, ifs = e.elt, gen.target, gen.iter, list(gen.ifs)
        # a comprehension over a generator expression is one comprehension: (H for t in (E for u in G if F) if K) ==
        # (H[t:=E] for u in G if F if K[t:=E])
        while isinstance(it, ast.GeneratorExp) and len(it.generators) == 1 and not it.generators[0].is_async and isinstance(target, ast.Name):
            ig = it.generators[0]
            if not isinstance(ig.target, ast.Name):
                break
            t, u = target.id, ig.target.id
            outer_names = {n.id for x in [elt] + ifs for n in ast.walk(x) if isinstance(n, ast.Name)}
            if t != u and u in outer_names:
                break  # the inner variable would capture an outer name
            ren = _Rename({t: it.elt})
            elt = ren.visit(acopy(elt))
            ifs = list(ig.ifs) + [ren.visit(acopy(c)) for c in ifs]
            target, it = ig.target, ig.iter
        return elt, target, it, ifs
    return None


def _count_loads(node, name):
    return sum(1 for n in ast.walk(node) if isinstance(n, ast.Name) and n.id == name and isinstance(n.ctx, ast.Load))


def _has_call(node):
    return any(isinstance(n, (ast.Call, ast.Await, ast.Yield, ast.YieldFrom, ast.NamedExpr)) for n in ast.walk(node))


def split_lazy_rebinding(P, f, body):
    """`X = <lazy>; if C: X = (.. for .. in X ..); <use of X>` is `if C: <use of the composed pipeline> else: <use of the
    first>`: nothing of a generator pipeline runs before it is consumed, so substituting the definitions into the single
    consuming statement changes nothing.  Only top-level statement runs of exactly that shape are rewritten (tests without
    calls, X mentioned exactly once in each re-binding and in the consumer, and nowhere afterwards)."""
    out = list(body)
    changed = False
    i = 0
    while i < len(out):
        s = out[i]
        if not (isinstance(s, ast.Assign) and len(s.targets) == 1 and isinstance(s.targets[0], ast.Name)
                and (isinstance(s.value, ast.GeneratorExp) or _gen_target(P, f, s.value) is not None)):
            i += 1
            continue
        X = s.targets[0].id
        j = i + 1
        rebinds = []
        while j < len(out):
            t = out[j]
            if (isinstance(t, ast.If) and not t.orelse and len(t.body) == 1 and isinstance(t.body[0], ast.Assign) and len(t.body[0].targets) == 1
                    and isinstance(t.body[0].targets[0], ast.Name) and t.body[0].targets[0].id == X and isinstance(t.body[0].value, ast.GeneratorExp)
                    and _count_loads(t.body[0].value, X) == 1 and _count_loads(t.body[0].value.generators[0].iter, X) == 1
                    and not _has_call(t.test) and _count_loads(t.test, X) == 0):
                rebinds.append(t)
                j += 1
            else:
                break
        if j >= len(out) or not rebinds:
            i += 1
            continue
        use = out[j]
        if not (isinstance(use, (ast.Return, ast.Assign)) and use.value is not None and _count_loads(use.value, X) == 1):
            i += 1
            continue
        if isinstance(use, ast.Assign) and any(_count_loads(t, X) for t in use.targets):
            i += 1
            continue
        rest = out[j + 1:]
        if any(isinstance(n, ast.Name) and n.id == X for r in rest for n in ast.walk(r)):
            i += 1
            continue

        def build(k, cur):
            if k == len(rebinds):
                u = acopy(use)
                u.value = _Rename({X: cur}).visit(u.value)
                return [u]
            rb = rebinds[k]
            nxt = _Rename({X: cur}).visit(acopy(rb.body[0].value))
            node = ast.If(test=acopy(rb.test), body=build(k + 1, nxt), orelse=build(k + 1, cur))
            ast.copy_location(node, rb)
            return [node]

        new = build(0, s.value)
        for x in new:
            ast.fix_missing_locations(x)
        out = out[:i] + new + rest
        changed = True
        i += len(new)
    return out, changed


def fuse_generators(P, f):
    """Body of f with comprehension-over-generator results turned into explicit loops, or None if nothing applies /
    something is outside the handled shapes.  Handled: `return <comp>` and `name = <comp>`; the generator call may be
    written in place or bound once to a local that is used only as such an iterable."""
    if f.is_lambda:
        return None
    body = acopy(f.node.body)
    body, _ = split_lazy_rebinding(P, f, body)
    fake = ast.Module(body=body, type_ignores=[])
    # locals bound once to a generator call
    gens_by_name = {}
    stores = {}
    for n in ast.walk(fake):
        if isinstance(n, ast.Name) and isinstance(n.ctx, ast.Store):
            stores[n.id] = stores.get(n.id, 0) + 1
    for n in ast.walk(fake):
        if isinstance(n, ast.Assign) and len(n.targets) == 1 and isinstance(n.targets[0], ast.Name) and stores.get(n.targets[0].id) == 1:
            g = _gen_target(P, f, n.value)
            if g is not None:
                gens_by_name[n.targets[0].id] = (n, g)
    counter = [0]
    changed = [False]
    RES = "_g_result"
    all_returns = [n for n in ast.walk(fake) if isinstance(n, ast.Return)]

    def param_bindings(g, call, tag):
        """Statements binding the generator's parameters (renamed) to the call's arguments + the renaming map."""
        params = list(g.params)
        mapping = {}
        binds = []
        args = list(call.args)
        if g.cls is not None and params:
            mapping[params[0]] = call.func.value  # self
            params = params[1:]
        if len(args) > len(params):
            return None, None
        for p_, a in zip(params, args):
            new = "_g%s_%s" % (tag, p_)
            mapping[p_] = new
            binds.append(ast.Assign(targets=[ast.Name(id=new, ctx=ast.Store())], value=a, lineno=call.lineno, col_offset=0))
        for p_ in params[len(args):]:
            if p_ not in g.defaults:
                return None, None
            new = "_g%s_%s" % (tag, p_)
            mapping[p_] = new
            binds.append(ast.Assign(targets=[ast.Name(id=new, ctx=ast.Store())], value=acopy(g.defaults[p_]), lineno=call.lineno, col_offset=0))
        for n in walk_local(g.node):
            if isinstance(n, ast.Name) and isinstance(n.ctx, ast.Store) and n.id not in mapping:
                mapping[n.id] = "_g%s_%s" % (tag, n.id)
        return binds, mapping

    def loop_for(g, mapping, elt, target, ifs, resname):
        """The generator's body with each `yield X` replaced by `target = X; if ifs: resname.append(elt)`."""
        gbody = acopy([s for s in g.node.body if not (isinstance(s, ast.Expr) and isinstance(s.value, ast.Constant))])
        ok = [True]

        class Y(ast.NodeTransformer):
            def visit_FunctionDef(self, node):
                return node

            def visit_Lambda(self, node):
                return node

            def visit_Expr(self, node):
                if isinstance(node.value, ast.Yield):
                    val = node.value.value if node.value.value is not None else ast.Constant(value=None)
                    asg = ast.Assign(targets=[acopy(target)], value=val, lineno=node.lineno, col_offset=0)
                    app = ast.Expr(value=ast.Call(func=ast.Attribute(value=ast.Name(id=resname, ctx=ast.Load()), attr="append", ctx=ast.Load()), args=[acopy(elt)], keywords=[]), lineno=node.lineno, col_offset=0)
                    if ifs:
                        test = ifs[0] if len(ifs) == 1 else ast.BoolOp(op=ast.And(), values=[acopy(x) for x in ifs])
                        return [asg, ast.If(test=acopy(test), body=[app], orelse=[], lineno=node.lineno, col_offset=0)]
                    return [asg, app]
                return self.generic_visit(node)

            def visit_Yield(self, node):
                ok[0] = False  # a yield used as an expression
                return node

            def visit_Return(self, node):
                ok[0] = False  # early termination of the generator: not handled
                return node

        out = []
        for s in gbody:
            r = Y().visit(s)
            out.extend(r if isinstance(r, list) else [r])
        if not ok[0]:
            return None
        ren = _Rename(mapping)
        return [ast.fix_missing_locations(ren.visit(s)) for s in out]

    hoisted = {}  # local name -> (binds, mapping, g)
    for name, (asg, g) in gens_by_name.items():
        counter[0] += 1
        binds, mapping = param_bindings(g, asg.value, counter[0])
        if binds is None:
            return None
        hoisted[name] = (binds, mapping, g)

    def rewrite(stmts):
        out = []
        for s in stmts:
            if isinstance(s, ast.Assign) and len(s.targets) == 1 and isinstance(s.targets[0], ast.Name) and s.targets[0].id in hoisted and gens_by_name[s.targets[0].id][0] is s:
                out.extend(hoisted[s.targets[0].id][0])
                changed[0] = True
                continue
            comp = None
            if isinstance(s, ast.Return) and s.value is not None:
                comp = _comp_parts(s.value)
                resname = RES
            elif isinstance(s, ast.Assign) and len(s.targets) == 1 and isinstance(s.targets[0], ast.Name):
                comp = _comp_parts(s.value)
                resname = s.targets[0].id
            if comp is not None:
                elt, target, it, ifs = comp
                pre = []
                if isinstance(it, ast.Name) and it.id in hoisted:
                    binds, mapping, g = hoisted[it.id]
                else:
                    g = _gen_target(P, f, it)
                    if g is None:
                        out.append(s)
                        continue
                    counter[0] += 1
                    pre, mapping = param_bindings(g, it, counter[0])
                    if pre is None:
                        return None
                loop = loop_for(g, mapping, elt, target, ifs, resname)
                if loop is None:
                    return None
                changed[0] = True
                if not isinstance(s, ast.Return):
                    out.append(ast.Assign(targets=[ast.Name(id=resname, ctx=ast.Store())], value=ast.List(elts=[], ctx=ast.Load()), lineno=s.lineno, col_offset=0))
                out.extend(pre)
                out.extend(loop)
                if isinstance(s, ast.Return):
                    out.append(ast.Return(value=ast.Name(id=RES, ctx=ast.Load()), lineno=s.lineno, col_offset=0))
                continue
            for fld in ("body", "orelse", "finalbody"):
                sub = getattr(s, fld, None)
                if isinstance(sub, list) and sub and isinstance(sub[0], ast.stmt):
                    r = rewrite(sub)
                    if r is None:
                        return None
                    setattr(s, fld, r)
            out.append(s)
        return out

    new = rewrite(body)
    if new is None or not changed[0]:
        return None
    # a remaining use of a hoisted generator variable means it is consumed in a way that was not rewritten
    for n in ast.walk(ast.Module(body=new, type_ignores=[])):
        if isinstance(n, ast.Name) and n.id in hoisted and isinstance(n.ctx, ast.Load):
            return None
    uses_res = any(isinstance(n, ast.Name) and n.id == RES for n in ast.walk(ast.Module(body=new, type_ignores=[])))
    if uses_res:
        new = [ast.Assign(targets=[ast.Name(id=RES, ctx=ast.Store())], value=ast.List(elts=[], ctx=ast.Load()), lineno=f.node.lineno, col_offset=0)] + new
        # every return must hand back the fused result, otherwise the hoisted initialisation changes nothing but the
        # recognisers would be misled
    for s in new:
        ast.fix_missing_locations(s)
    mod = ast.Module(body=new, type_ignores=[])
    for n in ast.walk(mod):
        for c in ast.iter_child_nodes(n):
            c._parent = n
    return new


def _is_true(e):
    return isinstance(e, ast.Constant) and e.value in (True, 1)


def _negate(e):
    if isinstance(e, ast.UnaryOp) and isinstance(e.op, ast.Not):
        return acopy(e.operand)
    return ast.UnaryOp(op=ast.Not(), operand=acopy(e))


def rotate_while_true(body):
    """Loop-and-a-half normalisation.  In a statement list, a loop

        while True:  P;  if C1: break;  [if C2: break; ...]  B

    (P simple statements, the breaks directly in the loop body) is the loop

        P;  while not C1 [and not C2 ...]:  B';  P

    with every `continue` of that loop in B replaced by `P; continue`.  Returns a rewritten copy of `body` and the number
    of loops rotated (0: nothing to do)."""
    body = acopy(body)
    count = [0]

    def own_continues(stmts, P):
        out = []
        for s in stmts:
            if isinstance(s, ast.Continue):
                out.extend(acopy(P))
                out.append(s)
                continue
            if isinstance(s, (ast.While, ast.For, ast.FunctionDef, ast.AsyncFunctionDef, ast.ClassDef)):
                out.append(s)  # inner loops own their continues
                continue
            for fld in ("body", "orelse", "finalbody", "handlers"):
                sub = getattr(s, fld, None)
                if isinstance(sub, list) and sub and isinstance(sub[0], ast.stmt):
                    setattr(s, fld, own_continues(sub, P))
                elif isinstance(sub, list) and sub and isinstance(sub[0], ast.ExceptHandler):
                    for h in sub:
                        h.body = own_continues(h.body, P)
            out.append(s)
        return out

    def visit(stmts):
        out = []
        for s in stmts:
            for fld in ("body", "orelse", "finalbody"):
                sub = getattr(s, fld, None)
                if isinstance(sub, list) and sub and isinstance(sub[0], ast.stmt):
                    setattr(s, fld, visit(sub))
            if isinstance(s, ast.While) and _is_true(s.test) and not s.orelse:
                i = 0
                while i < len(s.body) and isinstance(s.body[i], (ast.Assign, ast.AugAssign, ast.Expr)) and not any(isinstance(x, (ast.Yield, ast.YieldFrom)) for x in ast.walk(s.body[i])):
                    i += 1
                P = s.body[:i]
                j = i
                conds = []
                while j < len(s.body) and isinstance(s.body[j], ast.If) and not s.body[j].orelse and len(s.body[j].body) == 1 and isinstance(s.body[j].body[0], ast.Break):
                    conds.append(s.body[j].test)
                    j += 1
                if conds:
                    B = s.body[j:]
                    tests = [_negate(c) for c in conds]
                    test = tests[0] if len(tests) == 1 else ast.BoolOp(op=ast.And(), values=tests)
                    newbody = own_continues(B, P) + acopy(P)
                    if not newbody:
                        newbody = [ast.Pass()]
                    w = ast.While(test=test, body=newbody, orelse=[])
                    ast.copy_location(w, s)
                    out.extend(P)
                    out.append(w)
                    count[0] += 1
                    continue
            out.append(s)
        return out

    new = visit(body)
    mod = ast.Module(body=new, type_ignores=[])
    ast.fix_missing_locations(mod)
    for n in ast.walk(mod):
        for c in ast.iter_child_nodes(n):
            c._parent = n
    return new, count[0]


def _only_called(fn_node, name, lam):
    """Every use of `name` in the function is as the callee of a call with exactly the lambda's positional parameters."""
    la = lam.args
    if la.vararg or la.kwarg or la.kwonlyargs or la.defaults or la.posonlyargs:
        return False
    called = set()
    for n in ast.walk(fn_node):
        if isinstance(n, ast.Call) and isinstance(n.func, ast.Name) and n.func.id == name:
            if n.keywords or len(n.args) != len(la.args) or any(isinstance(a, ast.Starred) for a in n.args):
                return False
            called.add(id(n.func))
    return all(id(n) in called for n in ast.walk(fn_node) if isinstance(n, ast.Name) and n.id == name)


class _Beta(ast.NodeTransformer):
    """f(a, b) with f bound to `lambda x, y: E` becomes E[x:=a, y:=b]."""

    def __init__(self, lams):
        self.lams = lams

    def visit_Call(self, node):
        self.generic_visit(node)
        if isinstance(node.func, ast.Name) and node.func.id in self.lams:
            lam = self.lams[node.func.id]
            m = {p.arg: a for p, a in zip(lam.args.args, node.args)}
            return ast.copy_location(_Rename(m).visit(acopy(lam.body)), node)
        return node


def inline_helpers(P, f, depth=2, only_private=True, local_objects=False):
    """Body of f with calls to simple helper methods/functions of the package inlined, so that "extract method" leaves the
    shape-sensitive recognisers something to recognise.  A call is inlined when it is the whole right-hand side of an
    assignment, an expression statement or a return value; the callee is `self.<m>(...)` on f's own class or a module-level
    function of f's module; it is not a generator, not recursive, takes only positional / keyword arguments matching its
    parameters, and returns only at its very end (or never).  Returns (new_body, n_inlined); the body is a deep copy with
    `_parent` links."""
    body = acopy(f.node.body)
    count = [0]
    serial = [0]
    # locals bound exactly once to a fresh instance of a class of f's module, constructed without arguments
    local_objs = {}
    if local_objects:
        stores = {}
        for n in walk_local(f.node):
            if isinstance(n, ast.Name) and isinstance(n.ctx, ast.Store):
                stores[n.id] = stores.get(n.id, 0) + 1
        for n in walk_local(f.node):
            if isinstance(n, ast.Assign) and len(n.targets) == 1 and isinstance(n.targets[0], ast.Name) and stores.get(n.targets[0].id) == 1 \
                    and isinstance(n.value, ast.Call) and isinstance(n.value.func, ast.Name) and not n.value.args and not n.value.keywords:
                k = P.classes.get("%s.%s" % (f.module.name, n.value.func.id))
                if k is not None:
                    local_objs[n.targets[0].id] = k

    def callee_of(call):
        if not isinstance(call, ast.Call) or any(isinstance(a, ast.Starred) for a in call.args) or any(k.arg is None for k in call.keywords):
            return None, None
        g = None
        recv = None
        nested = False
        if isinstance(call.func, ast.Attribute) and isinstance(call.func.value, ast.Name):
            owner = f
            while owner is not None and owner.cls is None:
                owner = owner.parent
            if owner is not None and owner.params and call.func.value.id == owner.params[0]:
                g = P.method(owner.cls, call.func.attr)
                recv = call.func.value
            elif call.func.value.id in local_objs:
                # a method of an object this function created itself (`w = K(); w.m(...)`): inlined whatever its name
                g = P.method(local_objs[call.func.value.id], call.func.attr)
                recv = call.func.value
                nested = True
        elif isinstance(call.func, ast.Name):
            # a function defined inside f (once, at the top level of its body) comes first: it shadows a module-level one
            local = [g_ for g_ in P.funcs.values() if g_.parent is f and not g_.is_lambda and g_.name == call.func.id]
            if len(local) == 1 and any(s_ is local[0].node for s_ in f.node.body) and sum(1 for n in walk_local(f.node) if isinstance(n, ast.Name) and n.id == call.func.id and isinstance(n.ctx, ast.Store)) == 0:
                g = local[0]
                nested = True
            elif not local:
                q = "%s.%s" % (f.module.name, call.func.id)
                g = P.funcs.get(q)
        if g is None or g is f or g.is_lambda or _is_generator(g.node) or g.vararg or g.kwarg:
            return None, None
        if getattr(g, "is_property", False) or g.is_classmethod:
            return None, None
        if only_private and not nested and not g.name.startswith("_"):
            return None, None  # public helpers are part of the vocabulary the rules hook (computeRequiredWidth, ...)
        stmts = [s for s in g.node.body if not (isinstance(s, ast.Expr) and isinstance(s.value, ast.Constant))]
        rets = [n for n in walk_local(g.node) if isinstance(n, ast.Return)]
        if len(rets) > 1 or (rets and rets[0] is not stmts[-1]):
            return None, None
        # no recursion back into f or itself
        for n in walk_local(g.node):
            if isinstance(n, ast.Call) and isinstance(n.func, ast.Attribute) and n.func.attr in (g.name, f.name):
                return None, None
            if isinstance(n, (ast.Global, ast.Nonlocal)):
                return None, None
        return g, recv

    def expand(call, g, recv, result_target):
        serial[0] += 1
        tag = serial[0]
        params = list(g.params)
        mapping = {}
        pre = []
        if g.cls is not None and params and not g.is_staticmethod:
            mapping[params[0]] = recv if recv is not None else ast.Name(id="self", ctx=ast.Load())
            params = params[1:]
        given = {}
        lam_subst = {}
        for p_, a in zip(params, call.args):
            given[p_] = a
        if len(call.args) > len(params):
            return None
        for k in call.keywords:
            if k.arg not in params or k.arg in given:
                return None
            given[k.arg] = k.value
        for p_ in params:
            if p_ in given:
                v = given[p_]
            elif p_ in g.defaults:
                v = acopy(g.defaults[p_])
            else:
                return None
            assigned_in_callee = any(isinstance(n, ast.Name) and n.id == p_ and isinstance(n.ctx, ast.Store) for n in walk_local(g.node))
            if isinstance(v, ast.Name) and not assigned_in_callee:
                mapping[p_] = v.id  # a plain name passed for a parameter the helper never rebinds: no copy needed
                continue
            new = "_h%d_%s" % (tag, p_)
            mapping[p_] = new
            if isinstance(v, ast.Lambda) and not assigned_in_callee and _only_called(g.node, p_, v):
                lam_subst[new] = v  # a lambda passed for a parameter that is only ever called: beta-reduce the calls
                continue
            pre.append(ast.Assign(targets=[ast.Name(id=new, ctx=ast.Store())], value=acopy(v), lineno=call.lineno, col_offset=0))
        # a helper that ends in `return <its own local>` assigned to a plain name: the local *is* that name
        last = [s_ for s_ in g.node.body if not (isinstance(s_, ast.Expr) and isinstance(s_.value, ast.Constant))]
        last = last[-1] if last else None
        if isinstance(result_target, ast.Name) and isinstance(last, ast.Return) and isinstance(last.value, ast.Name) and last.value.id not in mapping:
            mapping[last.value.id] = result_target.id
        for n in walk_local(g.node):
            if isinstance(n, ast.Name) and isinstance(n.ctx, ast.Store) and n.id not in mapping:
                mapping[n.id] = "_h%d_%s" % (tag, n.id)
        stmts = acopy([s for s in g.node.body if not (isinstance(s, ast.Expr) and isinstance(s.value, ast.Constant))])
        ren = _Rename(mapping)
        out = list(pre)
        for s in stmts:
            s = ren.visit(s)
            if lam_subst:
                s = _Beta(lam_subst).visit(s)
            if isinstance(s, ast.Return):
                if result_target is not None:
                    val = s.value if s.value is not None else ast.Constant(value=None)
                    if isinstance(result_target, ast.Name) and isinstance(val, ast.Name) and val.id == result_target.id:
                        continue  # x = x
                    out.append(ast.Assign(targets=[result_target], value=val, lineno=call.lineno, col_offset=0))
                elif s.value is not None:
                    out.append(ast.Expr(value=s.value, lineno=call.lineno, col_offset=0))
            else:
                out.append(s)
        if not any(isinstance(s, ast.Return) for s in stmts) and result_target is not None:
            out.append(ast.Assign(targets=[result_target], value=ast.Constant(value=None), lineno=call.lineno, col_offset=0))
        count[0] += 1
        return out

    def visit(stmts, level):
        out = []
        for s in stmts:
            for fld in ("body", "orelse", "finalbody"):
                sub = getattr(s, fld, None)
                if isinstance(sub, list) and sub and isinstance(sub[0], ast.stmt):
                    setattr(s, fld, visit(sub, level))
            rep = None
            if isinstance(s, ast.Expr):
                g, recv = callee_of(s.value)
                if g is not None:
                    rep = expand(s.value, g, recv, None)
            elif isinstance(s, ast.Assign) and len(s.targets) == 1 and isinstance(s.targets[0], ast.Name) and s.targets[0].id in local_objs and isinstance(s.value, ast.Call) \
                    and isinstance(s.value.func, ast.Name) and P.classes.get("%s.%s" % (f.module.name, s.value.func.id)) is local_objs[s.targets[0].id]:
                # `w = K()`: the constructor's body with the new object in the role of self (its fields become locals below)
                init = P.method(local_objs[s.targets[0].id], "__init__")
                if init is None:
                    rep = []
                elif len(init.params) == 1 and not init.vararg and not init.kwarg and not _is_generator(init.node) and not any(isinstance(n_, ast.Return) and n_.value is not None for n_ in walk_local(init.node)):
                    rep = expand(s.value, init, ast.Name(id=s.targets[0].id, ctx=ast.Load()), None)
                if rep is not None:
                    objs_built.add(s.targets[0].id)
            elif isinstance(s, ast.Assign) and len(s.targets) == 1:
                g, recv = callee_of(s.value)
                if g is not None:
                    rep = expand(s.value, g, recv, s.targets[0])
            elif isinstance(s, ast.Return) and s.value is not None:
                g, recv = callee_of(s.value)
                if g is not None:
                    tmp = ast.Name(id="_h_result%d" % (serial[0] + 1), ctx=ast.Store())
                    rep = expand(s.value, g, recv, tmp)
                    if rep is not None:
                        rep.append(ast.Return(value=ast.Name(id=tmp.id, ctx=ast.Load()), lineno=s.lineno, col_offset=0))
            if rep is not None:
                if level < depth:
                    rep = visit(rep, level + 1)
                out.extend(rep)
            else:
                out.append(s)
        return out

    objs_built = set()
    new = visit(body, 1)
    # scalar replacement: an object of this function all of whose uses are now `obj.field` is a bundle of locals
    for nm in sorted(objs_built):
        uses = [n for s_ in new for n in ast.walk(s_) if isinstance(n, ast.Name) and n.id == nm]
        mod_ = ast.Module(body=new, type_ignores=[])
        for n in ast.walk(mod_):
            for c in ast.iter_child_nodes(n):
                if not isinstance(c, (ast.expr_context, ast.operator, ast.boolop, ast.unaryop, ast.cmpop)):
                    c._parent = n
        if uses and all(isinstance(getattr(u, "_parent", None), ast.Attribute) and getattr(u, "_parent").value is u for u in uses):
            class _SR(ast.NodeTransformer):
                def visit_Attribute(self, node):
                    self.generic_visit(node)
                    if isinstance(node.value, ast.Name) and node.value.id == nm:
                        return ast.copy_location(ast.Name(id="%s__%s" % (nm, node.attr), ctx=node.ctx), node)
                    return node

            new = [_SR().visit(s_) for s_ in new]
            count[0] += 1
    if count[0]:
        # a local function all of whose calls were inlined is dead
        loads = {n.id for s_ in new if not isinstance(s_, (ast.FunctionDef, ast.AsyncFunctionDef)) for n in ast.walk(s_) if isinstance(n, ast.Name) and isinstance(n.ctx, ast.Load)}
        new = [s_ for s_ in new if not (isinstance(s_, (ast.FunctionDef, ast.AsyncFunctionDef)) and s_.name not in loads)]
    mod = ast.Module(body=new, type_ignores=[])
    ast.fix_missing_locations(mod)
    for n in ast.walk(mod):
        for c in ast.iter_child_nodes(n):
            c._parent = n
    return new, count[0]


_MATCH_CACHE = {}


def desugar_match(stmt):
    """`match subject: case ...` as an equivalent list of statements built from if/elif, for the patterns that have a
    direct boolean reading: literal and constant-name values, None/True/False, `A | B`, the wildcard, a bare capture, a
    class pattern without sub-patterns, and fixed-length sequences of those.  A guard is supported on cases that bind no
    name.  Returns a list of statements, or None when a case is outside this fragment (the statement then stays
    unknown to the analyses: undecided, never a violation).  The result is cached per Match node so that CFG and
    evaluator see the same objects."""
    if id(stmt) in _MATCH_CACHE:
        return _MATCH_CACHE[id(stmt)][1]
    pre = []
    if isinstance(stmt.subject, ast.Name):
        subj = stmt.subject
    else:
        name = "_match_subject_%d" % stmt.lineno
        pre.append(ast.Assign(targets=[ast.Name(id=name, ctx=ast.Store())], value=stmt.subject, lineno=stmt.lineno, col_offset=0))
        subj = ast.Name(id=name, ctx=ast.Load())

    def S():
        return acopy(subj) if not isinstance(subj, ast.Name) else ast.Name(id=subj.id, ctx=ast.Load())

    def pat(p, target):
        """(condition AST or True, [binding statements]) for pattern p matched against expression-producer target()."""
        if isinstance(p, ast.MatchValue):
            return ast.Compare(left=target(), ops=[ast.Eq()], comparators=[acopy(p.value)]), []
        if isinstance(p, ast.MatchSingleton):
            return ast.Compare(left=target(), ops=[ast.Is()], comparators=[ast.Constant(value=p.value)]), []
        if isinstance(p, ast.MatchOr):
            conds = []
            for q in p.patterns:
                c, b = pat(q, target)
                if b:
                    raise ValueError("bindings in alternatives")
                if c is True:
                    return True, []
                conds.append(c)
            return ast.BoolOp(op=ast.Or(), values=conds), []
        if isinstance(p, ast.MatchAs):
            if p.pattern is None:
                if p.name is None:
                    return True, []
                return True, [ast.Assign(targets=[ast.Name(id=p.name, ctx=ast.Store())], value=target(), lineno=stmt.lineno, col_offset=0)]
            c, b = pat(p.pattern, target)
            return c, b + [ast.Assign(targets=[ast.Name(id=p.name, ctx=ast.Store())], value=target(), lineno=stmt.lineno, col_offset=0)]
        if isinstance(p, ast.MatchClass) and not p.patterns and not p.kwd_patterns:
            return ast.Call(func=ast.Name(id="isinstance", ctx=ast.Load()), args=[target(), acopy(p.cls)], keywords=[]), []
        if isinstance(p, ast.MatchSequence) and not any(isinstance(q, ast.MatchStar) for q in p.patterns):
            n = len(p.patterns)
            conds = [
                ast.Call(func=ast.Name(id="isinstance", ctx=ast.Load()), args=[target(), ast.Tuple(elts=[ast.Name(id="list", ctx=ast.Load()), ast.Name(id="tuple", ctx=ast.Load())], ctx=ast.Load())], keywords=[]),
                ast.Compare(left=ast.Call(func=ast.Name(id="len", ctx=ast.Load()), args=[target()], keywords=[]), ops=[ast.Eq()], comparators=[ast.Constant(value=n)]),
            ]
            binds = []
            for i, q in enumerate(p.patterns):
                c, b = pat(q, lambda i=i: ast.Subscript(value=target(), slice=ast.Constant(value=i), ctx=ast.Load()))
                if c is not True:
                    conds.append(c)
                binds += b
            return ast.BoolOp(op=ast.And(), values=conds), binds
        raise ValueError("unsupported pattern %s" % type(p).__name__)

    try:
        chain = None  # built back to front
        tail = []
        for case in reversed(stmt.cases):
            c, binds = pat(case.pattern, S)
            if case.guard is not None:
                if binds:
                    raise ValueError("guard on a binding pattern")
                c = acopy(case.guard) if c is True else ast.BoolOp(op=ast.And(), values=[c, acopy(case.guard)])
            body = binds + list(case.body)
            if c is True:
                tail = body
            else:
                node = ast.If(test=c, body=body, orelse=tail, lineno=case.pattern.lineno, col_offset=0)
                tail = [node]
        out = pre + tail
    except ValueError:
        _MATCH_CACHE[id(stmt)] = (stmt, None)
        return None
    mod = ast.Module(body=out, type_ignores=[])
    ast.fix_missing_locations(mod)
    parent = getattr(stmt, "_parent", None)
    for n in ast.walk(mod):
        for ch in ast.iter_child_nodes(n):
            ch._parent = n
    for s in out:
        s._parent = parent
    _MATCH_CACHE[id(stmt)] = (stmt, out)
    return out


# ---------------------------------------------------------------------------
# itertools pipelines that spell an accumulate-while loop
# ---------------------------------------------------------------------------

def _it_call(e, name):
    """Is e a call of itertools.<name> / <name> (imported from itertools)?  The spelling is enough here: the rewrite is only
    used on generator bodies whose every other statement is inspected by the caller."""
    if not isinstance(e, ast.Call):
        return False
    f = e.func
    if isinstance(f, ast.Attribute) and f.attr == name and isinstance(f.value, ast.Name) and f.value.id in ("itertools", "it"):
        return True
    return isinstance(f, ast.Name) and f.id == name


def desugar_itertools(body):
    """`yield from takewhile(lambda r: C(r), accumulate(repeat(STEP), initial=START))` (with the source possibly bound to a
    single-assignment local first) is the loop `r = START; while C(r): yield r; r = r + STEP`.  Returns (new body, rewrites)."""
    binds = {}
    for s in body:
        if isinstance(s, ast.Assign) and len(s.targets) == 1 and isinstance(s.targets[0], ast.Name):
            binds.setdefault(s.targets[0].id, []).append(s)
    out = []
    n = 0
    drop = set()
    for s in body:
        e = s.value.value if isinstance(s, ast.Expr) and isinstance(s.value, ast.YieldFrom) else None
        new = None
        if e is not None and _it_call(e, "takewhile") and len(e.args) == 2 and not e.keywords and isinstance(e.args[0], ast.Lambda):
            lam, src = e.args
            srcdef = None
            if isinstance(src, ast.Name) and len(binds.get(src.id, [])) == 1:
                srcdef = binds[src.id][0]
                src = srcdef.value
            la = lam.args
            if (len(la.args) == 1 and not la.defaults and not la.vararg and not la.kwarg and not la.kwonlyargs
                    and _it_call(src, "accumulate") and len(src.args) == 1 and [k.arg for k in src.keywords] == ["initial"]
                    and _it_call(src.args[0], "repeat") and len(src.args[0].args) == 1 and not src.args[0].keywords):
                var = la.args[0].arg
                start = src.keywords[0].value
                step = src.args[0].args[0]
                new = [
                    ast.Assign(targets=[ast.Name(id=var, ctx=ast.Store())], value=acopy(start)),
                    ast.While(test=acopy(lam.body), body=[
                        ast.Expr(value=ast.Yield(value=ast.Name(id=var, ctx=ast.Load()))),
                        ast.AugAssign(target=ast.Name(id=var, ctx=ast.Store()), op=ast.Add(), value=acopy(step)),
                    ], orelse=[]),
                ]
                for x in new:
                    ast.copy_location(x, s)
                    ast.fix_missing_locations(x)
                if srcdef is not None:
                    drop.add(id(srcdef))
                n += 1
        out.append((s, new))
    res = []
    for s, new in out:
        if id(s) in drop:
            continue
        res.extend(new if new is not None else [s])
    return res, n
