"""C11 — export succeeds on every documented input."""
import ast
import re

from .util import *
from ..cfg import CFG, definite_assignment, used_names, assigned_names, local_names
from . import state as statepack

EXPLANATION = (
    "Totality cannot be proved for Python; decided is that each exception class named by the property's mechanisms "
    "cannot arise on the call graph of TimelineSVG/TimelineTex construction and export (plus the public LinearScale "
    "API, for numeric data): a parameter defaulting to None is never dereferenced without a dominating None test "
    "(C11.NONE, edge-sensitive must-analysis on the CFG); every division / modulo / log with a non-constant operand is "
    "discharged by a dominating non-zero guard or by a table entry with a re-verified reason (C11.DIVZERO, "
    "C11.LOGDOM); explicit raise only for undocumented option values (C11.RAISE); arguments of range() are ints "
    "(C16.RANGEINT) and calendar field replacement is confined to unit boundaries (C17.CALFIELD); LaTeX is reached only "
    "under `width is None and text` (C11.NOLATEX); caller-chosen colour lists are indexed modulo their length "
    "(C11.INDEX); every local is definitely assigned before use (GEN.DEFINED), every attribute read through self is "
    "assigned somewhere in the package (GEN.ATTRS), option dicts are DEFAULT_OPTIONS overridden by the caller's and "
    "every constant key read exists in the defaults (GEN.OPTS-MERGE, C11.OPTKEYS), %-formats get as many arguments as "
    "conversions (GEN.FORMAT); sibling implementations of the interval and scale interfaces define every method that "
    "is called on either (C11.SIBLINGS); every call-graph cycle is listed and its stack demand for a 200-label cluster "
    "stays below the interpreter's default limit of 1000 frames (C11.RECURSION; the cycles themselves are the known "
    "finding K1); a degenerate domain maps every value to the start of the range (C11.DEGENERATE); uni2tex is total "
    "(C19 rules).  Exceptions of other classes (e.g. KeyError from a user timeFn) are not decided."
    "  Crash lints (rules/crash.py), each firing only on a construct that raises for every input reaching it: GEN.TYPED-ATTRS, GEN.SUPERINIT, GEN.STRARITH, GEN.BUILTIN-ARGS, GEN.DICTKEY, GEN.ATTR-ORDER (attribute typestate of export), GEN.LOCALNONE (with the witness idiom of mostViolated), GEN.SEQINDEX (constant subscripts outside a shape known on that path of the emitter runs), C11.HEXTOTAL / C11.INT2NAME (crash-only readings of the colour and naming helpers), C11.GEOMSET, C11.DATUMKEYS; C11.OPTKEYS also covers removeOverlap's reads of its caller's dict; discharge-table entries that name a guard re-verify it."
    "  assert statements are evaluated on the value-numbered body: shown true -> discharged, refuted on some path -> C11.RAISE, neither -> accepted as the author's invariant (noted); `raise NotImplementedError` as the whole body of a method every leaf subclass overrides is an abstract marker; C07.INIT-ORDER is part of this check (the axis is built from the normalised data)."
)
ASSUMPTIONS = ["documented input contracts: density > 0, tick count >= 1, non-empty colour lists, positive weights/scales", "default recursion limit 1000, conflict clusters <= 200 labels"]

ROOTS = ["timeline.TimelineSVG.__init__", "timeline.TimelineSVG.export", "timeline.TimelineTex.__init__", "timeline.TimelineTex.export"]
LINEAR_API = ["scale.LinearScale.__init__", "scale.LinearScale.__call__", "scale.LinearScale.scale", "scale.LinearScale.invert", "scale.LinearScale.domain", "scale.LinearScale.range", "scale.LinearScale.clamp", "scale.LinearScale.nice", "scale.LinearScale.ticks", "scale.LinearScale.tickFormat", "scale.LinearScale.copy"]
LATEX_ONLY = {"tex.text_dimensions", "tex.get_latex_dims", "tex.compile_latex", "tex.build_latex_doc", "tex.get_latex_fontdoc", "timeline.Item.get_text_dimensions"}


def export_reach(ctx):
    def build():
        P = ctx.P
        roots = [r for r in ROOTS + LINEAR_API if r in P.funcs]
        for r in ROOTS:
            P.func(r)
        reach = ctx.cg.reachable(roots, stop=LATEX_ONLY)
        for f in list(P.funcs.values()):
            t = f
            while t.parent is not None:
                t = t.parent
            if t.qual in reach and f.qual not in LATEX_ONLY:
                reach.add(f.qual)
        # generators used by the linear ticks
        return reach

    return ctx.get("export_reach", build)


# ---------------------------------------------------------------------------
# NONE
# ---------------------------------------------------------------------------

def _none_test(t):
    """(name, edge label on which name is known not None) for simple tests, else []."""
    out = []
    if isinstance(t, ast.Compare) and len(t.ops) == 1 and isinstance(t.left, ast.Name) and isinstance(t.comparators[0], ast.Constant) and t.comparators[0].value is None:
        if isinstance(t.ops[0], (ast.Is, ast.Eq)):
            out.append((t.left.id, False))
        elif isinstance(t.ops[0], (ast.IsNot, ast.NotEq)):
            out.append((t.left.id, True))
    elif isinstance(t, ast.Name):
        out.append((t.id, True))
    elif isinstance(t, ast.UnaryOp) and isinstance(t.op, ast.Not):
        for n, lab in _none_test(t.operand):
            out.append((n, not lab))
    elif isinstance(t, ast.BoolOp) and isinstance(t.op, ast.And):
        for v in t.values:
            for n, lab in _none_test(v):
                if lab is True:
                    out.append((n, True))
    elif isinstance(t, ast.BoolOp) and isinstance(t.op, ast.Or):
        for v in t.values:
            for n, lab in _none_test(v):
                if lab is False:
                    out.append((n, False))
    return out


def _deref_uses(node_ast, name, guarded=frozenset()):
    """Dereferencing uses of `name` inside an AST (expression/statement), honouring conditional expressions
    and short-circuit tests on the name itself."""
    out = []

    def visit(n, safe):
        if isinstance(n, (ast.FunctionDef, ast.AsyncFunctionDef, ast.Lambda, ast.ClassDef)):
            return
        if isinstance(n, ast.IfExp):
            t = _none_test(n.test)
            visit(n.test, safe)
            visit(n.body, safe or any(nm == name and lab is True for nm, lab in t))
            visit(n.orelse, safe or any(nm == name and lab is False for nm, lab in t))
            return
        if isinstance(n, ast.BoolOp):
            s = safe
            for v in n.values:
                visit(v, s)
                t = _none_test(v)
                if isinstance(n.op, ast.And) and any(nm == name and lab is True for nm, lab in t):
                    s = True
                if isinstance(n.op, ast.Or) and any(nm == name and lab is False for nm, lab in t):
                    s = True
            return
        if not safe:
            if isinstance(n, (ast.Attribute, ast.Subscript)) and isinstance(n.value, ast.Name) and n.value.id == name:
                out.append((n, "`%s`" % ntext(n)[:50]))
            elif isinstance(n, ast.Call) and isinstance(n.func, ast.Name) and n.func.id == name:
                out.append((n, "call `%s`" % ntext(n)[:50]))
            elif isinstance(n, ast.Compare):
                for op, c in zip(n.ops, n.comparators):
                    if isinstance(op, (ast.In, ast.NotIn)) and isinstance(c, ast.Name) and c.id == name:
                        out.append((n, "`%s`" % ntext(n)[:50]))
                    if isinstance(op, (ast.Lt, ast.LtE, ast.Gt, ast.GtE)) and ((isinstance(c, ast.Name) and c.id == name) or (isinstance(n.left, ast.Name) and n.left.id == name)):
                        out.append((n, "ordering comparison `%s`" % ntext(n)[:50]))
            elif isinstance(n, ast.Call) and isinstance(n.func, ast.Name) and n.func.id in ("len", "iter", "list", "sorted", "enumerate", "map", "zip", "min", "max", "sum") and any(isinstance(a, ast.Name) and a.id == name for a in n.args[-1:]):
                out.append((n, "`%s`" % ntext(n)[:50]))
            elif isinstance(n, ast.BinOp) and not isinstance(n.op, ast.Mod) and any(isinstance(x, ast.Name) and x.id == name for x in (n.left, n.right)):
                out.append((n, "arithmetic `%s`" % ntext(n)[:50]))
            elif isinstance(n, ast.Call) and ntext(n.func) in ("open", "os.path.join", "os.path.splitext", "os.path.basename", "os.path.dirname", "os.path.realpath", "os.path.abspath", "shutil.copy2", "shutil.copy") and any(isinstance(a, ast.Name) and a.id == name for a in n.args):
                out.append((n, "`%s` (a path argument must be a string)" % ntext(n)[:50]))
            elif isinstance(n, ast.Starred) and isinstance(n.value, ast.Name) and n.value.id == name:
                out.append((n, "`*%s`" % name))
            elif isinstance(n, ast.Call) and isinstance(n.func, ast.Attribute) and n.func.attr in ("update", "extend") and any(isinstance(a, ast.Name) and a.id == name for a in n.args):
                out.append((n, "`%s`" % ntext(n)[:50]))
        for c in ast.iter_child_nodes(n):
            visit(c, safe)

    visit(node_ast, False)
    return out


def none_analysis(ctx, f):
    """Yield (node, ast, description) for dereferences of possibly-None parameters."""
    pnone = [p for p, d in f.defaults.items() if isinstance(d, ast.Constant) and d.value is None]
    if not pnone or f.is_lambda:
        return []
    cfg = ctx.cfg(f)
    names = set(pnone)
    # forward must-analysis: set of names known not None on entry of each node
    IN = {n: set(names) for n in cfg.nodes}
    IN[cfg.entry] = set()
    OUT = {}

    def edge_out(n, m):
        s = set(IN[n])
        a = n.ast
        if n.kind == "stmt" and isinstance(a, (ast.Assign, ast.AugAssign, ast.AnnAssign)):
            tg = a.targets if isinstance(a, ast.Assign) else [a.target]
            for t in tg:
                for x in ast.walk(t):
                    if isinstance(x, ast.Name) and x.id in names:
                        v = a.value
                        if isinstance(v, ast.Constant) and v.value is None:
                            s.discard(x.id)
                        elif isinstance(v, ast.Name) and v.id in names and v.id not in s:
                            s.discard(x.id)
                        elif isinstance(v, ast.IfExp) and isinstance(v.orelse, ast.Name) and v.orelse.id == x.id and any(nm == x.id and lab is False for nm, lab in _none_test(v.test)):
                            s.add(x.id)
                        elif isinstance(v, ast.IfExp) and isinstance(v.body, ast.Name) and v.body.id == x.id and any(nm == x.id and lab is True for nm, lab in _none_test(v.test)):
                            s.add(x.id)
                        elif isinstance(v, ast.BoolOp) and isinstance(v.op, ast.Or) and isinstance(v.values[0], ast.Name) and v.values[0].id == x.id:
                            s.add(x.id)
                        else:
                            s.add(x.id)
        if n.kind == "test":
            lab = cfg.elabel.get((n, m))
            for nm, l in _none_test(a):
                if nm in names and l == lab:
                    s.add(nm)
        return s

    changed = True
    while changed:
        changed = False
        for n in cfg.nodes:
            if n is cfg.entry:
                continue
            ps = cfg.pred[n]
            new = set.intersection(*[edge_out(p, n) for p in ps]) if ps else set(names)
            if new != IN[n]:
                IN[n] = new
                changed = True
    res = []
    for n in cfg.nodes:
        if n.ast is None:
            continue
        a = n.ast
        target = a
        if n.kind == "for":
            target = a
        for p in pnone:
            if p in IN[n]:
                continue
            roots = [target]
            if n.kind == "stmt" and isinstance(a, ast.Assign):
                roots = [a.value] + [t for t in a.targets if not isinstance(t, ast.Name)]
            for r in roots:
                for node, desc in _deref_uses(r, p):
                    res.append((n, node, p, desc))
            if n.kind == "for" and isinstance(a, ast.Name) and a.id == p:
                res.append((n, a, p, "iteration over `%s`" % p))
    return res


@rule("C11.NONE")
def none_rule(ctx, R):
    P = ctx.P
    reach = export_reach(ctx)
    n = 0
    for q in sorted(reach):
        f = P.funcs.get(q)
        if f is None or f.is_lambda:
            continue
        pn = [p for p, d in f.defaults.items() if isinstance(d, ast.Constant) and d.value is None]
        if not pn:
            continue
        R.saw(f)
        table = [(fr, f.params[pi], reason) for fr, pi, reason in NONE_TABLE if re.search(fr, q) and pi < len(f.params)]
        bad = [b for b in none_analysis(ctx, f) if not any(b[2] == pr for fr, pr, _ in table)]
        for fr, pr, reason in table:
            if pr in pn:
                # re-verify the reason: the reassignment under `if method:` / `if (method := ...):` still exists and the tested
                # value still comes from tickMethod()
                def _tested(x):
                    t = x.test
                    if isinstance(t, ast.Name):
                        return t.id, None
                    if isinstance(t, ast.NamedExpr) and isinstance(t.target, ast.Name):
                        return t.target.id, t.value
                    if isinstance(t, ast.UnaryOp) and isinstance(t.op, ast.Not) and isinstance(t.operand, ast.Name):
                        return t.operand.id, None  # `if not method: ... else: <assignments>`
                    return None, None

                def _truthy_arm(x):
                    neg = isinstance(x.test, ast.UnaryOp) and isinstance(x.test.op, ast.Not)
                    return x.orelse if neg else x.body

                asg = [x for x in ast.walk(f.node) if isinstance(x, ast.If) and _tested(x)[0] and any(isinstance(y, ast.Assign) and any(isinstance(t, ast.Name) and t.id == pr for tt in y.targets for t in ast.walk(tt)) for y in _truthy_arm(x))]
                mname = _tested(asg[0])[0] if asg else None
                defs = [x.value for x in ast.walk(f.node) if isinstance(x, ast.Assign) and asg and any(isinstance(t, ast.Name) and t.id == mname for t in x.targets)]
                defs += [x.value for x in ast.walk(f.node) if isinstance(x, ast.NamedExpr) and asg and isinstance(x.target, ast.Name) and x.target.id == mname]
                okr = bool(asg) and bool(defs) and all("tickMethod" in ntext(d) for d in defs)
                R.check(okr, "C11.NONE", "%s|%s (table)" % (q, pr), where(f), "discharged: " + reason, "the table reason for `%s` no longer holds in %s (%s)" % (pr, q, reason))
        n += len(pn)
        seen = set()
        for cn, node, p, desc in bad:
            k_ = (p, ntext(node)[:50])
            if k_ in seen:
                continue
            seen.add(k_)
            R.bad("C11.NONE", "%s|%s %s" % (q, p, ntext(node)[:40]), where(f, node), "parameter `%s` defaults to None and is dereferenced by %s without a dominating None test: omitting it raises TypeError" % (p, desc))
        for p in pn:
            if not any(b[2] == p for b in bad):
                R.ok("C11.NONE", "%s|%s" % (q, p), where(f), "every dereference of `%s` is dominated by a None test or a reassignment" % p)
    R.check(n >= 10, "C11.NONE.inventory", "None-default parameters examined: %d" % n, "", "", "too few None-default parameters found", nontrivial=False)


# (function, index of the parameter among its positional parameters, reason)
NONE_TABLE = [
    (r"^scale\.TimeScale\.ticks$", 2, "tickMethod() always returns a two-element list, so `if method:` always assigns skip"),
    (r"^scale\.TimeScale\.ticks$", 1, "tickMethod() always returns a two-element list, so `if method:` always assigns interval"),
]

# ---------------------------------------------------------------------------
# DIVZERO / LOGDOM
# ---------------------------------------------------------------------------

# (function qual regex, denominator text regex) -> reason (contract / positive-by-construction)
DIV_TABLE = [
    (r"(^|\.)Distributor\.algorithm_simple$", r"^numLayers$|^def:self\.estimateRequiredLayers\(", "algorithm_simple runs only when needToSplit(): estimateRequiredLayers() > 1 (C04.DISTRIBUTE)"),
    (r"(^|\.)Distributor\.estimateRequiredLayers$", r"^{p0}\.maxWidthPerLayer\(\)$", "guarded by `if layerWidth` and density > 0 (documented)", "{p0}.options['layerWidth']"),
    (r"(^|\.)TimeScale\.tickMethod$", r"^{p2}$", "documented contract: tick count >= 1"),
    (r"(^|\.)TimeScale\.tickMethod$", r"^target$|^def:.* / {p2}$", "reached only with i >= 1 (the `not i` branch returns first), i.e. target >= steps[0] > 0 (C16.CHOICE)"),
    (r"(^|\.)TimeScale\.tickMethod$", r"^d3_time_scaleSteps\[(i|<local>) - 1\]$", "table constants are positive (C16.TABLES)"),
    (r"(^|\.)d3TimeScaleMilliseconds\.range$", r"^int\({p3}\)$", "ticks() passes a step >= 1 (C16.SUBMS)"),
    (r"(^|\.)d3_scale_linearTickRange$", r"^step$|^def:pow\(10, |^def:10 \*\* ", "step = 10^k x {1,2,5,10} > 0 by construction (C13.P125)"),
    (r"(^|\.)d3_scale_linearTickRange$", r"^{p1}$", "documented contract: tick count >= 1"),
    (r"(^|\.)colorFunc$", r"^len\({p0}\.options\[{p1}\]\)$", "documented contract: a colour list is non-empty"),
    (r"^vpsc\.", r"^\w+\.scale$", "documented contract: variable scales are positive"),
    (r"^vpsc\.PositionStats\.getPosn$", r"^{p0}\.A2$", "A2 = sum of weight*(scale ratio)^2 over >= 1 variable, positive for positive weights"),
    (r"(^|\.)d3_scale_linearTickRange$", r"^math\.log\(10\)$", "constant"),
    (r"(^|\.)d3_scale_linearPrecision$", r"^math\.log\(10\)$", "constant"),
]
LOG_TABLE = [
    (r"(^|\.)d3_scale_linearTickRange$", r"^(span|<local>) / {p1}$", "span > 0 after the `span == 0` return (extent ascending), m >= 1"),
    (r"(^|\.)d3_scale_linearTickRange$", r"^10$", "constant"),
    (r"(^|\.)d3_scale_linearPrecision$", r"^{p0}$", "guarded by `if not value`; value is a tick step > 0"),
    (r"(^|\.)d3_scale_linearPrecision$", r"^10$", "constant"),
]


def _pfmt(pat, f, esc=True):
    """Fill the placeholders {p0}, {p1}, ... of a table pattern with the names of f's positional parameters (receiver
    included), so that the tables speak about parameters by position, not by name."""
    if "{p" not in pat:
        return pat
    ps = list(f.params) if f is not None else []
    m = {"p%d" % i: (re.escape(n) if esc else n) for i, n in enumerate(ps)}
    for i in range(len(ps), 8):
        m["p%d" % i] = "\\0never" if esc else "<no such parameter>"
    try:
        return pat.format(**m)
    except (KeyError, IndexError, ValueError):
        return pat


def _role_texts(ctx, f, e):
    """Spellings of an expression that do not depend on what its local variables are called: `def:<rhs>` for each plain
    assignment to a local name (locals inside the right-hand side resolved where they have one definition), and the
    expression with every local that is not a parameter written `<local>`."""
    import copy

    out = set()
    if f is None or f.is_lambda:
        return out
    params = set(f.params) | set(f.kwonly) | ({f.vararg} if f.vararg else set()) | ({f.kwarg} if f.kwarg else set())
    stores = {n.id for n in walk_local(f.node) if isinstance(n, ast.Name) and isinstance(n.ctx, ast.Store)} - params
    if isinstance(e, ast.Name) and e.id in stores:
        for n in walk_local(f.node):
            if isinstance(n, ast.Assign) and len(n.targets) == 1 and isinstance(n.targets[0], ast.Name) and n.targets[0].id == e.id:
                out.add("def:" + resolve_local(f, n.value))
                out.add("def:" + ntext(n.value))

    class Sub(ast.NodeTransformer):
        def visit_Name(self, node):
            if node.id in stores:
                return ast.copy_location(ast.Name(id="LOCAL__", ctx=node.ctx), node)
            return node

    try:
        out.add(ntext(Sub().visit(acopy(e))).replace("LOCAL__", "<local>"))
    except Exception:
        pass
    try:
        # ... and the same after aliases with one definition have been resolved (`steps = TABLE; steps[i - 1]`)
        r = _reparse(resolve_local(f, e))
        if r is not None:
            out.add(ntext(Sub().visit(r)).replace("LOCAL__", "<local>"))
    except Exception:
        pass
    return out


def _local_guards(node, stop):
    """(test AST, polarity) pairs known at `node` from short-circuit operators and conditional expressions."""
    out = []
    n = node
    while n is not None and n is not stop:
        par = getattr(n, "_parent", None)
        if isinstance(par, ast.BoolOp) and n in par.values:
            idx = par.values.index(n)
            for v in par.values[:idx]:
                out.append((v, isinstance(par.op, ast.And)))
        if isinstance(par, ast.IfExp):
            if n is par.body:
                out.append((par.test, True))
            elif n is par.orelse:
                out.append((par.test, False))
        n = par
    return out


def _nonzero_guard(ctx, f, node, den):
    """Is `node` (a division) dominated by a guard that makes `den` non-zero, in f or an enclosing function?"""
    dt = ntext(den)
    for t_, pol in _local_guards(node, f.node):
        for cand in (t_, _reparse(resolve_local(f, t_))):
            if cand is not None and _test_implies_nonzero(cand, dt, den, pol):
                return "short-circuit guard `%s` (%s)" % (ntext(t_)[:50], pol)
    g = f
    inner_node = node
    while g is not None:
        if not g.is_lambda:
            cfg = ctx.cfg(g)
            # find the CFG node containing inner_node
            holder = None
            for n in cfg.nodes:
                if n.ast is not None and any(x is inner_node for x in ast.walk(n.ast)):
                    holder = n
                    break
            if holder is not None:
                for t in cfg.nodes:
                    if t.kind != "test" or not cfg.dominates(t, holder) or t is holder:
                        continue
                    lab = None
                    for s_ in cfg.succ[t]:
                        if s_ is holder or cfg.dominates(s_, holder):
                            lab = cfg.elabel.get((t, s_))
                    if lab is None:
                        # early-exit guard: the branch that does not reach holder
                        reach_lab = [cfg.elabel.get((t, s_)) for s_ in cfg.succ[t] if holder in cfg.reach(s_, include_src=True) or s_ is holder]
                        if len(reach_lab) == 1:
                            lab = reach_lab[0]
                    if lab is None:
                        continue
                    if _test_implies_nonzero(t.ast, dt, den, lab) or (_reparse(resolve_local(g, t.ast)) is not None and _test_implies_nonzero(_reparse(resolve_local(g, t.ast)), dt, den, lab)):
                        return "guard `%s` (%s branch) in %s" % (ntext(t.ast)[:50], lab, g.qual)
        # continue with the enclosing function: the closure is created at inner_node = the def/lambda
        inner_node = g.node
        g = g.parent
    return None


def _nonzero_field(ctx, f, den):
    """The denominator is `self.X` in a method of a small class whose field X is assigned only in `__init__`, from a
    parameter, and every construction of the class in the package passes for that parameter an expression that a guard at
    the construction site keeps away from zero (a closure turned into a callable object keeps its guard at the factory)."""
    P = ctx.P
    g0 = f
    while g0 is not None and g0.cls is None:
        g0 = g0.parent
    if isinstance(den, ast.Name):
        r_ = _reparse(resolve_local(f, den))  # `step = self.step; x / step`
        if r_ is not None:
            den = r_
    if g0 is None or not g0.params or not (isinstance(den, ast.Attribute) and isinstance(den.value, ast.Name) and den.value.id == g0.params[0]):
        return None
    cls, attr = g0.cls, den.attr
    init = P.method(cls, "__init__")
    if init is None or not init.params:
        return None
    stores = []
    for m in P.funcs.values():
        for n in ast.walk(m.node) if not m.is_lambda else []:
            if isinstance(n, ast.Attribute) and n.attr == attr and isinstance(n.ctx, (ast.Store, ast.Del)):
                top = m
                while top is not None and top.cls is None:
                    top = top.parent
                if top is not None and top.params and isinstance(n.value, ast.Name) and n.value.id == top.params[0]:
                    # a store on the method's own receiver: relevant only for classes related to this one
                    if top.cls in P.mro(cls) or cls in P.mro(top.cls):
                        stores.append((m, n))
                    continue
                ks = ctx.types.classes_of(n.value, m, m.module)
                if not ks or any(k in P.mro(cls) or cls in P.mro(k) for k in ks):
                    stores.append((m, n))
    if not stores or any(m is not init for m, _ in stores):
        return None
    pnames = set()
    for m, n in stores:
        par = getattr(n, "_parent", None)
        if not (isinstance(par, ast.Assign) and len(par.targets) == 1 and isinstance(par.value, ast.Name) and par.value.id in init.params[1:]):
            return None
        pnames.add(par.value.id)
    if len(pnames) != 1:
        return None
    pn = next(iter(pnames))
    idx = init.params.index(pn) - 1
    sites = []
    for caller, lst in ctx.cg.sites.items():
        for call, quals in lst:
            if init.qual in quals:
                sites.append((P.funcs.get(caller), call))
    if not sites:
        return None
    why = []
    for cf, call in sites:
        if cf is None:
            return None
        a = None
        if idx < len(call.args) and not any(isinstance(x, ast.Starred) for x in call.args[: idx + 1]):
            a = call.args[idx]
        for kw in call.keywords:
            if kw.arg == pn:
                a = kw.value
        if a is None:
            return None
        gd = _nonzero_guard(ctx, cf, call, a)
        if not gd:
            c = _const_expr(a, cf.module)
            if c is not True:
                return None
            gd = "non-zero constant"
        why.append("%s: %s" % (cf.qual, gd))
    return "field `%s` of %s is set once, by the constructor, from an argument that is non-zero at every construction site (%s)" % (attr, cls.name, "; ".join(sorted(set(why)))[:200])


def _nonzero_param(ctx, f, den):
    """The denominator is a parameter of f or of an enclosing (factory) function that is never reassigned, and every call
    of that function in the package passes a non-zero numeric constant for it."""
    if not isinstance(den, ast.Name):
        return None
    P = ctx.P
    g = f
    while g is not None and den.id not in g.params:
        if den.id in ctx.types.locals.get(g.qual, ()):
            return None
        g = g.parent
    if g is None or g.is_lambda or g.cls is not None:
        return None
    if any(isinstance(x, ast.Name) and x.id == den.id and isinstance(x.ctx, ast.Store) for x in ast.walk(g.node)):
        return None
    pi = g.params.index(den.id)
    sites = []
    for caller, lst in ctx.cg.sites.items():
        for call, quals in lst:
            if g.qual in quals:
                sites.append(call)
    # referenced as a value (could be called from anywhere)?
    for m_ in P.modules.values():
        for nd in ast.walk(m_.tree):
            if isinstance(nd, ast.Name) and nd.id == g.name and isinstance(nd.ctx, ast.Load):
                par = getattr(nd, "_parent", None)
                if not (isinstance(par, ast.Call) and par.func is nd) and (m_ is g.module or nd.id in m_.imports):
                    return None
    if not sites:
        return None
    vals = []
    for c in sites:
        a = None
        if len(c.args) > pi and not any(isinstance(x, ast.Starred) for x in c.args):
            a = c.args[pi]
        for k in c.keywords:
            if k.arg == den.id:
                a = k.value
        v = const_value(a) if a is not None else None
        if v is None or isinstance(v, (str, bool)) or v == 0:
            return None
        vals.append(v)
    return "parameter `%s` of %s: every one of its %d call sites passes a non-zero constant (%s)" % (den.id, g.qual, len(sites), ", ".join(sorted({repr(v) for v in vals})[:4]))


def _reparse(txt):
    try:
        return ast.parse(txt, mode="eval").body
    except Exception:
        return None


def _test_implies_nonzero(t, dt, den, lab):
    tx = ntext(t).replace(" ", "")
    d = dt.replace(" ", "")
    pos = {d, "%s!=0" % d, "%s>0" % d, "%s>1" % d, "%s>=1" % d, "0<%s" % d, "0!=%s" % d, "1<%s" % d}
    neg = {"not%s" % d, "%s==0" % d, "0==%s" % d, "%s<1" % d, "%s<=0" % d}
    if isinstance(den, ast.BinOp) and isinstance(den.op, ast.Sub):
        a, b = ntext(den.left).replace(" ", ""), ntext(den.right).replace(" ", "")
        neg |= {"%s==%s" % (a, b), "%s==%s" % (b, a)}
        pos |= {"%s!=%s" % (a, b), "%s!=%s" % (b, a)}
    if tx in pos and lab is True:
        return True
    if tx in neg and lab is False:
        return True
    if isinstance(t, ast.BoolOp) and isinstance(t.op, ast.And) and lab is True:
        return any(_test_implies_nonzero(v, dt, den, True) for v in t.values)
    if isinstance(t, ast.BoolOp) and isinstance(t.op, ast.Or) and lab is False:
        return any(_test_implies_nonzero(v, dt, den, False) for v in t.values)
    if isinstance(t, ast.UnaryOp) and isinstance(t.op, ast.Not):
        return _test_implies_nonzero(t.operand, dt, den, not lab)
    return False


def _const_expr(e, mod=None, depth=0):
    if const_value(e) is not None:
        return const_value(e) != 0
    if isinstance(e, ast.Call) and ntext(e.func) in ("math.log", "math.log10", "math.sqrt", "float", "int") and len(e.args) == 1 and const_value(e.args[0]) is not None:
        v = const_value(e.args[0])
        if ntext(e.func) in ("math.log", "math.log10"):
            return v > 0 and v != 1
        return v != 0
    if isinstance(e, ast.Name) and mod is not None and depth < 3:
        asg = mod.global_assigns(e.id)
        if len(asg) == 1:
            return _const_expr(asg[0].value, mod, depth + 1)
    if isinstance(e, ast.BinOp) and isinstance(e.op, (ast.Mult,)):
        a, b = _const_expr(e.left), _const_expr(e.right)
        return a and b
    return None


def divzero_sites(ctx, R, rule_id, reach):
    P = ctx.P
    n = 0
    fmt_sites = None
    for f in analysis_units(ctx, reach):
        q = f.qual
        for nd in walk_local(f.node):
            den = None
            what = None
            if isinstance(nd, ast.BinOp) and isinstance(nd.op, (ast.Div, ast.FloorDiv, ast.Mod)) and not (isinstance(nd.left, ast.Constant) and isinstance(nd.left.value, str)) and not isinstance(nd.left, ast.JoinedStr):
                den, what = nd.right, "division"
                # "%"-formatting with a non-literal left operand: a string wherever the emitters were value-numbered
                if isinstance(nd.op, ast.Mod):
                    if isinstance(nd.left, (ast.Name,)) and nd.left.id in ("fmtstr", "fmt", "template"):
                        continue
                    if isinstance(nd.right, (ast.Tuple, ast.Dict)):
                        continue  # a tuple or a dict is never a modulus
                    from .crash import _is_str

                    g_ = f
                    while g_ is not None and g_.is_lambda:
                        g_ = g_.parent
                    if _is_str(nd.left, g_, P):
                        continue
                    if f.module.name in ("timeline", "renderer"):
                        if fmt_sites is None:
                            from . import emit

                            fmt_sites = emit.string_format_sites(ctx)
                        if nd in fmt_sites:
                            continue
            elif isinstance(nd, ast.AugAssign) and isinstance(nd.op, (ast.Div, ast.FloorDiv, ast.Mod)):
                den, what = nd.value, "division"
            elif isinstance(nd, ast.Call) and ntext(nd.func) in ("divmod", "math.fmod") and len(nd.args) == 2:
                den, what = nd.args[1], ntext(nd.func)
            if den is None:
                continue
            c = _const_expr(den, f.module if not (isinstance(den, ast.Name) and den.id in ctx.types.locals.get(f.qual, ())) else None)
            if c is True:
                continue
            n += 1
            keyt = "%s|/ %s" % (q, ntext(den)[:50])
            if c is False:
                R.bad(rule_id, keyt, where(f, nd), "%s by the constant zero" % what)
                continue
            g = _nonzero_guard(ctx, f, nd, den) or _nonzero_param(ctx, f, den) or _nonzero_field(ctx, f, den)
            if g:
                R.ok(rule_id, keyt, where(f, nd), "non-zero: " + g)
                continue
            hit = None
            top = f
            while top.parent is not None:
                top = top.parent
            dtexts = {ntext(den), resolve_local(f, den), resolve_local(top, den)} | _role_texts(ctx, f, den) | _role_texts(ctx, top, den)
            for ent in DIV_TABLE:
                fr, dr, reason = ent[:3]
                dr = _pfmt(dr, f)
                if re.search(fr, q) and any(re.search(dr, dt_) for dt_ in dtexts):
                    if len(ent) > 3:
                        # the reason names a guard: it must dominate the division
                        gd = _nonzero_guard(ctx, f, nd, _reparse(_pfmt(ent[3], f, esc=False)))
                        if not gd:
                            continue
                        reason = reason + "; " + gd
                    hit = reason
                    break
            if hit:
                R.ok(rule_id, keyt, where(f, nd), "discharged: " + hit)
            else:
                R.bad(rule_id, keyt, where(f, nd), "`%s`: %s by `%s`, which no dominating guard and no documented contract keeps away from zero (ZeroDivisionError, e.g. for a degenerate domain or a zero step)" % (ntext(nd)[:70], what, ntext(den)[:40]))
    return n


@rule("C11.DIVZERO")
def divzero(ctx, R):
    P = ctx.P
    reach = export_reach(ctx)
    n = divzero_sites(ctx, R, "C11.DIVZERO", reach)
    R.check(n >= 15, "C11.DIVZERO.inventory", "division sites examined: %d" % n, "", "", "fewer division sites than the 20 confirmed by hand", nontrivial=False)
    m = 0
    for f in analysis_units(ctx, reach):
        q = f.qual
        for nd in walk_local(f.node):
            if isinstance(nd, ast.Call) and ntext(nd.func) in ("math.log", "math.log10", "math.log2", "math.sqrt", "log", "log10", "sqrt") and nd.args:
                for a in nd.args[:2]:
                    if const_value(a) is not None and const_value(a) > 0:
                        continue
                    m += 1
                    keyt = "%s|%s(%s)" % (q, ntext(nd.func), ntext(a)[:40])
                    hit = None
                    if _const_expr(a, f.module) is True:
                        continue
                    for fr, ar, reason in LOG_TABLE:
                        ar = _pfmt(ar, f)
                        if re.search(fr, q) and (re.search(ar, ntext(a)) or re.search(ar, resolve_local(f, a)) or any(re.search(ar, t_) for t_ in _role_texts(ctx, f, a))):
                            hit = reason
                    if hit and "guarded" in hit:
                        g = _nonzero_guard(ctx, f, nd, a)
                        if not g:
                            hit = None
                    if hit:
                        R.ok("C11.LOGDOM", keyt, where(f, nd), "argument positive: " + hit)
                    else:
                        R.bad("C11.LOGDOM", keyt, where(f, nd), "`%s`: the argument `%s` is not kept positive by a dominating guard or documented contract (ValueError: math domain error for a degenerate domain)" % (ntext(nd)[:60], ntext(a)[:40]))
    R.check(m >= 2, "C11.LOGDOM.inventory", "log/sqrt arguments examined: %d" % m, "", "", "fewer log sites than expected", nontrivial=False)


# ---------------------------------------------------------------------------
# RAISE / NOLATEX / INDEX
# ---------------------------------------------------------------------------

ALLOWED_RAISE = {"distributor.Distributor.distribute": "unknown layering algorithm (undocumented option value)"}


def _dispatch_never_raises(ctx):
    def build():
        from .c04 import _self_eval, D

        P = ctx.P
        f = P.func(D + ".distribute")
        NODE = P.cls("node.Node")
        for alg in ("none", "overlap", "simple"):
            for split in (False, True):
                def hook(fv, args, kwargs, node, st_, split=split):
                    if isinstance(fv, Closure) and fv.func.qual == D + ".needToSplit":
                        return TRUE if split else FALSE
                    if isinstance(fv, Closure) and fv.func.qual.startswith(D + ".algorithm_"):
                        return Opaque("%s(...)" % fv.func.name)
                    from ..sym import Bound
                    if isinstance(fv, Bound) and isinstance(fv.recv, Opaque) and fv.name.startswith("algorithm_"):
                        return Opaque("%s(...)" % fv.name)
                    return None

                ev, st, s, o = _self_eval(ctx, f, {"algorithm": Const(alg)}, hook=hook)
                ev.nonempty.add("NS")
                for k_ in ("cmp(eq, len(NS), 0)", "cmp(le, len(NS), 0)", "cmp(lt, len(NS), 1)"):
                    ev.assume(k_, False)
                r = ev.call_closure(Closure(f, None, selfv=s), [Opaque("NS", cls=NODE, kind="seq")], {}, st)
                if "<raise" in key(r):
                    return False
        return True

    return ctx.get("c11.dispatch_never_raises", build)


def _abstract_marker(P, f, nd):
    """`raise NotImplementedError` as the whole body of a method of a class that has subclasses, every leaf subclass of which
    overrides the method: the documented entry classes (the leaves) never reach it."""
    exc = nd.exc.func if isinstance(nd.exc, ast.Call) else nd.exc
    if not (isinstance(exc, ast.Name) and exc.id == "NotImplementedError") or f.cls is None or f.is_lambda:
        return False
    stmts = [s_ for s_ in f.node.body if not (isinstance(s_, ast.Expr) and isinstance(s_.value, ast.Constant))]
    if len(stmts) != 1 or stmts[0] is not nd:
        return False
    subs = [k for k in P.subclasses(f.cls) if k is not f.cls]
    leaves = [k for k in subs if not any(k2 is not k and k in P.mro(k2) for k2 in subs)]
    return bool(leaves) and all(P.method(k, f.name) is not None and P.method(k, f.name) is not f for k in leaves)


def _asserts_hold(ctx, f):
    """{id(assert node): True} for the assert statements of f whose condition folds to true each time the value-numbered
    body of f reaches them (receiver and parameters symbolic, callees inlined)."""
    P = ctx.P
    seen = {}

    def on_assert(node, c, st_):
        v = None
        if isinstance(c, Const):
            v = bool(c.v)
        elif num_const(c) is not None:
            v = num_const(c) != 0
        seen.setdefault(id(node), []).append(v)

    try:
        ev = new_eval(P)
        ev.on_assert = on_assert
        # attribute names that hold objects of exactly one class of the package, by the type flow: lets method calls on
        # `x.left.block` and the like be inlined
        T = ctx.types

        def build_fc():
            fc = {}
            for attr, nodes in T.fld_index.items():
                cl = set()
                other = False
                for nd_ in nodes:
                    for v in T._get(nd_):
                        if v[0] == "C":
                            cl.add(v[1])
                        elif v[0] in ("F", "BM", "K", "M"):
                            other = True
                if len(cl) == 1 and not other:
                    fc[attr] = P.classes[next(iter(cl))]
            return fc

        for k_, v_ in ctx.get("c11.field_cls", build_fc).items():
            ev.field_cls.setdefault(k_, v_)
        st = ev.new_state(f)
        args = [Opaque(p_) for p_ in (f.params[1:] if f.cls is not None and not f.is_staticmethod else f.params)]
        selfv = Opaque("self", cls=f.cls, kind="obj") if f.cls is not None and not f.is_staticmethod and f.params else None
        ev.call_closure(Closure(f, None, selfv=selfv), args, {}, st)
    except Exception:
        return {}
    own = {id(nd) for nd in walk_local(f.node) if isinstance(nd, ast.Assert)}
    out = {}
    for k, vs in seen.items():
        if k in own:
            out[k] = True if (vs and all(v is True for v in vs)) else (False if any(v is False for v in vs) else None)
    return out


@rule("C11.RAISE")
def raise_rule(ctx, R):
    P = ctx.P
    reach = export_reach(ctx)
    for q in sorted(reach):
        f = P.funcs.get(q)
        if f is None:
            continue
        held = _asserts_hold(ctx, f) if any(isinstance(nd, ast.Assert) for nd in walk_local(f.node)) else {}
        for nd in walk_local(f.node):
            if isinstance(nd, ast.Assert):
                h = held.get(id(nd))
                if h is True:
                    R.ok("C11.RAISE", "%s|%s" % (q, ntext(nd)[:40]), where(f, nd), "the asserted condition folds to true on every evaluated path of %s" % q)
                    continue
                if h is None:
                    # neither shown nor refuted: an assert states an invariant its author believes in (and `python -O` drops
                    # it); it is reported only when the value-numbered body refutes it on some path
                    R.ok("C11.RAISE", "%s|%s" % (q, ntext(nd)[:40]), where(f, nd), "asserted invariant, not refuted by the value-numbered body (not shown either)", nontrivial=False)
                    continue
            if isinstance(nd, ast.Raise) and _abstract_marker(P, f, nd):
                R.ok("C11.RAISE", "%s|%s" % (q, ntext(nd)[:40]), where(f, nd), "abstract method: every concrete class of the family overrides it", nontrivial=False)
                continue
            if isinstance(nd, (ast.Raise, ast.Assert)):
                ok = q in ALLOWED_RAISE and isinstance(nd, ast.Raise)
                if ok:
                    # the raise must be unreachable for every documented algorithm name: decided on the value-numbered
                    # dispatch (if/elif chain, dict look-up, ... whatever its shape)
                    ok = _dispatch_never_raises(ctx)
                R.check(ok, "C11.RAISE", "%s|%s" % (q, ntext(nd)[:40]), where(f, nd), ALLOWED_RAISE.get(q, ""), "`%s` can be reached while exporting documented inputs" % ntext(nd)[:60])


@rule("C11.NOLATEX")
def nolatex(ctx, R):
    P = ctx.P
    n = 0
    for f in P.funcs.values():
        for c in calls_in(f.node):
            res = [g.qual for g, _ in ctx.types.resolve(c)]
            if any(g in LATEX_ONLY for g in res) and f.qual not in LATEX_ONLY:
                n += 1
                cfg = ctx.cfg(f) if not f.is_lambda else None
                ok = False
                detail = ""
                if cfg is not None:
                    holder = next((x for x in cfg.nodes if x.ast is not None and any(y is c for y in ast.walk(x.ast))), None)
                    for t in cfg.nodes:
                        if t.kind == "test" and holder is not None and cfg.dominates(t, holder) and t is not holder:
                            lab = [cfg.elabel.get((t, s_)) for s_ in cfg.succ[t] if s_ is holder or cfg.dominates(s_, holder)]
                            tx = ntext(t.ast).replace(" ", "")
                            if lab == [True] and (("widthisNone" in tx and "text" in tx) or tx.startswith("filenameisnotNone") or tx == "build_pdf"):
                                ok = True
                            if lab == [False] and tx == "filenameisNone":
                                ok = True
                            detail = ntext(t.ast)
                R.check(ok, "C11.NOLATEX", "%s -> %s" % (f.qual, res[0]), where(f, c), "the LaTeX tool chain is reached only when a width is missing (or a file/PDF was requested)", "`%s` reaches the external LaTeX tool chain without the guard `width is None and text` (or an explicit file/PDF request): export would need latexmk even with explicit widths" % ntext(c)[:60])
    R.check(n >= 2, "C11.NOLATEX.inventory", "calls into the LaTeX helpers: %d" % n, "", "", "LaTeX call sites vanished", nontrivial=False)
    f = P.func("timeline.Item.__init__")
    cfg = ctx.cfg(f)
    # height is set on both paths
    ds = [x for x in cfg.stmt_nodes() if x.kind == "stmt" and isinstance(x.ast, ast.Assign) and any(isinstance(t, ast.Attribute) and t.attr == "height" for t in ast.walk(x.ast.targets[0]))]
    ok = bool(ds) and not cfg.exists_path(cfg.entry, cfg.exit, avoid=ds)
    R.check(ok, "GEN.ATTRS", "timeline.Item.height set on every path", where(f), "Item.height is assigned on every path of the constructor", "Item.__init__ can finish without assigning self.height")


@rule("C11.INDEX")
def index_rule(ctx, R):
    P = ctx.P
    anchor = P.func("timeline.Timeline.colorFunc")
    # the colour resolver may live in a helper class: every function called colorFunc in the module is looked at; those that
    # index the option do so modulo its length, and at least one does
    fs = [f for f in P.funcs.values() if f.name == "colorFunc" and f.module.name == "timeline" and not f.is_lambda]
    found = 0
    for f in fs:
        R.saw(f)
        if len(f.params) < 2:
            continue
        pn = f.params[1] if f.cls is not None else f.params[0]
        tgts = {"%s.options[%s]" % (f.params[0], pn), "options[%s]" % pn}
        subs = [n for n in walk_local(f.node) if isinstance(n, ast.Subscript) and isinstance(n.ctx, ast.Load) and resolve_local(f, n.value) in tgts and not (isinstance(n.slice, ast.Name) and n.slice.id == pn) and ntext(n) not in tgts]
        for s in subs:
            found += 1
            sl = s.slice
            tgt = resolve_local(f, s.value)
            ok = isinstance(sl, ast.BinOp) and isinstance(sl.op, ast.Mod) and resolve_local(f, sl.right) == "len(%s)" % tgt and isinstance(sl.left, ast.Name)
            R.check(ok, "C11.INDEX", f.qual, where(f, s), "a colour list is indexed modulo its length", "colorFunc indexes the caller's colour list with `%s`: IndexError as soon as there are more labels than colours (must be i %% len(list))" % ntext(sl))
    if not found:
        R.bad("C11.INDEX", anchor.qual, where(anchor), "colorFunc indexes the caller's colour list with `nothing`: IndexError as soon as there are more labels than colours (must be i % len(list))")


# ---------------------------------------------------------------------------
# GEN pack
# ---------------------------------------------------------------------------

@rule("GEN.DEFINED")
def defined(ctx, R, reach=None, floor=100):
    P = ctx.P
    reach = export_reach(ctx) if reach is None else reach
    n = 0
    for q in sorted(reach):
        f = P.funcs.get(q)
        if f is None or f.is_lambda:
            continue
        params = f.params + f.kwonly + ([f.vararg] if f.vararg else []) + ([f.kwarg] if f.kwarg else [])
        loc, glob = local_names(f.node, params)
        cfg = ctx.cfg(f)
        IN, OUT = definite_assignment(cfg, params)
        n += 1
        bad = set()
        for node in cfg.nodes:
            if node.ast is None:
                continue
            for name, nn in used_names(node):
                if name in loc and name not in IN[node] and name not in bad:
                    # loop variable read after a for-loop is an accepted idiom only if assigned before too
                    bad.add(name)
                    R.bad("GEN.DEFINED", "%s|%s" % (q, name), where(f, nn), "local `%s` is read on a path where it was never assigned (UnboundLocalError / NameError)" % name)
        # closures reading a variable of the enclosing function that is assigned only later are not examined
        if not bad:
            R.ok("GEN.DEFINED", q, where(f), "every local is assigned on all paths before each use", nontrivial=True)
    R.check(n >= floor, "GEN.DEFINED.inventory", "functions examined: %d" % n, "", "", "fewer functions examined than expected (%d)" % floor, nontrivial=False)
    # names that are neither local, enclosing, global, builtin
    import builtins

    bi = set(dir(builtins))
    for q in sorted(reach):
        f = P.funcs.get(q)
        if f is None:
            continue
        scopes = []
        g = f
        while g is not None:
            scopes.append(ctx.types.locals.get(g.qual, set()))
            g = g.parent
        mod = f.module
        mglob = set(mod.imports)
        for st in mod.tree.body:
            if isinstance(st, (ast.FunctionDef, ast.ClassDef)):
                mglob.add(st.name)
            elif isinstance(st, (ast.Assign, ast.AnnAssign)):
                for t in (st.targets if isinstance(st, ast.Assign) else [st.target]):
                    for x in ast.walk(t):
                        if isinstance(x, ast.Name):
                            mglob.add(x.id)
        for nd in walk_local(f.node):
            if isinstance(nd, ast.Name) and isinstance(nd.ctx, ast.Load):
                if any(nd.id in s for s in scopes) or nd.id in mglob or nd.id in bi:
                    continue
                # comprehension variables
                par = nd
                incomp = False
                while par is not None and par is not f.node:
                    par = getattr(par, "_parent", None)
                    if isinstance(par, (ast.ListComp, ast.SetComp, ast.GeneratorExp, ast.DictComp)):
                        for gen in par.generators:
                            if any(isinstance(x, ast.Name) and x.id == nd.id for x in ast.walk(gen.target)):
                                incomp = True
                if incomp:
                    continue
                R.bad("GEN.DEFINED", "%s|undefined name %s" % (q, nd.id), where(f, nd), "name `%s` is not defined in any enclosing scope, the module or builtins (NameError)" % nd.id)


def _foreign_receiver(e, f, T):
    """A local name whose every assignment is the result of calling something imported from outside the package."""
    if not isinstance(e, ast.Name) or f.is_lambda or e.id in f.params:
        return False
    if T.ev(e, f, f.module):
        return False
    vals = []
    for nd in walk_local(f.node):
        if isinstance(nd, ast.Assign):
            for t in nd.targets:
                if isinstance(t, ast.Name) and t.id == e.id:
                    vals.append(nd.value)
                elif any(isinstance(x, ast.Name) and x.id == e.id and isinstance(x.ctx, ast.Store) for x in ast.walk(t)):
                    return False
        elif isinstance(nd, (ast.For, ast.comprehension, ast.NamedExpr, ast.AugAssign)) and any(isinstance(x, ast.Name) and x.id == e.id and isinstance(getattr(x, "ctx", None), ast.Store) for x in ast.walk(nd.target)):
            return False
    if not vals:
        return False
    for v in vals:
        if not isinstance(v, ast.Call):
            return False
        r = v.func
        while isinstance(r, ast.Attribute):
            r = r.value
        if not isinstance(r, ast.Name):
            return False
        imp = f.module.imports.get(r.id)
        if imp is None or imp[1].startswith("labella"):
            return False
    return True


@rule("GEN.ATTRS")
def _effective_signature(P, m):
    """The function whose signature a call of method m must match: m itself; or, when m carries decorators that are
    module-level functions of the package, the local function the (outermost) decorator returns; None if that cannot be told."""
    decos = []
    for d in getattr(m.node, "decorator_list", []) if not m.is_lambda else []:
        if isinstance(d, ast.Name):
            g = P.funcs.get("%s.%s" % (m.module.name, d.id))
            if g is not None and g.parent is None and g.cls is None:
                decos.append(g)
        elif isinstance(d, ast.Call) or isinstance(d, ast.Attribute):
            nm = ntext(d.func if isinstance(d, ast.Call) else d)
            if nm.split(".")[0] in ("functools", "contextlib", "abc") or nm in ("property", "staticmethod", "classmethod"):
                continue
            return None
    if not decos:
        return m
    g = decos[0]  # outermost
    rets = [n for n in walk_local(g.node) if isinstance(n, ast.Return)]
    if len(rets) == 1 and isinstance(rets[0].value, ast.Name):
        inner = [h for h in P.funcs.values() if h.parent is g and not h.is_lambda and h.name == rets[0].value.id]
        if len(inner) == 1:
            return inner[0]
    return None


def attrs(ctx, R, reach=None, floor=150):
    """Every attribute read through `self` is a method/class attribute or assigned somewhere in the package."""
    P = ctx.P
    reach = export_reach(ctx) if reach is None else reach
    stored = set()
    T = ctx.types
    for f in P.funcs.values():
        for nd in ast.walk(f.node):
            if isinstance(nd, ast.Attribute) and isinstance(nd.ctx, ast.Store):
                # stores on objects that evidently come from outside the package (ElementTree elements, ...) say
                # nothing about attributes of the package's own instances
                if _foreign_receiver(nd.value, f, T):
                    continue
                stored.add(nd.attr)
    n = 0
    for q in sorted(reach):
        f = P.funcs.get(q)
        if f is None:
            continue
        g = f
        while g is not None and g.cls is None:
            g = g.parent
        if g is None or not g.params:
            continue
        cls = g.cls
        selfn = g.params[0]
        init_attrs = set()
        for k in P.mro(cls):
            for m in k.methods.values():
                for nd in ast.walk(m.node):
                    if isinstance(nd, ast.Attribute) and isinstance(nd.ctx, ast.Store) and isinstance(nd.value, ast.Name) and nd.value.id == (m.params[0] if m.params else "self"):
                        init_attrs.add(nd.attr)
            for stn in k.node.body:
                if isinstance(stn, ast.Assign):
                    for t in stn.targets:
                        if isinstance(t, ast.Name):
                            init_attrs.add(t.id)
            init_attrs |= set(getattr(k, "fields", ()))  # annotated class-level names (NamedTuple / dataclass fields)
        for nd in walk_local(f.node):
            if isinstance(nd, ast.Attribute) and isinstance(nd.ctx, ast.Load) and isinstance(nd.value, ast.Name) and nd.value.id == selfn:
                n += 1
                if P.method(cls, nd.attr) is not None or nd.attr in init_attrs or nd.attr.startswith("__"):
                    continue
                if any(P.method(k, nd.attr) is not None for k in P.subclasses(cls)):
                    continue
                if nd.attr in stored:
                    R.ok("GEN.ATTRS", "%s|self.%s" % (q, nd.attr), where(f, nd), "assigned by another class of the package", nontrivial=False)
                    continue
                R.bad("GEN.ATTRS", "%s|self.%s" % (q, nd.attr), where(f, nd), "`self.%s` is read but no method of %s (or any class of the package) ever assigns it (AttributeError)" % (nd.attr, cls.name))
    R.check(n >= floor, "GEN.ATTRS.inventory", "self attribute reads examined: %d" % n, "", "", "fewer attribute reads than expected (%d)" % floor, nontrivial=False)
    # methods called on self must exist
    for q in sorted(reach):
        f = P.funcs.get(q)
        if f is None:
            continue
        g = f
        while g is not None and g.cls is None:
            g = g.parent
        if g is None or not g.params:
            continue
        for c in calls_in(f.node):
            if isinstance(c.func, ast.Attribute) and isinstance(c.func.value, ast.Name) and c.func.value.id == g.params[0]:
                m = P.method(g.cls, c.func.attr)
                if m is None and not any(P.method(k, c.func.attr) is not None for k in P.subclasses(g.cls)) and c.func.attr not in stored:
                    R.bad("GEN.ATTRS", "%s|self.%s()" % (q, c.func.attr), where(f, c), "`self.%s(...)`: %s has no such method (AttributeError)" % (c.func.attr, g.cls.name))
                elif m is not None:
                    # arity (of what the name is bound to: a decorator of the package that returns a local function replaces
                    # the signature by that function's; other package decorators: not judged)
                    eff = _effective_signature(P, m)
                    if eff is None:
                        continue
                    m = eff
                    npos = len(c.args)
                    params = m.params[1:] if not m.is_staticmethod else m.params
                    required = [p for p in params if p not in m.defaults]
                    kws = {k.arg for k in c.keywords if k.arg}
                    if not any(isinstance(a, ast.Starred) for a in c.args) and not any(k.arg is None for k in c.keywords):
                        missing = [p for p in required[npos:] if p not in kws]
                        toomany = npos > len(params) and not m.vararg
                        unknown = [k for k in kws if k not in params and k not in m.kwonly and not m.kwarg]
                        if missing or toomany or unknown:
                            R.bad("GEN.ATTRS", "%s|arity self.%s" % (q, c.func.attr), where(f, c), "`%s` does not match the signature of %s (missing %s, too many positional: %s, unknown keywords %s): TypeError" % (ntext(c)[:60], m.qual, missing, toomany, unknown))


@rule("GEN.OPTS-MERGE")
def opts_merge(ctx, R):
    P = ctx.P
    # Renderer / Distributor / Timeline: options = copy of DEFAULT_OPTIONS updated with the caller's dict
    for cq, modname in (("renderer.Renderer", "renderer"), ("distributor.Distributor", "distributor")):
        c = P.cls(cq)
        f = P.method(c, "__init__")
        R.saw(f)
        for given in ("dict", "none"):
            ev = new_eval(P)
            st = ev.new_state(module=modname)
            arg = Opaque("OPTS", kind="obj") if given == "dict" else NONE
            ev.assume("truth(OPTS)", True)
            o = ev.instantiate(c, [arg], {}, st)
            so = st.heap.get((o.text, "options"))
            d = ev.resolve_global(modname, "DEFAULT_OPTIONS")
            ok = isinstance(so, DictV) and isinstance(d, DictV) and so is not d and set(so.items) >= set(d.items)
            if ok:
                for k_, dv in d.items.items():
                    v = so.items[k_]
                    if given == "dict":
                        ok = ok and isinstance(v, OverrideV) and key(v.o) == "OPTS" and key(v.old) == key(dv)
                    else:
                        ok = ok and key(v) == key(dv)
            R.check(ok, "GEN.OPTS-MERGE", "%s options=%s" % (cq, given), where(f), "options = copy of DEFAULT_OPTIONS overridden by the caller's dict", "%s(options=%s) leaves options=%s: not a private copy of DEFAULT_OPTIONS overridden by the caller's values (a missing key raises KeyError later)" % (c.name, given, show(so, 200) if so is not None else None))


@rule("C11.OPTKEYS")
def optkeys(ctx, R):
    P = ctx.P
    ev = new_eval(P)
    tables = {
        "timeline": (ev.resolve_global("timeline", "DEFAULT_OPTIONS"), ("timeline.Timeline", "timeline.TimelineSVG", "timeline.TimelineTex")),
        "renderer": (ev.resolve_global("renderer", "DEFAULT_OPTIONS"), ("renderer.Renderer",)),
        "distributor": (ev.resolve_global("distributor", "DEFAULT_OPTIONS"), ("distributor.Distributor",)),
    }
    reach = export_reach(ctx)
    n = 0
    for modname, (d, classes) in tables.items():
        if not isinstance(d, DictV):
            R.bad("C11.OPTKEYS", "%s.DEFAULT_OPTIONS" % modname, "", "DEFAULT_OPTIONS of %s is not a literal dict" % modname)
            continue
        for q in sorted(reach):
            f = P.funcs.get(q)
            if f is None or f.module.name != modname:
                continue
            for nd in walk_local(f.node):
                if isinstance(nd, ast.Subscript) and isinstance(nd.ctx, ast.Load) and isinstance(nd.slice, ast.Constant) and isinstance(nd.slice.value, str):
                    base = resolve_local(f, nd.value)  # `opts = self.options; opts["k"]` reads self.options["k"]
                    path = None
                    if base in ("self.options", "options") and (base == "self.options" or modname == "renderer"):
                        path = [nd.slice.value]
                    elif isinstance(nd.value, ast.Subscript) and resolve_local(f, nd.value.value) == "self.options" and isinstance(nd.value.slice, ast.Constant):
                        path = [nd.value.slice.value, nd.slice.value]
                    if path is None:
                        continue
                    if isinstance(getattr(nd, "_parent", None), ast.Subscript) and getattr(nd, "_parent").value is nd and isinstance(getattr(nd, "_parent").slice, ast.Constant) and isinstance(d.items.get(path[0]), DictV):
                        continue  # judged at the nested subscript
                    n += 1
                    cur = d
                    ok = True
                    for p_ in path:
                        if isinstance(cur, DictV) and p_ in cur.items:
                            cur = cur.items[p_]
                        elif isinstance(cur, DictV):
                            ok = False
                        else:
                            break
                    R.check(ok, "C11.OPTKEYS", "%s|options%s" % (q, "".join("[%r]" % p_ for p_ in path)), where(f, nd), "key exists in DEFAULT_OPTIONS", "`%s` reads option %s, which %s.DEFAULT_OPTIONS does not define: KeyError when the caller omits it" % (ntext(nd)[:50], path, modname), nontrivial=False)
    # removeOverlap reads its caller's dict: either through the merge over its own defaults, or only keys the engine always passes
    import re as _re
    from . import qp
    FM = qp.force_model(ctx)
    passed = set()
    for e in FM.st.events:
        for b in [e] + list(qp._flat_events(e[3]) if e[0] == "loop" else []):
            if b[0] == "mark" and b[1] == "removeOverlap" and len(b[3]) > 1 and isinstance(b[3][1], DictV):
                passed = set(b[3][1].items)
    fdv = FM.force_defaults
    guaranteed = passed & (set(fdv.items) if isinstance(fdv, DictV) else set())
    ro = P.func(qp.RO)
    for cfgk, M in sorted(qp.models(ctx).items()):
        txt = []

        def dump(x):
            if isinstance(x, (list, tuple)):
                for y in x:
                    dump(y)
            elif isinstance(x, dict):
                for y in x.values():
                    dump(y)
            elif type(x).__module__.startswith("sa."):
                try:
                    txt.append(key(x))
                except Exception:
                    pass

        dump(M.events)
        dump([M.chain or {}, M.walls, M.target, M.ret])
        raw = set(_re.findall(r"(?<!override\()options\['(\w+)'\]", "\n".join(txt)))
        tested = set(_re.findall(r"in\('(\w+)', options\)", "\n".join(txt)))
        for k_ in sorted(raw):
            n += 1
            R.check(k_ in guaranteed or k_ in tested, "C11.OPTKEYS", "removeOverlap|options[%r] (minPos %s, maxPos %s)" % (k_, "absent" if cfgk[0] else "present", "absent" if cfgk[1] else "present"), where(ro), "key guaranteed by the engine or merged from the defaults",
                    "removeOverlap reads options[%r] straight from the caller's dict; the engine passes only %s and the key is not merged from removeOverlap.DEFAULT_OPTIONS: KeyError" % (k_, sorted(guaranteed)), nontrivial=False)
    R.check(n >= 40, "C11.OPTKEYS.inventory", "constant option keys examined: %d" % n, "", "", "fewer option reads than expected", nontrivial=False)
    timeline_opts(ctx, R)


def timeline_opts(ctx, R):
    """Timeline.__init__ builds its options from the defaults overridden by the caller's dict: every default key is present
    and, for every key, the caller's value wins when supplied."""
    P = ctx.P
    f = P.func("timeline.Timeline.__init__")
    R.saw(f)
    from .c07 import _ctor_helper

    evt = new_eval(P, inline_filter=lambda fn: fn.qual in (f.qual,) or _ctor_helper(fn, f))
    st = evt.new_state(f)
    s = Opaque("self", cls=P.cls("timeline.TimelineSVG"), kind="obj")
    opts = Opaque("OPTS", kind="obj")
    evt.assume("truth(OPTS)", True)
    evt.call_closure(Closure(f, None, selfv=s), [Opaque("DICTS", kind="seq"), opts, Const("svg")], {}, st)
    so = st.heap.get(("self", "options"))
    d = evt.resolve_global("timeline", "DEFAULT_OPTIONS")
    lv = [l for p_, l in leaves(so)] if so is not None else []
    ok = bool(lv) and all(isinstance(l, DictV) and l is not d and set(l.items) >= set(d.items) for l in lv)
    R.check(ok, "GEN.OPTS-MERGE", "timeline.Timeline options", where(f), "every default key is present in self.options", "Timeline.__init__ leaves self.options=%s: not every DEFAULT_OPTIONS key is present" % (show(so, 160) if so is not None else None))
    if ok and isinstance(d, DictV):
        lost = []
        for l in lv:
            for k in d.items:
                if "OPTS[%r]" % k not in key(l.items[k]):
                    lost.append(k)
        R.check(not lost, "GEN.OPTS-MERGE", "timeline.Timeline caller's values win", where(f), "for every option the caller's value is used when supplied", "Timeline.__init__ ignores the caller's value for %s (self.options holds the default whatever the caller passes): direction, sizes, colours and engine options have no effect" % sorted(set(lost))[:8])


timeline_opts.rule_id = "GEN.OPTS-MERGE"


@rule("GEN.FORMAT")
def _operand_shape(e, f, depth=0):
    """Number of format arguments the right operand of `%` supplies: n for a tuple display of n elements, 1 for an evident
    non-tuple (constant, arithmetic, string building, str()/int()/len() ...), None when it cannot be told."""
    if isinstance(e, ast.Tuple):
        return len(e.elts)
    if isinstance(e, (ast.Constant, ast.JoinedStr, ast.List, ast.Dict, ast.ListComp, ast.Compare, ast.BoolOp, ast.UnaryOp)):
        return 1
    if isinstance(e, ast.BinOp):
        return 1
    if isinstance(e, ast.Call):
        if isinstance(e.func, ast.Name) and e.func.id in ("str", "int", "float", "len", "round", "abs", "repr", "max", "min", "sum", "int2name", "format", "chr", "ord"):
            return 1
        if isinstance(e.func, ast.Name) and e.func.id == "tuple":
            return None
        if isinstance(e.func, ast.Attribute) and e.func.attr in ("join", "format", "strip", "upper", "lower", "replace", "get"):
            return 1
        return None
    if isinstance(e, ast.Name) and depth < 3 and f is not None and not f.is_lambda and e.id not in f.params:
        vals = []
        for nd in walk_local(f.node):
            if isinstance(nd, ast.Assign):
                for t in nd.targets:
                    if isinstance(t, ast.Name) and t.id == e.id:
                        vals.append(nd.value)
                    elif any(isinstance(x, ast.Name) and x.id == e.id and isinstance(x.ctx, ast.Store) for x in ast.walk(t)):
                        return None
            elif isinstance(nd, (ast.For, ast.comprehension)) and any(isinstance(x, ast.Name) and x.id == e.id for x in ast.walk(nd.target)):
                return None
            elif isinstance(nd, (ast.AugAssign, ast.NamedExpr)) and isinstance(nd.target, ast.Name) and nd.target.id == e.id:
                return None
        shapes = {_operand_shape(v, f, depth + 1) for v in vals}
        if len(shapes) == 1 and None not in shapes:
            return shapes.pop()
        return None
    return None


def format_rule(ctx, R):
    P = ctx.P
    reach = export_reach(ctx)
    n = 0
    for q in sorted(reach):
        f = P.funcs.get(q)
        if f is None:
            continue
        for nd in walk_local(f.node):
            if isinstance(nd, ast.BinOp) and isinstance(nd.op, ast.Mod):
                fmt = None
                if isinstance(nd.left, ast.Constant) and isinstance(nd.left.value, str):
                    fmt = nd.left.value
                if fmt is None:
                    continue
                specs = re.findall(r"%(?:\(\w+\))?[#0\- +]*(?:\*|\d+)?(?:\.(?:\*|\d+))?([diouxXeEfFgGcrsa%])", fmt)
                nspec = len([s for s in specs if s != "%"])
                n += 1
                if isinstance(nd.right, ast.Tuple):
                    nargs = len(nd.right.elts)
                    argnodes = nd.right.elts
                elif isinstance(nd.right, ast.Call) and ntext(nd.right.func).endswith("nodePos"):
                    nargs = 2
                    argnodes = []
                else:
                    shape = _operand_shape(nd.right, f)
                    if shape is None and nspec != 1:
                        # a name / attribute / call result that may well be a tuple of the right length: not decidable here
                        # (the value-numbered emitter runs report a wrong arity through GEN.SEQINDEX / C09)
                        continue
                    nargs = shape if shape is not None else 1
                    argnodes = [nd.right] if nargs == 1 else []
                R.check(nspec == nargs, "GEN.FORMAT", "%s|%r" % (q, fmt[:30]), where(f, nd), "%d conversions, %d arguments" % (nspec, nargs), "format %r has %d conversions but gets %d arguments (TypeError)" % (fmt[:40], nspec, nargs), nontrivial=False)
                for sp, a in zip([s for s in specs if s != "%"], argnodes):
                    if sp in "diouxXeEfFgG" and isinstance(a, ast.Constant) and isinstance(a.value, str):
                        R.bad("GEN.FORMAT", "%s|%r numeric" % (q, fmt[:30]), where(f, nd), "numeric conversion %%%s applied to the string %r" % (sp, a.value))
    R.check(n >= 30, "GEN.FORMAT.inventory", "%%-formats examined: %d" % n, "", "", "fewer formats than expected", nontrivial=False)


# ---------------------------------------------------------------------------
# SIBLINGS
# ---------------------------------------------------------------------------

FAMILIES = {
    "interval": ["d3_time.d3_time_interval", "scale.d3TimeScaleMilliseconds"],
    "scale": ["scale.LinearScale", "scale.TimeScale"],
}


@rule("C11.SIBLINGS")
def siblings(ctx, R):
    P = ctx.P
    T = ctx.types
    n = 0
    for fam, members in FAMILIES.items():
        classes = [P.cls(m) for m in members]
        used = {}
        for f in P.funcs.values():
            for c in calls_in(f.node):
                if not isinstance(c.func, ast.Attribute):
                    continue
                recv = T.classes_of(c.func.value, f, f.module)
                if not recv or not (set(recv) & set(classes)):
                    continue
                # receivers that can be more than one member of the family, or whose class set came from the table
                if not any(P.method(k, c.func.attr) is not None for k in classes):
                    continue  # not a method of this interface (receiver typing is container-collapsed)
                if len(recv & set(classes)) > 1 or (fam == "scale" and f.module.name == "timeline"):
                    used.setdefault(c.func.attr, []).append((f, c))
        for meth, sites in sorted(used.items()):
            n += 1
            missing = [k.name for k in classes if P.method(k, meth) is None]
            f, c = sites[0]
            R.check(not missing, "C11.SIBLINGS", "%s family: .%s()" % (fam, meth), where(f, c), "every implementation of the %s interface defines %s" % (fam, meth), "`%s` is called on a value that may be any of %s, but %s does not define `%s` (AttributeError, e.g. for sub-10-second domains / numeric data)" % (ntext(c)[:60], [k.name for k in classes], missing, meth))
    R.check(n >= 5, "C11.SIBLINGS.inventory", "interface methods examined: %d" % n, "", "", "fewer interface calls than expected", nontrivial=False)


# ---------------------------------------------------------------------------
# RECURSION
# ---------------------------------------------------------------------------

def _longest_cycle(graph, comp):
    comp = set(comp)
    best = 0
    start = sorted(comp)[0]

    def dfs(v, seen, depth):
        nonlocal best
        for w in graph.get(v, ()):
            if w == start:
                best = max(best, depth)
            elif w in comp and w not in seen:
                dfs(w, seen | {w}, depth + 1)

    for s in sorted(comp):
        start = s
        dfs(s, {s}, 1)
    return best


def _registry_refined(ctx, graph):
    """Object-sensitive view of the interval registry for cycle detection: every method of d3_time_interval is cloned per
    registered unit, `self._local/_step/_number(...)` inside the clone of unit u goes to the closures registered for u (as
    resolved by value-numbering the module's initialisation, whatever helper built the registry), and calls whose receiver
    is written `d3_time[<constant>]` go to that unit's clone (other receivers: to every clone)."""
    from .c17 import registry_closures, IV, UNITS

    P = ctx.P
    try:
        ev, st, reg, cl = registry_closures(ctx)
        ivc = P.cls(IV)
    except (Undecided, AnchorMissing):
        return graph
    meths = {}
    for f in ivc.methods.values():
        meths[f.qual] = f
    targets_all = set()
    for u in UNITS:
        for fld in ("_local", "_step", "_number"):
            v = cl[u].get(fld)
            if isinstance(v, Closure):
                targets_all.add(v.func.qual)
    G = {k: set(v) for k, v in graph.items()}
    for u in UNITS:
        for mq, m in meths.items():
            outs = set()
            for w in graph.get(mq, ()):
                if w in targets_all:
                    continue
                outs.add(w + "@" + u if w in meths else w)
            selfn = m.params[0] if m.params else None
            for c in calls_in(m.node):
                if isinstance(c.func, ast.Attribute) and isinstance(c.func.value, ast.Name) and c.func.value.id == selfn and c.func.attr in ("_local", "_step", "_number"):
                    v = cl[u].get(c.func.attr)
                    if isinstance(v, Closure):
                        outs.add(v.func.qual)
            G[mq + "@" + u] = outs
    regname = "d3_time"

    def reg_entry(call):
        """Precise targets of `d3_time[<constant>](...)` / `d3_time[<constant>].method(...)` from the value-numbered registry."""
        recv = call.func.value if isinstance(call.func, ast.Attribute) else call.func
        if not (isinstance(recv, ast.Subscript) and isinstance(recv.value, ast.Name) and recv.value.id == regname and isinstance(recv.slice, ast.Constant)):
            return None
        if not isinstance(reg, DictV) or recv.slice.value not in reg.items:
            return None
        v = reg.items[recv.slice.value]
        if isinstance(call.func, ast.Subscript) or call.func is recv:
            if isinstance(v, Closure):
                return {v.func.qual}
            if isinstance(v, Bound) and isinstance(v.recv, Opaque):
                for u in UNITS:
                    if cl[u]["obj"].text == v.recv.text and P.method(ivc, v.name) is not None:
                        return {P.method(ivc, v.name).qual + "@" + u}
        return None

    from ..sym import Bound

    for caller, lst in ctx.cg.sites.items():
        if caller in meths or caller not in G:
            continue
        new = {q for q in G[caller] if q not in meths}
        precise_sites = [(call, quals, reg_entry(call)) for call, quals in lst]
        if any(pr is not None for _, _, pr in precise_sites):
            drop = set()
            keep = set()
            for call, quals, pr in precise_sites:
                if pr is not None:
                    drop |= set(quals)
                else:
                    keep |= set(quals)
            new = {q for q in new if q not in drop or q in keep}
            for call, quals, pr in precise_sites:
                if pr is not None:
                    new |= pr
        for call, quals in lst:
            if reg_entry(call) is not None:
                continue
            tg = [q for q in quals if q in meths]
            if not tg:
                continue
            recv = call.func.value if isinstance(call.func, ast.Attribute) and P.method(ivc, call.func.attr) is not None else call.func
            unit = None
            if isinstance(recv, ast.Subscript) and isinstance(recv.value, ast.Name) and recv.value.id == regname and isinstance(recv.slice, ast.Constant) and recv.slice.value in UNITS:
                unit = recv.slice.value
            for q in tg:
                for u in ([unit] if unit else UNITS):
                    new.add(q + "@" + u)
        G[caller] = new
    for mq in meths:
        G[mq] = set()
    return G


def _literal_depth(e):
    if isinstance(e, ast.Dict):
        return 1 + max([_literal_depth(v) for v in e.values] + [0])
    if isinstance(e, (ast.List, ast.Tuple, ast.Set)):
        return 1 + max([_literal_depth(v) for v in e.elts] + [0])
    return 0


def _recursion_on_literal(ctx, f):
    """A self-recursive function whose every recursive call sits in a loop over (the items of) one of its parameters and hands
    the loop's element on in that same parameter, and which is entered from outside only with a module-level literal for that
    parameter, recurses at most as deep as the literal is nested.  Returns the reason text or None."""
    if f is None or f.is_lambda or f.cls is not None:
        return None
    P = ctx.P
    rec = [c for c in ast.walk(f.node) if isinstance(c, ast.Call) and isinstance(c.func, ast.Name) and c.func.id == f.name]
    if not rec:
        return None
    pidx = None
    for c in rec:
        # enclosing for-loops over a parameter
        n = c
        found = None
        while n is not None and n is not f.node:
            par = getattr(n, "_parent", None)
            if isinstance(par, ast.For) and n in par.body:
                it = par.iter
                src = None
                if isinstance(it, ast.Name):
                    src = it.id
                elif isinstance(it, ast.Call) and isinstance(it.func, ast.Attribute) and it.func.attr in ("items", "values") and isinstance(it.func.value, ast.Name) and not it.args:
                    src = it.func.value.id
                if src in f.params:
                    tn = {x.id for x in ast.walk(par.target) if isinstance(x, ast.Name)}
                    i = f.params.index(src)
                    arg = c.args[i] if i < len(c.args) else next((k.value for k in c.keywords if k.arg == src), None)
                    if isinstance(arg, ast.Name) and arg.id in tn:
                        found = i
                        break
            n = par
        if found is None or (pidx is not None and found != pidx):
            return None
        pidx = found
    pname = f.params[pidx]
    if any(isinstance(n, ast.Name) and n.id == pname and isinstance(n.ctx, ast.Store) for n in walk_local(f.node)):
        return None
    depth = 0
    n_ext = 0
    for caller, sites in ctx.cg.sites.items():
        if caller == f.qual:
            continue
        for call, quals in sites:
            if f.qual not in quals:
                continue
            n_ext += 1
            arg = call.args[pidx] if pidx < len(call.args) else next((k.value for k in call.keywords if k.arg == pname), None)
            g = P.funcs.get(caller)
            mod = g.module if g is not None else f.module
            lit = arg
            if isinstance(arg, ast.Name):
                ga = mod.global_assigns(arg.id)
                lit = ga[0].value if len(ga) == 1 else None
                if any(isinstance(x, ast.Global) and arg.id in x.names for x in ast.walk(mod.tree)):
                    lit = None
            if not isinstance(lit, (ast.Dict, ast.List, ast.Tuple, ast.Set)):
                return None
            depth = max(depth, _literal_depth(lit))
    if not n_ext:
        return None
    return "%s recurses only on the elements of its parameter `%s`, which every outside call binds to a module-level literal nested %d deep" % (f.qual, pname, depth)


@rule("C11.RECURSION")
def recursion(ctx, R):
    P = ctx.P
    cg = ctx.cg
    reach = export_reach(ctx)
    graph = _registry_refined(ctx, cg.out)
    within = set(q for q in reach if q in graph) | {q for q in graph if "@" in q}
    comps = cg._sccs(graph, within)
    LIMIT, CLUSTER, WALLS = 1000, 200, 2
    # entry depth: longest acyclic call chain from a root to the component (DAG over SCC condensation)
    allc = cg._sccs(graph, None)
    comp_of = {}
    for c in allc:
        for q in c:
            comp_of[q] = tuple(c)
    memo = {}
    import sys

    sys.setrecursionlimit(10000)

    def depth_to(target_comp):
        tset = set(target_comp)
        best = {}

        def longest(q, stack):
            if q in tset:
                return 0
            if q in best:
                return best[q]
            best[q] = -10**6
            r = -10**6
            for w in graph.get(q, ()):
                if w in stack or comp_of.get(w) == comp_of.get(q) and comp_of.get(q) is not None and w != q and w not in tset:
                    continue
                d = longest(w, stack | {q})
                if d > -10**5:
                    r = max(r, d + 1)
            best[q] = r
            return r

        return max([longest(r_, frozenset()) for r_ in ROOTS if r_ in graph] + [0])

    for comp in comps:
        name = "cycle through " + ", ".join(sorted(comp)[:3]) + (" ..." if len(comp) > 3 else "")
        if len(comp) == 1:
            lit = _recursion_on_literal(ctx, P.funcs.get(sorted(comp)[0].split("@")[0]))
            if lit:
                R.ok("C11.RECURSION", "recursive function %s" % sorted(comp)[0], P.funcs[sorted(comp)[0].split("@")[0]].loc(), "depth bounded by a constant: " + lit)
                continue
        frames = _longest_cycle(graph, comp)
        # known finding: recursion depth grows with the size of a conflict cluster
        tops = set()
        for q in comp:
            g_ = P.funcs.get(q.split("@")[0])
            while g_ is not None and g_.parent is not None:
                g_ = g_.parent
            if g_ is not None:
                tops.add(g_.qual)
        kkey = "recursive component {%s}" % ", ".join(sorted(tops))
        # the recorded findings name the traversals that recursed when they were recorded; if some of those have since been
        # made iterative, what is left of the component is still that finding (anything outside it is a new one)
        from ..report import load_known

        for kf in (load_known() or {}).get("open", []) if isinstance(load_known(), dict) else (load_known() or []):
            if kf.get("rule") == "C11.RECURSION" and kf.get("key", "").startswith("recursive component {"):
                recorded = set(x.strip() for x in kf["key"][len("recursive component {"):-1].split(","))
                if tops and tops <= recorded and len(tops) >= 2 and kf["key"] != kkey:
                    kkey = kf["key"]
        R.bad("C11.RECURSION", kkey, P.funcs[sorted(comp)[0].split("@")[0]].loc(), "block traversal is recursive (%d frames per level): clusters beyond ~%d labels exhaust the interpreter's recursion limit" % (frames, (LIMIT - 20) // max(frames, 1)))
        entry = depth_to(comp)
        need = entry + frames * (CLUSTER + WALLS)
        R.check(need <= LIMIT, "C11.RECURSION", "stack bound for %s" % kkey, P.funcs[sorted(comp)[0].split("@")[0]].loc(), "entry depth %d + %d frames/level x %d levels = %d <= %d" % (entry, frames, CLUSTER + WALLS, need, LIMIT),
                "a conflict cluster of %d labels needs %d + %d x %d = %d stack frames > %d (default recursion limit): RecursionError inside the documented input domain" % (CLUSTER, entry, frames, CLUSTER + WALLS, need, LIMIT))
    R.check(len(comps) >= 1, "C11.RECURSION.inventory", "recursive components on the export call graph: %d" % len(comps), "", "", "", nontrivial=False)


# ---------------------------------------------------------------------------
# DEGENERATE
# ---------------------------------------------------------------------------

@rule("C11.DEGENERATE")
def degenerate(ctx, R):
    P = ctx.P
    for clamp in (False, True):
        ev = new_eval(P)
        ev.assume_order(Opaque("d0"), Opaque("d1"), "eq")
        ev.assume_order(Opaque("r0"), Opaque("r1"), "ne")
        st = ev.new_state(module="scale")
        d = Seq("list", [Opaque("d0"), Opaque("d1")])
        r = Seq("list", [Opaque("r0"), Opaque("r1")])
        s = ev.instantiate(P.cls("scale.LinearScale"), [d, r], {"clamp": TRUE} if clamp else {}, st)
        f = P.func("scale.LinearScale.__call__")
        v = as_num(ev.call_closure(Closure(f, None, selfv=s), [Opaque("x")], {}, st))
        R.check(v is not None and v.equals(A("r0")), "C11.DEGENERATE", "LinearScale %s" % ("clamped" if clamp else "unclamped"), where(f), "a degenerate domain maps every value to range[0]", "with a degenerate domain [a, a] scale(x) is %s, expected the start of the range" % (v.key() if v is not None else None))
    # tick range / format of a degenerate domain do not divide
    f = P.func("scale.d3_scale_linearTickRange")
    ev = new_eval(P)
    ev.assume_order(Opaque("a"), Opaque("b"), "eq")
    st = ev.new_state(f)
    r = ev.call_closure(Closure(f, None), [Seq("list", [Opaque("a"), Opaque("b")]), C(10)], {}, st)
    ok = isinstance(r, Seq) and len(r.items) == 3 and num_const(r.items[2]) == 0
    R.check(ok, "C11.DEGENERATE", "linear tick range", where(f), "degenerate domain: (a, a, 0) without arithmetic on the span", "for a degenerate domain the tick range is %s" % show(r))
    g = P.func("scale.d3_scale_linearPrecision")
    ev = new_eval(P)
    st = ev.new_state(g)
    r = ev.call_closure(Closure(g, None), [C(0)], {}, st)
    R.check(num_const(r) == 0, "C11.DEGENERATE", "precision of a zero step", where(g), "precision(0) == 0", "precision(0) is %s" % show(r))
    # drange with a zero step and start == stop yields nothing and terminates
    h = P.func("scale.drange")
    from ..normalise import desugar_itertools

    ws = [n for n in desugar_itertools(h.node.body)[0] if isinstance(n, ast.While)]
    ok = len(ws) == 1 and isinstance(ws[0].test, ast.Compare) and len(ws[0].test.ops) == 1 and (
        (isinstance(ws[0].test.ops[0], ast.Lt) and ntext(ws[0].test.comparators[0]) == h.params[1]) or (isinstance(ws[0].test.ops[0], ast.Gt) and ntext(ws[0].test.left) == h.params[1]))
    R.check(ok, "C11.DEGENERATE", "tick generator on (a, a, 0)", where(h), "strict `<` test: an empty range yields no tick and terminates", "the tick generator does not test `r < stop` strictly: the degenerate range (a, a, 0) would loop forever or divide")


def gen_for(modules, floor_funcs, floor_attrs):
    """GEN.DEFINED + GEN.ATTRS restricted to all functions of the given modules (used by the other properties for
    the code they are anchored in: a NameError / AttributeError there breaks them as surely as a wrong formula)."""

    def run(ctx, R):
        reach = {q for q, f in ctx.P.funcs.items() if f.module.name in modules}
        defined(ctx, R, reach=reach, floor=floor_funcs)
        attrs(ctx, R, reach=reach, floor=floor_attrs)
        from .crash import crash_pack

        crash_pack(lambda _ctx: reach)(ctx, R)

    run.rule_id = "GEN.DEFINED"
    run.__name__ = "gen_" + "_".join(modules)
    return run


def _uni2tex_rules():
    from .c19 import TOTALITY
    return TOTALITY


def _rangeint(ctx, R):
    from .c16 import rangeint
    return rangeint(ctx, R)


_rangeint.rule_id = "C16.RANGEINT"


def _calfield(ctx, R):
    from .c17 import calfield
    return calfield(ctx, R)


_calfield.rule_id = "C17.CALFIELD"


def _subms(ctx, R):
    from .c16 import subms
    return subms(ctx, R)


_subms.rule_id = "C16.SUBMS"


def _uni(ctx, R):
    for r in _uni2tex_rules():
        r(ctx, R)


_uni.rule_id = "C19.TOTAL"

def _crash(ctx, R):
    from .crash import crash_pack
    return crash_pack(export_reach)(ctx, R)


_crash.rule_id = "GEN.CRASH"


def _seqindex(ctx, R):
    from .crash import seqindex, geomset, datumkeys, timekind
    seqindex(ctx, R)
    geomset(ctx, R)
    datumkeys(ctx, R)
    timekind(ctx, R)


_seqindex.rule_id = "GEN.SEQINDEX"


def _initorder(ctx, R):
    # the axis is initialised from the normalised data: before parse_items the dicts still hold raw dates / times of day,
    # on which the time scale raises TypeError
    from .c07 import init_order
    return init_order(ctx, R)


_initorder.rule_id = "C07.INIT-ORDER"

def _hextotal(ctx, R):
    from .crash import hex_total
    return hex_total(ctx, R)


_hextotal.rule_id = "C11.HEXTOTAL"


def _int2name(ctx, R):
    from .c20 import int2name_total
    return int2name_total(ctx, R)


_int2name.rule_id = "C11.INT2NAME"

RULES = [none_rule, divzero, raise_rule, nolatex, index_rule, defined, attrs, opts_merge, optkeys, format_rule, siblings, recursion, degenerate, _rangeint, _calfield, _subms, _uni, _crash, _seqindex, _initorder, _hextotal, _int2name]
