"""C02 — labels are displaced as little as possible (least-squares optimal placement)."""
import ast

from .util import *
from . import qp
from . import vpsc_pack
from .c01 import rho_of, RHO_C02, sort_rule, chain_rule, gap_rule, opts_rule, solve_rule, alllayers

EXPLANATION = (
    "The quadratic program handed to the solver is the one the property describes: every node's variable is created "
    "with desired position targetPos = parent.currentPos if it has a parent (its own stub in the layer below) else "
    "idealPos, assigned for every node before the sort (C02.TARGET); node variables all carry the same unit weight "
    "and scale, walls a constant weight >= 1e9 (C02.WEIGHTS); Force.compute solves layers in ascending order and "
    "every stub is appended to the layer directly below the item it was created from, so a parent's position is final "
    "when its child's layer reads it (C02.ORDER, with the stub-chain rule of C04); the reported position is "
    "round-to-nearest of the solver's (C02.ROUND); plus the constraint system of C01 (SORT/CHAIN/GAP/OPTS/SOLVE), the "
    "walls of C03 and the structure of the optimality iteration (VPSC.OPT pack: split first, multiplier tolerance, "
    "dfdv, multiplier accumulation and freshness, stationarity of the block position, convergence loop) and COST.  "
    "Not decided: that the active-set search reaches the optimum (numerical algorithm)."
    '  Also part of this check: the feasibility structure of the solver (VPSC.FEAS) and complete stub chains (C04.STUBCHAIN), which optimality presupposes.'
)
ASSUMPTIONS = ["VPSC with intact structure converges to the optimum of the separation QP (not decided statically)"]


@rule("C02.TARGET")
def target(ctx, R):
    P = ctx.P
    f = P.func(qp.RO)
    M = qp.models(ctx)[(False, False)]
    want = "phi(truth(elem(nodes).parent), elem(nodes).parent.currentPos, elem(nodes).idealPos)"
    alts = {want, "phi(cmp(isnot, elem(nodes).parent, None), elem(nodes).parent.currentPos, elem(nodes).idealPos)",
            "phi(cmp(is, elem(nodes).parent, None), elem(nodes).idealPos, elem(nodes).parent.currentPos)"}
    d = M.var_desired
    R.check(d is not None and key(d) in alts, "C02.TARGET", qp.RO + "|desired position", where(f),
            "each node variable's desired position is parent.currentPos if the node has a parent else idealPos",
            "a node variable's desired position is %s: not 'the final position of its own stub in the layer below, else its data position'" % (show(d, 300) if d is not None else "never set (no variable per node)"))
    # the sort key must be that same target
    t = M.target
    if t is not None:
        R.check(key(t) in alts, "C02.TARGET", qp.RO + "|targetPos", where(f), "targetPos is assigned that value for every node", "node.targetPos is assigned %s" % show(t, 300))
    n = M.var_node
    R.check(n is not None and key(n) == "elem(nodes)", "C02.TARGET", qp.RO + "|variable carries its node", where(f), "variable.node is the node it was made from", "variables do not carry the node they were made from")


@rule("C02.WEIGHTS")
def weights(ctx, R):
    P = ctx.P
    f = P.func(qp.RO)
    for cfgk, M in sorted(qp.models(ctx).items()):
        tag = "minPos %s, maxPos %s" % ("absent" if cfgk[0] else "present", "absent" if cfgk[1] else "present")
        w, s = M.var_weight, getattr(M, "var_scale", None)
        R.check(w is not None and num_const(w) == 1 and s is not None and num_const(s) == 1, "C02.WEIGHTS", tag + "|node weight", where(f), "all node variables have weight 1 and scale 1", "node variables get weight %s / scale %s: the objective is no longer the plain sum of squared displacements" % (key(w) if w is not None else None, key(s) if s is not None else None))
        for wl in M.walls:
            wc = num_const(wl["weight"]) if wl.get("weight") is not None else None
            R.check(wc is not None and wc >= 10**9, "C02.WEIGHTS", tag + "|%s wall weight" % wl["wall_side"], where(f, wl["node"]), "wall weight %s >= 1e9" % wc,
                    "the %s wall has weight %s: with 1000 labels pushing up to 1e4 units each the wall yields by more than 0.01 unless its weight is >= 1e9, so items leave the bounds although they fit (or the weight is not a positive constant)" % (wl["wall_side"], key(wl["weight"]) if wl.get("weight") is not None else None))


@rule("C02.ROUND")
def round_rule(ctx, R):
    P = ctx.P
    f = P.func(qp.RO)
    M = qp.models(ctx)[(False, False)]
    w = M.writeback
    if w is None:
        R.bad("C02.ROUND", qp.RO, where(f), "no write-back of solved positions")
        return
    rho = rho_of(w["value"], key(w["el"]))
    R.check(rho in RHO_C02, "C02.ROUND", qp.RO + "|rounding", where(f, w["node"]), "reported position = %s(solver position): within 0.5 of the optimum" % rho,
            "positions are written back as %s: not round-to-nearest, so a reported position can be up to 1 (or more) from the optimum" % show(w["value"], 120))


@rule("C02.ORDER")
def order(ctx, R):
    """Layers are solved nearest-first (ascending index)."""
    P = ctx.P
    F = qp.force_model(ctx)
    f = F.func
    loops = [e for e in F.st.events if e[0] == "loop" and any(b[0] == "mark" and b[1] == "removeOverlap" for b in qp._flat_events(e[3]))]
    ok = False
    detail = "no loop over the layers"
    if loops:
        itk = key(loops[0][1])
        ok = itk in ("enumerate(LAYERS)", "LAYERS", "range(len(LAYERS))")
        detail = "iterates %s" % itk
    R.check(ok, "C02.ORDER", "Force.compute|ascending layers", where(f), detail, "layers are not solved in ascending order (%s): a child layer would read its stubs' positions before they are final" % detail)


def _walls(ctx, R):
    from .c03 import walls
    return walls(ctx, R)


_walls.rule_id = "C03.WALLS"

def _reset(ctx, R):
    from .c04 import reset
    return reset(ctx, R)


_reset.rule_id = "C06.RESET"


def _lz(mod, fn, rid):
    def run(ctx, R):
        import importlib
        return getattr(importlib.import_module("sa.rules." + mod), fn)(ctx, R)

    run.rule_id = rid
    run.__name__ = fn
    return run

# optimality presupposes feasibility (VPSC.FEAS) and complete stub chains (targets come from the stub one layer below)
# each engine starts from a private copy of the defaults and hands the caller's options on: spacing and bounds set on one
# engine must not leak into the module defaults / other engines (C04.OPTFLOW)
RULES = [target, weights, round_rule, order, sort_rule, chain_rule, gap_rule, opts_rule, solve_rule, alllayers, _walls, _reset] + vpsc_pack.OPT + vpsc_pack.COST + vpsc_pack.FEAS + [_lz("c04", "stubchain_instance", "C04.STUBCHAIN"), _lz("c04", "stubchain", "C04.STUBCHAIN-ALL-N"), _lz("c03", "layerwidth", "C03.LAYERWIDTH"), _lz("c04", "optflow", "C04.OPTFLOW")]
