"""C14 — nice() only widens a domain, by less than two tick steps, to round end points."""
import ast
import re

from .util import *
from . import state as statepack

EXPLANATION = (
    "C14.PAIRING: d3_scale_nice is value-numbered for both orderings of the end points: the index holding the smaller "
    "value receives floor, the other ceil, written back to the positions they were read from (orientation kept), for "
    "dict-style and interval-style nicers.  C14.STEPFNS: the step nicer is floor(x/s)*s / ceil(x/s)*s with one s, "
    "identity when s is falsy.  C14.LINNICE: linear nice applies d3_scale_nice with the step of the tick range of the "
    "current domain and the same count.  C14.TIME: TimeScale.nice reads its domain once, chooses the interval once "
    "from the original domain (count 10 by default = the tick default, C14.SAMECOUNT), and stores "
    "d3_scale_nice(domain, interval) (skip<=1) or d3_scale_nice(domain, {floor: time_nice_floor, ceil: time_nice_ceil}) "
    "(skip>1); the skip loops are unbounded while-loops stepping exactly one millisecond outward then re-flooring / "
    "re-ceiling; `skipped` tests the 1 ms window [date, date+1ms) with the chosen skip.  C14.CEIL: interval.ceil(t) == "
    "step(floor(t - 1ms), 1).  Decides structure; '< 2 tick steps' and roundness of values are numeric and not decided."
    '  Also part of this check: the unit floors really round down and the offsets move by whole units (C17.UNITTABLE, C17.MONTHSTEP, C17.ROUND).'
)

NICE = "scale.d3_scale_nice"


@rule("C14.PAIRING")
def pairing(ctx, R):
    P = ctx.P
    f = P.func(NICE)
    R.saw(f)
    for style in ("dict", "interval"):
        for order, want in (("lt", ["F(x)", "G(y)"]), ("gt", ["G(x)", "F(y)"])):
            ev = new_eval(P)
            ev.assume_order(Opaque("x"), Opaque("y"), order)
            st = ev.new_state(f)
            dom = Seq("list", [Opaque("x"), Opaque("y")], ident="P:dom")
            if style == "dict":
                nice = DictV({"floor": Opaque("F"), "ceil": Opaque("G")})
            else:
                nice = Opaque("N", kind="obj")
                st.heap[("N", "floor")] = Opaque("F")
                st.heap[("N", "ceil")] = Opaque("G")
            r = ev.call_closure(Closure(f, None), [dom, nice], {}, st)
            got = [key(v) for v in dom.items]
            R.check(
                got == want and (r is dom or key(r) == key(dom)), "C14.PAIRING", "%s nicer, x %s y" % (style, order), where(f),
                "domain becomes %s in place and is returned" % want,
                "for x %s y the %s-style nicer turns [x, y] into %s (returned %s): an end point moves inward or the orientation flips" % (order, style, got, show(r)),
            )


@rule("C14.STEPFNS")
def stepfns(ctx, R):
    P = ctx.P
    f = P.func("scale.d3_scale_niceStep")
    R.saw(f)
    ev = new_eval(P)
    ev.assume("truth(s)", True)
    st = ev.new_state(f)
    r = ev.call_closure(Closure(f, None), [Opaque("s")], {}, st)
    ok = isinstance(r, DictV) and set(r.items) >= {"floor", "ceil"}
    if ok:
        x, s = A("x"), A("s")
        fl = as_num(ev.call(r.items["floor"], [Opaque("x")], {}, st))
        ce = as_num(ev.call(r.items["ceil"], [Opaque("x")], {}, st))
        R.check(fl is not None and fl.equals(Num.atom(("floor", (x / s).key())) * s), "C14.STEPFNS", "floor", where(f), "floor(x) == floor(x/s)*s", "step nicer floor(x) is %s" % fl)
        R.check(ce is not None and ce.equals(Num.atom(("ceil", (x / s).key())) * s), "C14.STEPFNS", "ceil", where(f), "ceil(x) == ceil(x/s)*s", "step nicer ceil(x) is %s" % ce)
    else:
        R.undecided("C14.STEPFNS", "shape", where(f), "niceStep(s) does not return a {'floor','ceil'} pair the recogniser understands: %s" % show(r))
    ev = new_eval(P)
    ev.assume("truth(s)", False)
    st = ev.new_state(f)
    r = ev.call_closure(Closure(f, None), [Opaque("s")], {}, st)
    ok = isinstance(r, DictV) and all(k in r.items and key(ev.call(r.items[k], [Opaque("x")], {}, st)) == "x" for k in ("floor", "ceil"))
    R.check(ok, "C14.STEPFNS", "falsy step", where(f), "identity pair for a zero step", "niceStep(0) is not the identity pair: %s" % show(r))


@rule("C14.LINNICE")
def linnice(ctx, R):
    P = ctx.P
    f = P.func("scale.d3_scale_linearNice")
    R.saw(f)
    calls = []

    def hook(fv, args, kwargs, node, st_):
        if isinstance(fv, Closure) and fv.func.qual == "scale.d3_scale_linearTickRange":
            calls.append(("tr", args[0], key(args[1]) if len(args) > 1 else None))
            return Seq("list", [Opaque("lo"), Opaque("hi"), Opaque("STEP%d" % len([c for c in calls if c[0] == "tr"]))])
        if isinstance(fv, Closure) and fv.func.qual == NICE:
            nice = args[1]
            k = None
            if isinstance(nice, DictV) and "floor" in nice.items:
                k = key(st_ev[0].call(nice.items["floor"], [Opaque("t")], {}, st_))
            calls.append(("nice", args[0], k))
            return args[0]
        return None

    st_ev = [None]
    ev = new_eval(P, on_call=hook)
    st_ev[0] = ev
    for i in (1, 2, 3):
        ev.assume("truth(STEP%d)" % i, True)
    st = ev.new_state(f)
    dom = Seq("list", [Opaque("x"), Opaque("y")], ident="P:dom")
    r = ev.call_closure(Closure(f, None), [dom, Opaque("m")], {}, st)
    nices = [c for c in calls if c[0] == "nice"]
    trs = [c for c in calls if c[0] == "tr"]
    ok = len(nices) >= 1 and all(c[1] is dom for c in nices) and all(c[1] is dom and c[2] == "m" for c in trs) and len(trs) == len(nices)
    if ok:
        for j, c in enumerate(nices):
            t = A("t")
            s = A("STEP%d" % (j + 1))
            if c[2] != (Num.atom(("floor", (t / s).key())) * s).key():
                ok = False
    R.check(ok and (r is dom), "C14.LINNICE", f.qual, where(f), "linearNice(domain, m): d3_scale_nice(domain, niceStep(tickRange(domain, m).step)), %d pass(es), returns the domain" % len(nices), "linear nice does not floor/ceil the current domain to the step of its own tick range with the same count (calls: %s)" % [(c[0], c[2]) for c in calls])
    g = P.func("scale.LinearScale.nice")
    seen = []

    def hook2(fv, args, kwargs, node, st_):
        if isinstance(fv, Closure) and fv.func.qual == f.qual:
            seen.append((list(args), dict(kwargs)))
            # linearNice rounds the list it is given in place and returns it
            return args[0] if args else Opaque("NICED")
        if isinstance(fv, Closure) and fv.func.qual == "scale.LinearScale.rescale":
            return fv.selfv
        return None

    ev = new_eval(P, on_call=hook2)
    st = ev.new_state(g)
    s = Opaque("self", cls=P.cls("scale.LinearScale"), kind="obj")
    cell = Seq("list", [Opaque("d0"), Opaque("d1")], ident="P:DOM")
    st.heap[("self", "_domain")] = cell
    ev.call_closure(Closure(g, None, selfv=s), [Opaque("m")], {}, st)
    ok = len(seen) == 1
    detail = "%d calls of d3_scale_linearNice" % len(seen)
    if ok:
        args, kwargs = seen[0]
        marg = args[1] if len(args) > 1 else kwargs.get("m")
        given = args[0] if args else None
        # the list handed over is the current domain (itself or a copy of it), the count is the caller's
        ok = given is not None and (given is cell or (isinstance(given, Seq) and key(given) == key(cell))) and marg is not None and key(marg) == "m"
        detail = "called with (%s, %s)" % (show(given) if given is not None else None, show(marg) if marg is not None else None)
        if ok:
            # ... and what the scale holds afterwards is the rounded list
            after = st.heap.get(("self", "_domain"))
            ok = after is given
            if not ok:
                detail = "the rounded list is not what the scale keeps as its domain (%s)" % show(after)
    R.check(ok, "C14.LINNICE", g.qual, where(g), "LinearScale.nice(m) rounds its current domain with m and keeps the result", "LinearScale.nice does not round its own domain with the caller's count and keep the result: %s" % detail)


TS = "scale.TimeScale"


def run_time_nice(ctx, order, skip_gt1, interval_arg=NONE):
    P = ctx.P
    log = {"tick": [], "dom_get": 0, "dom_set": []}
    doms = []

    def hook(fv, args, kwargs, node, st_):
        if not isinstance(fv, Closure):
            return None
        q = fv.func.qual
        if q == TS + ".domain":
            if not args and not kwargs:
                log["dom_get"] += 1
                d = Seq("list", [Opaque("D0"), Opaque("D1")], ident="A:domain()#%d" % log["dom_get"])
                doms.append(d)
                return d
            log["dom_set"].append(args[0] if args else kwargs.get("x"))
            return fv.selfv
        if q == TS + ".tickMethod":
            log["tick"].append([key(a) for a in args])
            return Seq("list", [Opaque("INTERVAL", kind="obj"), Num.atom("SKIP")])
        return None

    ev = new_eval(P, on_call=hook, opaque=["scale.dt2milli", "scale.milli2dt", "scale.time_nice_floor", "scale.time_nice_ceil"])
    ev.assume_order(Opaque("D0"), Opaque("D1"), order)
    ev.assume_order(Num.atom("SKIP"), C(1), "gt" if skip_gt1 else "eq")
    f = P.func(TS + ".nice")
    st = ev.new_state(f)
    s = Opaque("self", cls=P.cls(TS), kind="obj")
    r = ev.call_closure(Closure(f, None, selfv=s), [interval_arg], {}, st)
    return ev, st, r, log, doms


@rule("C14.TIME")
def time_nice(ctx, R):
    P = ctx.P
    f = P.func(TS + ".nice")
    R.saw(f, P.func("scale.time_nice_floor"), P.func("scale.time_nice_ceil"))
    pred_quals = set()
    for skip_gt1 in (False, True):
        for order in ("lt", "gt"):
            ev, st, r, log, doms = run_time_nice(ctx, order, skip_gt1)
            tag = "skip%s1, D0 %s D1" % (">" if skip_gt1 else "<=", order)
            R.check(len(log["tick"]) == 1, "C14.TIME", tag + " interval chosen once", where(f), "tickMethod consulted once, on the original domain", "the tick interval is chosen %d times: a second pass re-nices the already widened domain with a coarser interval" % len(log["tick"]))
            R.check(len(log["dom_set"]) == 1, "C14.TIME", tag + " stored once", where(f), "the niced domain is stored once", "nice() stores a domain %d times" % len(log["dom_set"]))
            if len(log["dom_set"]) != 1:
                continue
            val = log["dom_set"][0]
            if skip_gt1:
                F = lambda d: "scale.time_nice_floor(%s, <fn %s.nice.skipped>, INTERVAL)" % (d, TS)
                G = lambda d: "scale.time_nice_ceil(%s, <fn %s.nice.skipped>, INTERVAL)" % (d, TS)
            else:
                F = lambda d: "INTERVAL.floor(%s)" % d
                G = lambda d: "INTERVAL.ceil(%s)" % d
            want = [F("D0"), G("D1")] if order == "lt" else [G("D0"), F("D1")]
            got = [key(x) for x in val.items] if isinstance(val, Seq) else [key(val)]
            if skip_gt1:
                # the predicate handed to both helpers is a function nested in nice(), whatever it is called
                preds = set()
                for gk in got:
                    m_ = re.match(r"^scale\.time_nice_(?:floor|ceil)\(D[01], <fn (%s\.nice\.[\w<>#]+)>, INTERVAL\)$" % re.escape(TS), gk)
                    if m_:
                        preds.add(m_.group(1))
                if len(preds) == 1:
                    pred_quals.add(next(iter(preds)))
                    want = [w.replace("<fn %s.nice.skipped>" % TS, "<fn %s>" % next(iter(preds))) for w in want]
            R.check(got == want, "C14.TIME", tag + " value", where(f), "stores %s" % want, "nice() stores %s, expected %s (floor on the earlier end, ceil on the later, orientation kept)" % (got, want))
    # skipped(date)
    ev, st, r, log, doms = run_time_nice(ctx, "lt", True)
    val = log["dom_set"][0] if log["dom_set"] else None
    sk = None
    for e in st.events:
        pass
    g = [x for x in P.nested(f) if not x.is_lambda]
    skf = next((x for x in g if x.qual in pred_quals), None) if len(pred_quals) == 1 else None
    if skf is None:
        R.bad("C14.TIME", "skipped", where(f), "no nested predicate `skipped` in TimeScale.nice (a function of nice() handed to both time_nice_floor and time_nice_ceil)")
    else:
        ev2 = new_eval(P, opaque=["scale.dt2milli", "scale.milli2dt"])
        p_int, p_skip = (f.params[1], f.params[2]) if len(f.params) > 2 else ("interval", "skip")  # nice(self, interval, skip)
        env = Env({p_int: Opaque("INTERVAL", kind="obj"), p_skip: Num.atom("SKIP")}, ev2.module_env("scale"), "scale", f)
        st2 = State(Env({}, env, "scale", skf))
        ev2.assume("cmp(is, date, None)", False)
        got = ev2.call_closure(Closure(skf, env), [Opaque("date")], {}, st2)
        st3 = State(Env({"date": Opaque("date"), "interval": Opaque("INTERVAL", kind="obj"), "skip": Num.atom("SKIP")}, ev2.module_env("scale"), "scale", None))
        rng = "interval.range(date, milli2dt(dt2milli(date) + 1), skip)"
        wants = [pexpr(ev2, st3, t % rng) for t in ("not len(%s)", "len(%s) == 0", "not %s", "len(%s) < 1", "%s == []")]
        R.check(any(key(got) == key(w) for w in wants), "C14.TIME", "skipped(date)", where(skf), "skipped(d) == no boundary of the chosen skip in [d, d+1ms)", "skipped(date) is %s" % show(got))
    # the skip loops
    for name, meth, sign in (("scale.time_nice_floor", "floor", "-"), ("scale.time_nice_ceil", "ceil", "+")):
        h = P.func(name)
        ws = [n for n in h.node.body if isinstance(n, (ast.While, ast.For))]
        if len(ws) == 1 and isinstance(ws[0], ast.For):
            R.bad("C14.TIME", name + " loop", where(h), "the skip search is a bounded for-loop: it stops on a non-round value when more boundaries must be skipped")
            continue
        if len(ws) != 1:
            R.undecided("C14.TIME", name + " loop", where(h), "the skip search is not a single while-loop in the function body: the loop recogniser does not apply")
            continue
        w = ws[0]
        date_p, skipped_p, interval_p = h.params[:3]
        ev3 = new_eval(P, opaque=["scale.dt2milli", "scale.milli2dt"])
        st4 = ev3.new_state(h, {date_p: Opaque("date"), skipped_p: Opaque("skipped"), interval_p: Opaque("INTERVAL", kind="obj")})
        pre = [s for s in h.node.body[: h.node.body.index(w)]]
        ev3.block(pre, st4, [])
        var = None
        t = w.test
        if isinstance(t, ast.Call) and isinstance(t.func, ast.Name) and t.func.id == skipped_p and len(t.args) == 1 and isinstance(t.args[0], ast.Name):
            var = t.args[0].id
        init = st4.env.lookup(var) if var else None
        R.check(var is not None and init is not None and key(init) == "INTERVAL.%s(date)" % meth, "C14.TIME", name + " init", where(h, w), "starts from interval.%s(date) and loops while skipped(it)" % meth, "loop test `%s` / initial value %s" % (ntext(t), show(init) if init is not None else "?"))
        if var is None:
            continue
        st4.env.assign(var, Opaque("nd"))
        ev3.block(w.body, st4, [])
        after = st4.env.lookup(var)
        st5 = State(Env({"nd": Opaque("nd"), "interval": Opaque("INTERVAL", kind="obj")}, ev3.module_env("scale"), "scale", None))
        want = pexpr(ev3, st5, "interval.%s(milli2dt(dt2milli(nd) %s 1))" % (meth, sign))
        R.check(key(after) == key(want), "C14.TIME", name + " step", where(h, w), "each pass moves exactly 1 ms outward and re-%ss" % meth, "one pass turns nd into %s, expected %s" % (show(after), show(want)))
        rets = [s for s in h.node.body[h.node.body.index(w) + 1:] if isinstance(s, ast.Return)]
        R.check(len(rets) == 1 and isinstance(rets[0].value, ast.Name) and rets[0].value.id == var and (len(w.orelse) == 0), "C14.TIME", name + " result", where(h), "returns the first non-skipped boundary", "does not return the loop variable")


@rule("C14.SAMECOUNT")
def samecount(ctx, R):
    P = ctx.P
    ev, st, r, log, doms = run_time_nice(ctx, "lt", False)
    f = P.func(TS + ".nice")
    nice_count = log["tick"][0][1] if log["tick"] and len(log["tick"][0]) > 1 else None
    # ticks()
    tlog = []

    def hook(fv, args, kwargs, node, st_):
        if isinstance(fv, Closure) and fv.func.qual == TS + ".tickMethod":
            tlog.append([key(a) for a in args])
            return Seq("list", [Opaque("INTERVAL", kind="obj"), Num.atom("SKIP")])
        if isinstance(fv, Closure) and fv.func.qual == TS + ".domain" and not args:
            return Seq("list", [Opaque("D0"), Opaque("D1")])
        return None

    g = P.func(TS + ".ticks")
    ev2 = new_eval(P, on_call=hook, opaque=["scale.dt2milli", "scale.milli2dt"])
    ev2.assume_order(Opaque("D0"), Opaque("D1"), "lt")
    st2 = ev2.new_state(g)
    s = Opaque("self", cls=P.cls(TS), kind="obj")
    ev2.call_closure(Closure(g, None, selfv=s), [NONE], {}, st2)
    ticks_count = tlog[0][1] if tlog and len(tlog[0]) > 1 else None
    R.check(nice_count is not None and nice_count == ticks_count, "C14.SAMECOUNT", "default counts", where(f), "nice() and ticks() default to the same count (%s)" % nice_count, "nice() uses count %s but ticks() uses %s: 'aligned as coarsely as the ticks' refers to two different intervals" % (nice_count, ticks_count))
    R.check(nice_count == "10", "C14.SAMECOUNT", "default is 10", where(f), "default count 10", "default count is %s, the documented default is 10" % nice_count)
    # explicit count is passed through
    ev, st, r, log, doms = run_time_nice(ctx, "lt", False, interval_arg=C(7))
    R.check(log["tick"] and log["tick"][0][1] == "7", "C14.SAMECOUNT", "explicit count", where(f), "nice(7) uses count 7", "nice(7) consults tickMethod with %s" % (log["tick"][0] if log["tick"] else None))
    # extent handed to tickMethod is in ms, ascending
    want = "[scale.dt2milli(D0), scale.dt2milli(D1)]"
    R.check(log["tick"] and log["tick"][0][0] == want, "C14.SAMECOUNT", "extent", where(f), "tickMethod sees the ascending extent in ms", "tickMethod is given %s" % (log["tick"][0][0] if log["tick"] else None))


@rule("C14.CEIL")
def ceil_rule(ctx, R):
    P = ctx.P
    f = P.func("d3_time.d3_time_interval.ceil")
    R.saw(f)
    ev = new_eval(P, opaque=["d3_time.dt2milli", "d3_time.milli2dt"])
    st = ev.new_state(f)
    s = Opaque("self", cls=P.cls("d3_time.d3_time_interval"), kind="obj")
    st.heap[("self", "_local")] = Opaque("LOCAL")
    st.heap[("self", "_step")] = Opaque("STEP")
    got = ev.call_closure(Closure(f, None, selfv=s), [Opaque("t")], {}, st)
    st2 = State(Env({"t": Opaque("t"), "LOCAL": Opaque("LOCAL"), "STEP": Opaque("STEP")}, ev.module_env("d3_time"), "d3_time", None))
    want = pexpr(ev, st2, "STEP(LOCAL(milli2dt(dt2milli(t) - 1)), 1)")
    R.check(key(got) == key(want), "C14.CEIL", f.qual, where(f), "ceil(t) == step(floor(t - 1ms), 1)", "ceil(t) is %s" % show(got))
    g = P.func("d3_time.d3_time_interval.floor")
    got = ev.call_closure(Closure(g, None, selfv=s), [Opaque("t")], {}, st)
    R.check(key(got) == "LOCAL(t)", "C14.CEIL", g.qual, where(g), "floor(t) == local(t)", "floor(t) is %s" % show(got))


@rule("C14.STATE")
def state_rule(ctx, R):
    statepack.no_hidden_state(ctx, R, "C14.STATE", modules=["scale", "d3_time"], classes={
        "scale.TimeScale": {"_linear", "_methods", "_format"},
        "d3_time.d3_time_interval": {"_local", "_step", "_number"},
    })


def _lazy(mod, fn, rid):
    def run(ctx, R):
        import importlib
        return getattr(importlib.import_module("sa.rules." + mod), fn)(ctx, R)

    run.rule_id = rid
    run.__name__ = fn
    return run


# nicing moves the ends outward only if the unit floors really round down and the offsets move by whole units
RULES = [pairing, stepfns, linnice, time_nice, samecount, ceil_rule, state_rule,
         _lazy("c17", "unittable", "C17.UNITTABLE"), _lazy("c17", "monthstep", "C17.MONTHSTEP"), _lazy("c17", "round_rule", "C17.ROUND"),
         # sub-second ticks: nice() decides "this end is on a tick" by asking the millisecond interval for the ticks in
         # [end, end + 1 ms), which is right only if its range starts at the first multiple of the step at or after `end`
         _lazy("c16", "rangeint", "C16.RANGEINT")]
