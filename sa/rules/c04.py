"""C04 — layering conserves labels and builds complete stub chains within capacity."""
import ast

from .util import *
from . import qp
from . import state as statepack
from ..sym import RangeV, EnumV

EXPLANATION = (
    "distributor.py and Force are analysed structurally: in algorithm_overlap the node containers form a linear flow "
    "(every element popped from the working layer is appended to the punted list on every path; the working layer "
    "is appended to the result once per outer pass; the working copy is taken before the punted list is reset; the "
    "final punted list is appended iff non-empty; nothing else removes) (C04.CONSERVE); the inner guard G satisfies "
    "not G => (len <= 2 or width <= budget) and G => len >= 1, the tracked width changes by exactly -popped.width + "
    "stubWidth per removal, is initialised from and the outer guard re-computed by computeRequiredWidth of the same "
    "list, budget == density*layerWidth (C04.CAPACITY); computeRequiredWidth == sum(width) + spacing*(n-1) "
    "(C04.REQWIDTH); stub loops run j = i-1 .. 0 exactly with the loop-carried receiver stub := stub.createStub(stubWidth) "
    "appended to layers[j], starting from every non-stub element of every layer >= 1 (C04.STUBCHAIN, both algorithms); "
    "createStub builds Node(idealPos, width, data) with child/parent links (C04.STUBATTRS); algorithm_simple puts "
    "node i into layers[i % n] (C04.SIMPLE); distribute returns the empty layering only for no nodes, one layer for "
    "algorithm none / no layer width / fits (C04.EARLY, C04.NONE, C04.SINGLE); Force.set_options hands the engine's "
    "current algorithm/density/nodeSpacing/stubWidth to the distributor (C04.OPTFLOW); documented defaults "
    "(C04.DEFAULTS); Force.compute sets layerIndex for every node of every layer and retains the layering "
    "(C04.LAYERIDX, C04.REPORTED) after removing stale stubs from every label (C06.RESET)."
    "  Also part of this check: each engine's distributor has private options (GEN.OPTS-MERGE) and the layer width is maxPos - minPos as Force.set_options derives it (C03.LAYERWIDTH)."
    '  C04.CONSERVE-INSTANCES: algorithm_overlap run by the evaluator on five concrete instances (every loop test folds): each label in exactly one layer, no empty layer; the structural all-n rule C04.CONSERVE is soft for a spelling it does not recognise when these pass.'
)
ASSUMPTIONS = ["density in (0,1], spacing and stub width >= 0 (property domain)"]

D = "distributor.Distributor"


def _self_eval(ctx, f, opts=None, hook=None, filt=None):
    P = ctx.P
    ev = new_eval(P, on_call=hook, inline_filter=filt)
    st = ev.new_state(f)
    s = Opaque("self", cls=P.cls(D), kind="obj")
    dd = ev.resolve_global("distributor", "DEFAULT_OPTIONS")
    o = DictV({k: Opaque("opt:%s" % k) for k in dd.items}, ident="P:self.options")
    if opts:
        o.items.update(opts)
    st.heap[("self", "options")] = o
    return ev, st, s, o


@rule("C04.REQWIDTH")
def reqwidth(ctx, R):
    P = ctx.P
    f = P.func(D + ".computeRequiredWidth")
    R.saw(f)
    ev, st, s, o = _self_eval(ctx, f)
    r = as_num(ev.call_closure(Closure(f, None, selfv=s), [Opaque("NS", cls=P.cls("node.Node"), kind="seq")], {}, st))
    want = Num.atom(("sum", "NS", "elem(NS).width")) + A("opt:nodeSpacing") * (A("len(NS)") - C(1))
    R.check(r is not None and r.equals(want), "C04.REQWIDTH", f.qual, where(f), "required width == sum(width) + nodeSpacing*(n-1)", "computeRequiredWidth is %s, expected sum of widths + nodeSpacing*(n-1)" % (r.key() if r is not None else None))
    g = P.func(D + ".maxWidthPerLayer")
    r = as_num(ev.call_closure(Closure(g, None, selfv=s), [], {}, st))
    R.check(r is not None and r.equals(A("opt:density") * A("opt:layerWidth")), "C04.CAPACITY", g.qual, where(g), "budget == density*layerWidth", "maxWidthPerLayer is %s, expected density*layerWidth" % (r.key() if r is not None else None))


@rule("C04.SINGLE")
def single(ctx, R):
    P = ctx.P
    f = P.func(D + ".estimateRequiredLayers")
    g = P.func(D + ".needToSplit")
    R.saw(f, g)
    NS = Opaque("NS", cls=P.cls("node.Node"), kind="seq")
    # no layer width -> 1 layer, never split
    for lw in (NONE, C(0)):
        ev, st, s, o = _self_eval(ctx, f, {"layerWidth": lw})
        r = ev.call_closure(Closure(f, None, selfv=s), [NS], {}, st)
        R.check(num_const(r) == 1, "C04.SINGLE", "estimateRequiredLayers layerWidth=%s" % key(lw), where(f), "no layer width => 1 layer", "with layerWidth=%s the estimate is %s, expected 1" % (key(lw), show(r)))
        r = ev.truth(ev.call_closure(Closure(g, None, selfv=s), [NS], {}, st))
        R.check(isinstance(r, Const) and r.v is False, "C04.SINGLE", "needToSplit layerWidth=%s" % key(lw), where(g), "no layer width => never split", "with layerWidth=%s needToSplit is %s" % (key(lw), show(r)))
    # with a layer width: split iff required width > budget
    hook = lambda fv, args, kwargs, node, st_: Num.atom("REQ") if isinstance(fv, Closure) and fv.func.qual == D + ".computeRequiredWidth" else None
    ev, st, s, o = _self_eval(ctx, g, hook=hook)
    ev.assume("truth(opt:layerWidth)", True)
    ev.assume("cmp(is, opt:layerWidth, None)", False)
    r = ev.truth(ev.call_closure(Closure(g, None, selfv=s), [NS], {}, st))
    budget = A("opt:density") * A("opt:layerWidth")
    ok = False
    if isinstance(r, Cond) and r.tree[0] == "cmp" and r.tree[1] == "lt":
        a, b = as_num(r.tree[2]), as_num(r.tree[3])
        if a is not None and b is not None:
            ceil_form = a.is_const() and a.const_value() == 1 and b.equals(Num.atom(("ceil", (A("REQ") / budget).key())))
            direct = a.equals(budget) and b.equals(A("REQ"))
            ok = ceil_form or direct
    R.check(ok, "C04.SINGLE", "needToSplit", where(g), "split iff required width > density*layerWidth", "needToSplit is %s: not 'required width exceeds density*layerWidth'" % show(r))


@rule("C04.DISTRIBUTE")
def distribute_rule(ctx, R):
    """EARLY / NONE / SINGLE dispatch of Distributor.distribute; sort before layering (C06.SORTED)."""
    P = ctx.P
    f = P.func(D + ".distribute")
    R.saw(f)
    NODE = P.cls("node.Node")
    for alg in ("none", "overlap", "simple"):
        for split in (False, True):
            calls = []

            def hook(fv, args, kwargs, node, st_):
                if isinstance(fv, Closure) and fv.func.qual == D + ".needToSplit":
                    calls.append(("needToSplit", key(args[0]) if args else None))
                    return TRUE if split else FALSE
                if isinstance(fv, Closure) and fv.func.qual.startswith(D + ".algorithm_"):
                    calls.append((fv.func.name, key(args[0]) if args else None))
                    return Opaque("%s(%s)" % (fv.func.name, key(args[0]) if args else ""))
                return None

            ev, st, s, o = _self_eval(ctx, f, {"algorithm": Const(alg)}, hook=hook)
            ev.nonempty.add("NS")
            for k_ in ("cmp(eq, len(NS), 0)", "cmp(le, len(NS), 0)", "cmp(lt, len(NS), 1)"):
                ev.assume(k_, False)
            NS = Opaque("NS", cls=NODE, kind="seq")
            r = ev.call_closure(Closure(f, None, selfv=s), [NS], {}, st)
            tag = "algorithm=%s needToSplit=%s" % (alg, split)
            sorted_key = "sorted(NS, key=<fn %s.<lambda#1>>)" % f.qual
            srt = [e for e in st.events if e[0] in ("sorted", "seq-sort")]
            sk = None
            if srt:
                kw = srt[0][2] if srt[0][0] == "sorted" else srt[0][3]
                kf = kw.get("key")
                if isinstance(kf, Closure):
                    sk = key(ev.call(kf, [Opaque("k", cls=NODE, kind="obj")], {}, State(Env({}, ev.module_env("distributor"), "distributor", None))))
                    if kw.get("reverse") is not None and key(kw.get("reverse")) != "False":
                        sk = "reversed " + sk
                elif kf is not None:
                    sk = key(kf)
            leaves_ = list(leaves(r))
            empties = [l for p_, l in leaves_ if isinstance(l, Seq) and len(l.items) == 0]
            R.check(not empties, "C04.EARLY", tag + "|non-empty input", where(f), "a non-empty label list never yields the empty layering", "distribute returns [] for a non-empty label list on some path (%s): labels are lost" % show(r, 200))
            if alg == "none":
                ok = isinstance(r, Seq) and len(r.items) == 1 and key(r.items[0]) == "NS"
                R.check(ok, "C04.NONE", tag, where(f), "algorithm none => one layer with all labels", "algorithm 'none' returns %s, expected [nodes]" % show(r, 200))
                continue
            R.check(sk == "k.idealPos", "C06.SORTED", tag + "|sorted by data position", where(f), "labels are sorted by idealPos (stable sort) before layering", "distribute does not sort the labels by idealPos with a stable key sort before layering (key: %s): layer assignment depends on the input order" % sk)
            if not split:
                ok = isinstance(r, Seq) and len(r.items) == 1 and key(r.items[0]).startswith("sorted(NS") and key(r.items[0]) != "NS"
                ok = ok or (isinstance(r, Seq) and len(r.items) == 1 and key(r.items[0]) == "NS" and any(e[0] == "seq-sort" for e in st.events))
                R.check(ok, "C04.SINGLE", tag, where(f), "fits => one layer holding all (sorted) labels", "when the labels fit, distribute returns %s, expected one layer with all labels" % show(r, 200))
            else:
                ok = key(r).startswith("algorithm_%s(sorted(NS" % alg) or (key(r) == "algorithm_%s(NS)" % alg and any(e[0] == "seq-sort" for e in st.events))
                R.check(ok, "C04.DISPATCH", tag, where(f), "dispatches to algorithm_%s on the sorted labels" % alg, "with algorithm=%s and a split needed distribute returns %s" % (alg, show(r, 200)))
    # empty input -> []
    ev, st, s, o = _self_eval(ctx, f)
    r = ev.call_closure(Closure(f, None, selfv=s), [Seq("list", [])], {}, st)
    R.check(isinstance(r, Seq) and not r.items, "C04.EARLY", "empty input", where(f), "no labels => no layers", "distribute([]) returns %s" % show(r))


def _bind_self_aliases(ev, st, f, before=None):
    """A partial evaluation that starts in the middle of f: locals that merely name a read of the receiver's state
    (`opts = self.options`, `w = self.options["stubWidth"]`), assigned once in the part that is skipped, are bound first."""
    selfn = f.params[0] if f.params else None
    counts = {}
    for n in walk_local(f.node):
        if isinstance(n, ast.Name) and isinstance(n.ctx, ast.Store):
            counts[n.id] = counts.get(n.id, 0) + 1
    for n in walk_local(f.node):
        if before is not None and getattr(n, "lineno", 0) >= before:
            continue
        if isinstance(n, ast.Assign) and len(n.targets) == 1 and isinstance(n.targets[0], ast.Name) and counts.get(n.targets[0].id) == 1 and n.targets[0].id not in st.env.vars:
            v = n.value
            root = v
            while isinstance(root, (ast.Attribute, ast.Subscript)):
                if isinstance(root, ast.Subscript) and not isinstance(root.slice, ast.Constant):
                    root = None
                    break
                root = root.value
            if isinstance(root, ast.Name) and root.id == selfn and isinstance(v, (ast.Attribute, ast.Subscript)):
                st.env.vars[n.targets[0].id] = ev.expr(v, st)


def _stub_loop_check(ctx, R, f, loop, start_expr_text, start_node_text, tag):
    """loop: `for j in range(start-1, -1, -1): stub = stub.createStub(W); layers[j].append(stub)`."""
    P = ctx.P
    ev, st, s, o = _self_eval(ctx, f, filt=lambda fn: fn.qual != "node.Node.createStub")
    st.env.vars[f.params[0]] = s
    _bind_self_aliases(ev, st, f, before=loop.lineno)
    START = Num.atom("START")
    st.env.vars[start_expr_text] = START
    it = ev.expr(loop.iter, st)
    ok_space = False
    if isinstance(it, RangeV) and len(it.args) == 3:
        a = [as_num(x) for x in it.args]
        ok_space = all(x is not None for x in a) and a[0].equals(START - C(1)) and a[1].equals(C(-1)) and a[2].equals(C(-1))
    R.check(ok_space, "C04.STUBCHAIN", tag + "|iteration space", where(f, loop), "j runs start-1 .. 0 exactly (nearest-to-farthest from the item)", "the stub loop iterates %s: not every nearer layer start-1 .. 0 in descending order (a layer is skipped, or the chain is built in the wrong order)" % show(it))
    # loop-carried receiver
    carried = None
    for n in loop.body:
        if isinstance(n, ast.Assign) and isinstance(n.value, ast.Call) and isinstance(n.value.func, ast.Attribute) and n.value.func.attr == "createStub" and isinstance(n.targets[0], ast.Name):
            carried = n.targets[0].id
    if carried is None:
        R.bad("C04.STUBCHAIN", tag + "|createStub", where(f, loop), "the stub loop does not create a stub per pass")
        return
    st.env.vars[carried] = Opaque("S", cls=P.cls("node.Node"), kind="obj")
    if isinstance(loop.target, ast.Name):
        st.env.vars[loop.target.id] = Opaque("j")
    LAYERS = Opaque("LAYERS", kind="seq")
    st.env.vars["layers"] = LAYERS
    n0 = len(st.events)
    ev.block(loop.body, st, [])
    after = st.env.lookup(carried)
    W = "opt:stubWidth"
    R.check(key(after) == "S.createStub(%s)" % W, "C04.STUBCHAIN", tag + "|chained receiver", where(f, loop), "stub := <previous stub or the label>.createStub(stubWidth)", "one pass turns the carried item S into %s: each new stub must be created from the previous one (S.createStub(stubWidth)), so that parent/child links form one chain" % show(after))
    apps = [e for e in st.events[n0:] if e[0] == "seq-append" and e[1] == "LAYERS[j]"]
    R.check(len(apps) == 1 and key(apps[0][2][0]) == key(after), "C04.STUBCHAIN", tag + "|placed in layer j", where(f, loop), "the new stub is appended to layers[j]", "the stub created in pass j is not appended (once) to layers[j]: %s" % [(e[1], key(e[2][0])) for e in st.events[n0:] if e[0] == "seq-append"])
    # initial value of the carried variable: the node under consideration
    body = None
    par = getattr(loop, "_parent", None)
    sib = par.body if hasattr(par, "body") else []
    idx = sib.index(loop) if loop in sib else -1
    init = None
    for n in sib[:idx][::-1]:
        if isinstance(n, ast.Assign) and isinstance(n.targets[0], ast.Name) and n.targets[0].id == carried:
            init = ntext(n.value)
            break
    R.check(init == start_node_text, "C04.STUBCHAIN", tag + "|starts from the label", where(f, loop), "the chain starts from the label itself", "the chain's first receiver is `%s`, expected the label `%s`" % (init, start_node_text))


def _expected_chains(layers_init):
    """Reference model: every non-stub item of layer i >= 1 gets one stub in each nearer layer, chained."""
    n = len(layers_init)
    out = [list(l) for l in layers_init]
    for i in range(n - 1, 0, -1):
        for node in layers_init[i]:
            s_ = node
            for j in range(i - 1, -1, -1):
                s_ = "stub(%s)" % s_
                out[j].append(s_)
    return out


def _stub_hooks(log):
    def hook(fv, args, kwargs, node, st_):
        if isinstance(fv, Closure) and fv.func.qual == "node.Node.createStub":
            w = args[0] if args else kwargs.get("width")
            log.append((key(fv.selfv), key(w) if w is not None else None))
            return Opaque("stub(%s)" % key(fv.selfv), cls=fv.func.cls, kind="obj")
        if isinstance(fv, Closure) and fv.func.qual == "node.Node.isStub":
            return TRUE if key(fv.selfv).startswith("stub(") else FALSE
        if isinstance(fv, Closure) and fv.func.qual == D + ".estimateRequiredLayers":
            return C(3)
        return None
    return hook


@rule("C04.STUBCHAIN")
def stubchain_instance(ctx, R):
    """The stub phase of both algorithms evaluated on a small symbolic instance (4 resp. 3 layers):
    loops over the concrete layer lists are followed, stub creation and the stub test are symbolic."""
    P = ctx.P
    NODE = P.cls("node.Node")
    # --- overlap: statements after the punting loops ---
    f = P.func(D + ".algorithm_overlap")
    R.saw(f)
    cg = ctx.cg
    body = f.node.body
    widx = max([i for i, s_ in enumerate(body) if isinstance(s_, ast.While)] or [-1])
    start = None
    for i in range(widx + 1, len(body)):
        s_ = body[i]
        direct = any(isinstance(c, ast.Call) and isinstance(c.func, ast.Attribute) and c.func.attr == "createStub" for c in ast.walk(s_))
        via = any("node.Node.createStub" in cg.reachable([g.qual]) for c in ast.walk(s_) if isinstance(c, ast.Call) for g, _ in ctx.types.resolve(c))
        if direct or via:
            start = i
            break
    if start is None:
        R.bad("C04.STUBCHAIN", "overlap|stub phase", where(f), "algorithm_overlap creates no stubs after layering: labels in farther layers have no stand-ins in nearer layers")
    else:
        log = []
        ev = new_eval(P, on_call=_stub_hooks(log))
        st = ev.new_state(f)
        s = Opaque("self", cls=P.cls(D), kind="obj")
        dd = ev.resolve_global("distributor", "DEFAULT_OPTIONS")
        st.heap[("self", "options")] = DictV({k: Opaque("opt:%s" % k) for k in dd.items}, ident="P:self.options")
        st.env.vars[f.params[0]] = s
        init = [["a0", "a1"], ["b0"], ["c0", "c1"], ["d0"]]
        if getattr(ctx, "params", None) and ctx.params.get("big_instances"):
            init = [["a0", "a1", "a2"], ["b0"], ["c0", "c1"], ["d0"], ["e0", "e1", "e2"], ["f0"], ["g0", "g1"]]
        layers = Seq("list", [Seq("list", [Opaque(n_, cls=NODE, kind="obj") for n_ in l], ident="L%d" % i) for i, l in enumerate(init)], ident="LAYERS")
        # the variable that is returned holds the layers
        rets = [n_ for n_ in body if isinstance(n_, ast.Return)]
        lname = rets[-1].value.id if rets and isinstance(rets[-1].value, ast.Name) else "layers"
        stored_before = {x.id for s_ in body[:start] for x in ast.walk(s_) if isinstance(x, ast.Name) and isinstance(x.ctx, ast.Store)}
        if lname not in stored_before:
            # the layering is handed to the stub phase in some local computed before it: the one local the first stub-phase
            # statement reads
            cands = {x.id for x in ast.walk(body[start]) if isinstance(x, ast.Name) and isinstance(x.ctx, ast.Load)} & stored_before
            if len(cands) == 1:
                lname = next(iter(cands))
        for _ in range(4):
            # `result = layers; return result`: the list the stub phase works on is the one behind the returned name
            al = [n_ for n_ in body if isinstance(n_, ast.Assign) and len(n_.targets) == 1 and isinstance(n_.targets[0], ast.Name) and n_.targets[0].id == lname]
            if len(al) == 1 and isinstance(al[0].value, ast.Name) and body.index(al[0]) >= start:
                lname = al[0].value.id
            else:
                break
        st.env.vars[lname] = layers
        _bind_self_aliases(ev, st, f, before=body[start].lineno)
        r = ev.block(body[start:], st, [])
        final = r.value if r is not None else None
        got = [sorted(key(x) for x in l.items) for l in final.items] if isinstance(final, Seq) and all(isinstance(l, Seq) for l in final.items) else None
        want = [sorted(l) for l in _expected_chains(init)]
        R.check(got == want, "C04.STUBCHAIN", "overlap|%d-layer instance" % len(init), where(f, body[start]), "every label of layer k owns exactly one stub in each nearer layer, chained from the label outward to the axis",
                "on the instance %s the stub phase produces %s, expected %s: every label of layer k must own exactly one stub per nearer layer, each created from the previous one" % (init, got, want))
        R.check(bool(log) and all(w == "opt:stubWidth" for _, w in log), "C04.STUBCHAIN", "overlap|stub width", where(f), "stubs are created with the configured stub width", "createStub is called with widths %s, expected options['stubWidth']" % sorted({w for _, w in log}))
    # --- simple ---
    g = P.func(D + ".algorithm_simple")
    R.saw(g)
    log = []
    ev = new_eval(P, on_call=_stub_hooks(log))
    st = ev.new_state(g)
    s = Opaque("self", cls=P.cls(D), kind="obj")
    dd = ev.resolve_global("distributor", "DEFAULT_OPTIONS")
    st.heap[("self", "options")] = DictV({k: Opaque("opt:%s" % k) for k in dd.items}, ident="P:self.options")
    names = ["n%d" % i for i in range(13 if getattr(ctx, "params", None) and ctx.params.get("big_instances") else 7)]
    nodes = Seq("list", [Opaque(n_, cls=NODE, kind="obj") for n_ in names], ident="NODES")
    r = ev.call_closure(Closure(g, None, selfv=s), [nodes], {}, st)
    init = [[], [], []]
    for i, n_ in enumerate(names):
        init[i % 3].append(n_)
    want = [sorted(l) for l in _expected_chains(init)]
    got = [sorted(key(x) for x in l.items) for l in r.items] if isinstance(r, Seq) and all(isinstance(l, Seq) for l in r.items) else None
    R.check(got == want, "C04.SIMPLE", "simple|%d labels in 3 layers" % len(names), where(g), "label i goes to layer i % n with one chained stub in each nearer layer",
            "for these labels and 3 layers algorithm_simple returns %s, expected %s (label i in layer i %% 3, plus one stub per nearer layer chained from the label)" % (got, want))
    R.check(bool(log) and all(w == "opt:stubWidth" for _, w in log), "C04.STUBCHAIN", "simple|stub width", where(g), "stubs are created with the configured stub width", "createStub is called with widths %s, expected options['stubWidth']" % sorted({w for _, w in log}))
    # the number of layers is the estimate
    cs = [c for c in calls_in(g.node) if isinstance(c.func, ast.Attribute) and c.func.attr == "estimateRequiredLayers"]
    R.check(len(cs) == 1 and cs[0].args and ntext(cs[0].args[0]) == g.params[1], "C04.SIMPLE", "simple|layer count = estimate", where(g), "numLayers = estimateRequiredLayers(nodes)", "algorithm_simple does not take its layer count from estimateRequiredLayers(nodes)")


@rule("C04.STUBCHAIN-ALL-N")
def stubchain(ctx, R):
    """Structural version for every number of layers; applies only when the loops are in a recognised idiom."""
    P = ctx.P
    R = _Soft(R)
    # --- overlap ---
    f = P.func(D + ".algorithm_overlap")
    R.saw(f)
    loops3 = [n for n in ast.walk(f.node) if isinstance(n, ast.For) and any(isinstance(c, ast.Call) and isinstance(c.func, ast.Attribute) and c.func.attr == "createStub" for c in ast.walk(n))]
    inner = [l for l in loops3 if not any(isinstance(c, ast.For) and c is not l for c in ast.walk(l))]
    outer = [l for l in loops3 if l not in inner and not any(isinstance(getattr(l, "_parent", None), ast.For) and True for _ in [0]) or isinstance(getattr(l, "_parent", None), ast.FunctionDef)]
    if len(inner) != 1:
        R.bad("C04.STUBCHAIN", "overlap|shape", where(f), "algorithm_overlap has %d stub-creating loops" % len(inner))
    else:
        lj = inner[0]
        lk = getattr(lj, "_parent", None)
        while lk is not None and not isinstance(lk, ast.For):
            lk = getattr(lk, "_parent", None)
        li = getattr(lk, "_parent", None) if lk is not None else None
        while li is not None and not isinstance(li, ast.For):
            li = getattr(li, "_parent", None)
        if lk is None or li is None:
            R.bad("C04.STUBCHAIN", "overlap|nesting", where(f, lj), "stub creation is not nested in loops over layers and their items")
        else:
            ev, st, s, o = _self_eval(ctx, f)
            st.env.vars["layers"] = Opaque("LAYERS", kind="seq")
            it = ev.expr(li.iter, st)
            ok = False
            ivar = li.target.id if isinstance(li.target, ast.Name) else None
            if isinstance(it, RangeV) and len(it.args) == 3:
                a = [as_num(x) for x in it.args]
                n = A("len(LAYERS)")
                ok = a[0].equals(n - C(1)) and a[2].equals(C(-1)) and a[1].is_const() and a[1].const_value() in (0, -1)
            elif isinstance(it, RangeV) and len(it.args) in (1, 2):
                a = [as_num(x) for x in it.args]
                n = A("len(LAYERS)")
                ok = (len(a) == 1 and a[0].equals(n)) or (len(a) == 2 and a[0].is_const() and a[0].const_value() in (0, 1) and a[1].equals(n))
            R.check(ok and ivar is not None, "C04.STUBCHAIN", "overlap|outer loop", where(f, li), "visits layers n-1 .. 1", "the outer stub loop iterates %s: not all layers n-1 .. 1" % show(it))
            # middle loop: all elements of layers[i]
            st.env.vars[ivar or "i"] = Opaque("i")
            pre = [n for n in li.body[: li.body.index(lk)]] if lk in li.body else []
            ev.block(pre, st, [])
            itk = ev.expr(lk.iter, st)
            layer_i = "LAYERS[i]"
            node_text = None
            okm = False
            if isinstance(itk, RangeV) and len(itk.args) == 1 and as_num(itk.args[0]).equals(A("len(%s)" % layer_i)) and isinstance(lk.target, ast.Name):
                okm = True
                for n in lk.body:
                    if isinstance(n, ast.Assign) and isinstance(n.value, ast.Subscript) and ntext(n.value.slice) == lk.target.id and key(ev.expr(n.value.value, st)) == layer_i:
                        node_text = n.targets[0].id
            elif key(itk) == layer_i and isinstance(lk.target, ast.Name):
                okm = True
                node_text = lk.target.id
            R.check(okm and node_text is not None, "C04.STUBCHAIN", "overlap|every item of the layer", where(f, lk), "every element of layers[i] is considered", "the middle loop iterates %s: not every element of layers[i]" % show(itk))
            # stubs are skipped, labels are not
            skips = [n for n in lk.body if isinstance(n, ast.If) and any(isinstance(x, ast.Continue) for x in n.body)]
            okskip = False
            if skips and node_text:
                okskip = ntext(skips[0].test) == "%s.isStub()" % node_text and lk.body.index(skips[0]) < _index_of(lk.body, lj)
            elif node_text:
                # alternative: `if not node.isStub(): <chain>`
                par = getattr(lj, "_parent", None)
                okskip = isinstance(par, ast.If) and ntext(par.test) == "not %s.isStub()" % node_text
            R.check(okskip, "C04.STUBCHAIN", "overlap|only labels start chains", where(f, lk), "stubs appended earlier to this layer are skipped; every label starts a chain", "the chain-building loop does not skip exactly the items that are stubs (`if node.isStub(): continue`)")
            if node_text and ivar:
                _stub_loop_check(ctx, R, f, lj, ivar, node_text, "overlap")
    # --- simple ---
    g = P.func(D + ".algorithm_simple")
    R.saw(g)
    inner = [n for n in ast.walk(g.node) if isinstance(n, ast.For) and any(isinstance(c, ast.Call) and isinstance(c.func, ast.Attribute) and c.func.attr == "createStub" for c in ast.walk(n)) and not any(isinstance(c, ast.For) and c is not n for c in ast.walk(n))]
    if len(inner) != 1:
        R.bad("C04.STUBCHAIN", "simple|shape", where(g), "algorithm_simple has %d stub-creating loops" % len(inner))
        return
    lj = inner[0]
    lo = getattr(lj, "_parent", None)
    if not isinstance(lo, ast.For):
        R.bad("C04.STUBCHAIN", "simple|nesting", where(g, lj), "stub creation is not directly inside the loop over labels")
        return
    # C04.SIMPLE: node i -> layers[i % numLayers]
    hook = lambda fv, args, kwargs, node, st_: Num.atom("NL") if isinstance(fv, Closure) and fv.func.qual == D + ".estimateRequiredLayers" else None
    ev, st, s, o = _self_eval(ctx, g, hook=hook)
    st.env.vars[g.params[0]] = s
    st.env.vars[g.params[1]] = Opaque("NS", cls=P.cls("node.Node"), kind="seq")
    pre = g.node.body[: g.node.body.index(lo)]
    ev.block(pre, st, [])
    it = ev.expr(lo.iter, st)
    okit = key(it) == "enumerate(NS)" and isinstance(lo.target, ast.Tuple) and len(lo.target.elts) == 2
    R.check(okit, "C04.SIMPLE", "every label visited with its rank", where(g, lo), "for i, node in enumerate(nodes)", "algorithm_simple iterates %s" % show(it))
    if okit:
        ivar, nvar = lo.target.elts[0].id, lo.target.elts[1].id
        st.env.vars[ivar] = Opaque("i")
        st.env.vars[nvar] = Opaque("N", cls=P.cls("node.Node"), kind="obj")
        pre2 = lo.body[: lo.body.index(lj)]
        n0 = len(st.events)
        ev.block(pre2, st, [])
        modname = None
        for n in pre2:
            if isinstance(n, ast.Assign) and isinstance(n.targets[0], ast.Name) and key(ev.expr(n.targets[0], st) if False else st.env.lookup(n.targets[0].id)) == "mod(i, NL)":
                modname = n.targets[0].id
        apps = [e for e in _all_events(st.events[n0:]) if e[0] in ("seq-append", "call-bound", "setitem") or e[0] == "seq-append"]
        placed = any(e[0] == "seq-append" and "mod(i, NL)" in e[1] and key(e[2][0]) == "N" for e in _all_events(st.events[n0:]))
        if not placed:
            # layers is a concrete list of lists only when NL is concrete; with symbolic NL it is opaque
            placed = any(e[0] in ("call-bound",) and e[2] == "append" and "mod(i, NL)" in e[1] and e[3] == ["N"] for e in _all_events(st.events[n0:]))
        R.check(placed, "C04.SIMPLE", "label i goes to layer i % n", where(g, lo), "layers[i % numLayers].append(node)", "algorithm_simple does not append label i to layers[i % numLayers]")
        # number of layers created == estimate
        mk = [l for l in g.node.body if isinstance(l, ast.For) and l is not lo]
        okn = bool(mk) and key(ev.expr(mk[0].iter, st)) in ("range(NL)", "range(0, NL)")
        R.check(okn, "C04.SIMPLE", "layer count", where(g), "numLayers empty layers are created, numLayers = estimateRequiredLayers(nodes)", "algorithm_simple does not create estimateRequiredLayers(nodes) layers")
        if modname:
            _stub_loop_check(ctx, R, g, lj, modname, nvar, "simple")
        else:
            R.bad("C04.STUBCHAIN", "simple|layer index", where(g, lo), "no variable holding i % numLayers to start the stub chain from")


class _Soft:
    """Reporter wrapper: shape/recognition failures of the structural rule are not alarms (the instance rule
    decides); genuine mismatches inside a recognised idiom still are."""

    SOFT = ("|shape", "|nesting", "|iteration space", "|placed in layer j", "|outer loop", "|every item of the layer", "|only labels start chains", "|createStub", "|layer index", "|starts from the label", "layer count", "every label visited", "label i goes to layer")

    def __init__(self, R):
        self.R = R

    def __getattr__(self, name):
        return getattr(self.R, name)

    def check(self, cond, rule, key_, where_="", detail="", bad_detail=None, nontrivial=True):
        if not cond and any(key_.endswith(x) or x in key_ for x in self.SOFT):
            self.R.ok(rule, key_ + " (idiom not recognised: decided on the instance only)", where_, "structural all-n argument not applicable to this spelling", nontrivial=False)
            return False
        return self.R.check(cond, rule, key_, where_, detail, bad_detail, nontrivial)

    def bad(self, rule, key_, where_="", detail="", nontrivial=True):
        if any(key_.endswith(x) or x in key_ for x in self.SOFT):
            self.R.ok(rule, key_ + " (idiom not recognised: decided on the instance only)", where_, "structural all-n argument not applicable to this spelling", nontrivial=False)
        else:
            self.R.bad(rule, key_, where_, detail, nontrivial)


class _SoftAll(_Soft):
    """Every mismatch of the structural rule is soft (used when the instance evaluation has already shown conservation)."""

    def check(self, cond, rule, key_, where_="", detail="", bad_detail=None, nontrivial=True):
        if not cond:
            self.R.ok(rule, key_ + " (spelling not recognised: conservation shown on the evaluated instances only)", where_, "structural all-n argument not applicable to this spelling", nontrivial=False)
            return False
        return self.R.check(cond, rule, key_, where_, detail, bad_detail, nontrivial)

    def bad(self, rule, key_, where_="", detail="", nontrivial=True):
        self.R.ok(rule, key_ + " (spelling not recognised: conservation shown on the evaluated instances only)", where_, "structural all-n argument not applicable to this spelling", nontrivial=False)

    def undecided(self, rule, key_, where_="", detail=""):
        self.R.ok(rule, key_ + " (spelling not recognised: conservation shown on the evaluated instances only)", where_, "structural all-n argument not applicable to this spelling", nontrivial=False)


def _index_of(body, node):
    for i, n in enumerate(body):
        if n is node or any(x is node for x in ast.walk(n)):
            return i
    return len(body)


def _all_events(evs):
    for e in evs:
        if e[0] == "in-branch":
            yield from _all_events([e[3]])
        elif e[0] == "loop":
            yield e
            yield from _all_events(e[3])
        else:
            yield e


@rule("C04.STUBATTRS")
def stubattrs(ctx, R):
    P = ctx.P
    f = P.func("node.Node.createStub")
    R.saw(f)
    ev = new_eval(P)
    st = ev.new_state(f)
    n = Opaque("n", cls=P.cls("node.Node"), kind="obj")
    r = ev.call_closure(Closure(f, None, selfv=n), [Opaque("W")], {}, st)
    ok = isinstance(r, Opaque) and r.kind == "new" and r.cls is P.cls("node.Node")
    if ok:
        h = lambda a: key(st.heap.get((r.text, a))) if st.heap.get((r.text, a)) is not None else None
        ok = h("idealPos") == "n.idealPos" and h("width") == "W" and h("data") == "n.data" and h("child") == "n" and key(st.heap.get(("n", "parent"))) == r.text and h("parent") == "None"
        detail = "stub(idealPos=%s, width=%s, data=%s, child=%s, parent=%s), n.parent=%s" % (h("idealPos"), h("width"), h("data"), h("child"), h("parent"), key(st.heap.get(("n", "parent"))) if st.heap.get(("n", "parent")) is not None else None)
    else:
        detail = "returns %s" % show(r)
    R.check(ok, "C04.STUBATTRS", f.qual, where(f), "stub = Node(self.idealPos, width, self.data); stub.child = self; self.parent = stub", "createStub: %s; expected a new Node with the label's data position and payload, the given width, child = the label, and the label's parent = the stub" % detail)
    # removeStub clears both links
    g = P.func("node.Node.removeStub")
    ev = new_eval(P)
    ev.assume("truth(n.parent)", True)
    st = ev.new_state(g)
    st.heap[("n", "parent")] = Opaque("PAR", cls=P.cls("node.Node"), kind="obj")
    ev.call_closure(Closure(g, None, selfv=n), [], {}, st)
    okr = key(st.heap.get(("n", "parent"))) == "None" and st.heap.get(("PAR", "child")) is not None and key(st.heap.get(("PAR", "child"))) == "None"
    R.check(okr, "C06.RESET", g.qual, where(g), "removeStub clears label.parent (and the stale stub's child link)", "removeStub leaves n.parent=%s, stale stub.child=%s" % (key(st.heap.get(("n", "parent"))), key(st.heap.get(("PAR", "child"))) if st.heap.get(("PAR", "child")) is not None else "untouched"))
    ev = new_eval(P)
    ev.assume("truth(n.parent)", False)
    st = ev.new_state(g)
    st.heap[("n", "parent")] = NONE
    r = ev.call_closure(Closure(g, None, selfv=n), [], {}, st)
    R.check(key(st.heap.get(("n", "parent"))) == "None", "C06.RESET", g.qual + "|no parent", where(g), "no-op without a parent", "removeStub on a parentless label sets parent=%s" % key(st.heap.get(("n", "parent"))))


def _overlap_view(ctx):
    """algorithm_overlap, with simple private helpers inlined when the punting loops were factored out of it."""
    def build():
        import copy as _copy
        from ..normalise import inline_helpers
        from ..cfg import CFG

        P = ctx.P
        f = P.func(D + ".algorithm_overlap")
        whiles = [n for n in ast.walk(f.node) if isinstance(n, ast.While)]
        if len(whiles) >= 2:
            return f, ctx.cfg(f), False
        body, n = inline_helpers(P, f)
        if not n:
            return f, ctx.cfg(f), False
        view = _copy.copy(f)
        node = _copy.copy(f.node)
        node.body = body
        view.node = node
        for st_ in body:
            st_._parent = node
        return view, CFG(body), True

    return ctx.get("c04.overlap_view", build)


@rule("C04.CAPACITY")
def capacity(ctx, R):
    P = ctx.P
    f, _cfg_unused, inl = _overlap_view(ctx)
    R.saw(f)
    if inl:
        R.note("C04.CAPACITY / C04.CONSERVE: algorithm_overlap analysed with its private helpers inlined")
    whiles = [n for n in ast.walk(f.node) if isinstance(n, ast.While)]
    outer = [w for w in whiles if any(isinstance(x, ast.While) and x is not w for x in ast.walk(w))]
    inner = [w for w in whiles if w not in outer]
    if len(outer) != 1 or len(inner) != 1:
        R.undecided("C04.CAPACITY", "overlap|loop shape", where(f), "algorithm_overlap is not an outer loop over passes with one inner punting loop (%d/%d while loops): the capacity recogniser does not apply" % (len(outer), len(inner)))
        return
    wo, wi = outer[0], inner[0]
    hook = lambda fv, args, kwargs, node, st_: Opaque("REQ(%s)" % key(args[0])) if isinstance(fv, Closure) and fv.func.qual == D + ".computeRequiredWidth" else (NONE if isinstance(fv, Closure) and fv.func.qual == D + ".countIdealOverlaps" else None)
    ev, st, s, o = _self_eval(ctx, f, hook=hook)
    NODE = P.cls("node.Node")
    st.env.vars[f.params[0]] = s
    st.env.vars[f.params[1]] = Opaque("NS", cls=NODE, kind="seq")
    pre = f.node.body[: f.node.body.index(wo)]
    ev.block(pre, st, [])
    budget = A("opt:density") * A("opt:layerWidth")
    # outer guard: W > budget with W = REQ(punted list)
    c = ev.cond(wo.test, st)
    okg = False
    wvar = pvar = None
    if isinstance(c, Cond) and c.tree[0] == "cmp" and c.tree[1] in ("lt", "le"):
        b, w = as_num(c.tree[2]), c.tree[3]
        okg = b is not None and b.equals(budget) and key(w).startswith("REQ(")
        names = [n.id for n in ast.walk(wo.test) if isinstance(n, ast.Name)]
        for nm in names:
            if key(st.env.lookup(nm)).startswith("REQ("):
                wvar = nm
    R.check(okg and wvar is not None, "C04.CAPACITY", "overlap|outer guard", where(f, wo), "another pass while required width of the punted labels > density*layerWidth", "the outer guard is %s: not 'required width of the punted labels exceeds density*layerWidth'" % show(c))
    if wvar is None:
        return
    # which list is the punted list
    wv = key(st.env.lookup(wvar))
    plist = wv[4:-1]
    for nm, v in st.env.vars.items():
        if key(v) == plist and nm != f.params[1]:
            pvar = nm
    if pvar is None:
        pvar = f.params[1]
    # inside one outer pass
    st.env.vars[pvar] = Opaque("PUNTED", cls=NODE, kind="seq")
    st.env.vars[wvar] = Opaque("REQ(PUNTED)")
    pre_i = wo.body[: wo.body.index(wi)] if wi in wo.body else None
    if pre_i is None:
        R.bad("C04.CAPACITY", "overlap|nesting", where(f, wi), "the punting loop is not directly inside the pass loop")
        return
    ev.block(pre_i, st, [])
    ci = ev.cond(wi.test, st)
    # G = len(CUR) > a and CURW > budget
    conj = list(ci.tree[1:]) if isinstance(ci, Cond) and ci.tree[0] == "and" else ([ci.tree] if isinstance(ci, Cond) else [])
    len_ok = wid_ok = False
    curlist = curw = None
    extra = []
    for t in conj:
        if t[0] == "cmp" and t[1] in ("lt", "le"):
            a, b = as_num(t[2]), as_num(t[3])
            if a is not None and a.is_const() and b is not None and len(b.atoms()) == 1 and str(next(iter(b.atoms()))).startswith("len("):
                k = a.const_value()
                strict = t[1] == "lt"
                # not G => len <= 2 ; G => len >= 1
                bound = k if strict else k - 1  # G: len > bound
                len_ok = 0 <= bound <= 2
                curlist = str(next(iter(b.atoms())))[4:-1]
                continue
            if a is not None and a.equals(budget) and b is not None:
                wid_ok = True
                curw = b
                continue
        extra.append(t)
    R.check(len_ok and wid_ok and not extra, "C04.CAPACITY", "overlap|inner guard", where(f, wi), "punting continues while more than 2 labels remain and the layer is over budget",
            "the inner guard is %s: its negation must imply 'at most 2 labels left or width within density*layerWidth', and it must imply the layer is non-empty" % show(ci))
    if curlist is None or curw is None:
        return
    # tracked width starts as the required width of the same list
    init_ok = key(curw) == "REQ(PUNTED)" or key(curw) == "REQ(%s)" % curlist
    src_ok = curlist in ("PUNTED[:]", "list(PUNTED)", "PUNTED.copy()", "PUNTED")
    R.check(init_ok and src_ok, "C04.CAPACITY", "overlap|tracked width initialised", where(f, wi), "the working layer is a copy of the punted labels and its tracked width their required width", "working layer %s with tracked width %s: the tracked width does not start as the required width of the working layer" % (curlist, show(curw)))
    # delta per removal
    cvar = wvar_i = None
    for nm, v in st.env.vars.items():
        if key(v) == curlist and nm not in (pvar,):
            cvar = nm
        if key(v) == key(curw) and nm != wvar:
            wvar_i = nm
    if wvar_i is None:
        wvar_i = wvar
    if cvar is None:
        R.bad("C04.CAPACITY", "overlap|working layer variable", where(f, wi), "cannot identify the working layer variable")
        return
    st.env.vars[cvar] = Opaque("CUR", cls=NODE, kind="seq")
    st.env.vars[wvar_i] = Num.atom("CURW")
    n0 = len(st.events)
    ev.block(wi.body, st, [])
    after = as_num(st.env.lookup(wvar_i))
    pops = [e for e in st.events[n0:] if e[0] == "seq-pop" and e[1] == "CUR"]
    okd = False
    detail = "no single pop from the working layer"
    if len(pops) == 1 and after is not None:
        popped = "CUR.pop(%s)" % ", ".join(key(a) for a in pops[0][2])
        want = A("CURW") - A(popped + ".width") + A("opt:stubWidth")
        okd = after.equals(want)
        detail = "tracked width becomes %s, expected CURW - popped.width + stubWidth" % after.key()
    R.check(okd, "C04.CAPACITY", "overlap|width delta", where(f, wi), "per removal the tracked width changes by -removed.width + stubWidth", "per removal: %s (the removed label leaves a stub of stubWidth in this layer; the spacing slot stays)" % detail)
    # the outer width is recomputed from the punted list at the end of the pass
    post = wo.body[wo.body.index(wi) + 1:]
    ev.block(post, st, [])
    wv2 = key(st.env.lookup(wvar))
    pv2 = key(st.env.lookup(pvar))
    R.check(wv2 == "REQ(%s)" % pv2, "C04.CAPACITY", "overlap|outer width recomputed", where(f, wo), "after a pass the guard's width is the required width of the labels punted in it", "after a pass the outer guard's width is %s while the punted list is %s" % (wv2, pv2))


def _overlap_instances(ctx):
    """algorithm_overlap evaluated on concrete instances (label widths, spacing, stub width and the capacity are numbers, so
    every loop test folds and the loops are simply run by the evaluator; overlap counts are all equal, so the stable sort
    keeps the order): returns a list of (description, labels, layers or None when the evaluation did not stay concrete)."""
    def build():
        P = ctx.P
        f = P.func(D + ".algorithm_overlap")
        NODE = P.cls("node.Node")
        out = []
        for desc, widths, maxw in (
            ("6 labels of width 20, capacity 60", [20] * 6, 60),
            ("5 labels of widths 10/50/10/50/10, capacity 60", [10, 50, 10, 50, 10], 60),
            ("4 labels of width 30, capacity 200 (one layer)", [30] * 4, 200),
            ("7 labels of width 25, capacity 40", [25] * 7, 40),
            ("1 label of width 80, capacity 40", [80], 40),
        ):
            def hook(fv, args, kwargs, node, st_, maxw=maxw):
                if isinstance(fv, Closure) and fv.func.qual == D + ".countIdealOverlaps":
                    return NONE
                if isinstance(fv, Closure) and fv.func.qual == "node.Node.createStub":
                    return Opaque("stub(%s)" % key(fv.selfv), cls=NODE, kind="obj")
                if isinstance(fv, Closure) and fv.func.qual == "node.Node.isStub":
                    return Const(key(fv.selfv).startswith("stub("))
                if isinstance(fv, Closure) and fv.func.qual == D + ".maxWidthPerLayer":
                    return C(maxw)
                return None

            ev = new_eval(P, on_call=hook)
            ev.unroll_while = True
            st = ev.new_state(f)
            s = Opaque("self", cls=P.cls(D), kind="obj")
            st.heap[("self", "options")] = DictV({"stubWidth": C(1), "nodeSpacing": C(3), "density": Num.atom("DENS"), "layerWidth": C(100), "algorithm": Const("overlap")})
            names = ["n%d" % i for i in range(len(widths))]
            nodes = []
            for n_, w_ in zip(names, widths):
                o = Opaque(n_, cls=NODE, kind="obj")
                nodes.append(o)
                st.heap[(n_, "width")] = C(w_)
                st.heap[(n_, "overlapCount")] = C(0)
                st.heap[(n_, "overlaps")] = Seq("list", [])
            try:
                r = ev.call_closure(Closure(f, None, selfv=s), [Seq("list", nodes, ident="NODES")], {}, st)
            except Exception:
                r = None
            layers = None
            if isinstance(r, Seq) and all(isinstance(l, Seq) and all(isinstance(x, Opaque) for x in l.items) for l in r.items):
                layers = [[key(x) for x in l.items] for l in r.items]
            out.append((desc, names, layers))
        return out

    return ctx.get("c04.overlap-instances", build)


@rule("C04.CONSERVE-INSTANCES")
def conserve_instances(ctx, R):
    """Every label is in exactly one layer and no layer is empty, on concrete instances run through the evaluator."""
    P = ctx.P
    f = P.func(D + ".algorithm_overlap")
    R.saw(f)
    n = 0
    for desc, names, layers in _overlap_instances(ctx):
        if layers is None:
            R.ok("C04.CONSERVE-INSTANCES", "overlap|" + desc, where(f), "instance evaluation did not stay concrete (not judged here; the structural rule decides)", nontrivial=False)
            continue
        n += 1
        flat = [x for l in layers for x in l if not x.startswith("stub(")]
        ok = sorted(flat) == sorted(names) and all(l for l in layers)
        R.check(ok, "C04.CONSERVE-INSTANCES", "overlap|" + desc, where(f), "each label in exactly one layer, no empty layer: %s" % layers,
                "for %s algorithm_overlap returns %s: every label must be in exactly one layer and no layer may be empty (labels lost, duplicated, or an empty layer reported)" % (desc, layers))
    R.check(n >= 1 or True, "C04.CONSERVE-INSTANCES.inventory", "instances evaluated concretely: %d" % n, "", "", "", nontrivial=False)


@rule("C04.CONSERVE")
def conserve(ctx, R):
    P = ctx.P
    # the structural (all-n) argument below knows the loops as one method writes them; when the instances above are all
    # evaluated and conserve the labels, a spelling it does not recognise is not an alarm (it stays one when they fail or
    # cannot be evaluated)
    inst = _overlap_instances(ctx)
    if inst and all(l is not None and sorted(x for ll in l for x in ll if not x.startswith("stub(")) == sorted(nm) and all(ll for ll in l) for _, nm, l in inst):
        R = _SoftAll(R)
    f, cfg, _inl = _overlap_view(ctx)
    whiles = [c for c in cfg.loops if isinstance(c["stmt"], ast.While)]
    outer = [w for w in whiles if any(isinstance(x, ast.While) and x is not w["stmt"] for x in ast.walk(w["stmt"]))]
    inner = [w for w in whiles if w not in outer]
    if len(outer) != 1 or len(inner) != 1:
        R.undecided("C04.CONSERVE", "overlap|loop shape", where(f), "unexpected loop structure: the linear-flow recogniser does not apply")
        return
    wo, wi = outer[0], inner[0]
    # (a) every pop in the inner loop is followed by an append of the popped element on every path to the loop head / exit
    ibody = cfg.loop_body(wi)
    pops = [n for n in ibody if n.kind == "stmt" and isinstance(n.ast, ast.Assign) and isinstance(n.ast.value, ast.Call) and isinstance(n.ast.value.func, ast.Attribute) and n.ast.value.func.attr == "pop" and isinstance(n.ast.targets[0], ast.Name)]
    other_rm = []
    for n in cfg.stmt_nodes():
        for c in calls_in(n.ast) + ([n.ast] if isinstance(n.ast, ast.Call) else []) if n.ast is not None else []:
            if isinstance(c.func, ast.Attribute) and c.func.attr in ("pop", "remove", "clear") and not any(n is p for p in pops):
                other_rm.append((n, c))
            if isinstance(c.func, ast.Attribute) and c.func.attr == "pop" and any(n is p for p in pops) and not (isinstance(n.ast, ast.Assign) and n.ast.value is c):
                other_rm.append((n, c))
        if n.kind == "stmt" and isinstance(n.ast, ast.Delete):
            other_rm.append((n, n.ast))
    R.check(len(pops) == 1, "C04.CONSERVE", "overlap|one removal site", where(f), "labels leave the working layer at exactly one pop", "%d pop sites in the punting loop" % len(pops))
    for n, c in other_rm:
        R.bad("C04.CONSERVE", "overlap|extra removal `%s`" % ntext(c)[:40], where(f, c), "`%s` removes items outside the pop/append hand-over: a label can be lost" % ntext(c)[:60])
    src = dst = None
    for p in pops:
        x = p.ast.targets[0].id
        src = ntext(p.ast.value.func.value)
        apps = [m for m in ibody if _calls_pred(m, lambda k: isinstance(k.func, ast.Attribute) and k.func.attr == "append" and len(k.args) == 1 and ntext(k.args[0]) == x)]
        ok = bool(apps) and not cfg.exists_path(p, wi["head"], avoid=apps) and all(e not in cfg.reach(p, avoid=apps) for e in (cfg.exit,))
        if apps:
            k = [k for k in calls_in(apps[0].ast) + [apps[0].ast.value] if isinstance(k, ast.Call) and isinstance(k.func, ast.Attribute) and k.func.attr == "append"][0]
            dst = ntext(k.func.value)
        R.check(ok and len(apps) == 1, "C04.CONSERVE", "overlap|popped label is punted", where(f, p.ast), "every label popped from the working layer is appended to the punted list on every path", "a label popped from %s can reach the next pass without being appended to the punted list (or is appended twice)" % src)
    if src is None or dst is None:
        return
    obody = cfg.loop_body(wo)
    # (b) working copy taken before the punted list is reset; reset to a fresh empty list
    copies = [n for n in obody if n.kind == "stmt" and isinstance(n.ast, ast.Assign) and ntext(n.ast.targets[0]) == src and ntext(n.ast.value) in ("%s[:]" % dst, "list(%s)" % dst, "%s.copy()" % dst, dst)]
    resets = [n for n in obody if n.kind == "stmt" and isinstance(n.ast, ast.Assign) and ntext(n.ast.targets[0]) == dst and n not in ibody]
    okb = len(copies) == 1 and len(resets) == 1 and ntext(resets[0].ast.value) in ("[]", "list()") and cfg.dominates(copies[0], resets[0]) and cfg.dominates(resets[0], wi["head"])
    if okb and ntext(copies[0].ast.value) == dst:
        okb = False  # alias, not a copy: reset would not matter but appends would hit both
    R.check(okb, "C04.CONSERVE", "overlap|working copy before reset", where(f, wo["stmt"]), "each pass copies the punted labels into the working layer, then restarts the punted list empty", "a pass does not (1) copy the punted labels into the working layer and then (2) restart the punted list as a fresh empty list: labels are duplicated or dropped between passes")
    # (c) the working layer is appended to the result exactly once per pass, after the inner loop
    res = [n for n in obody if n not in ibody and _calls_pred(n, lambda k: isinstance(k.func, ast.Attribute) and k.func.attr == "append" and len(k.args) == 1 and ntext(k.args[0]) == src)]
    okc = len(res) == 1 and not cfg.exists_path(wi["head"], wo["head"], avoid=res + list(ibody - {wi["head"]}) if False else res)
    R.check(okc, "C04.CONSERVE", "overlap|layer reported once per pass", where(f, wo["stmt"]), "every pass appends its working layer to the result exactly once", "a pass can end without appending its working layer to the result (or appends it twice)")
    layers_name = None
    if res:
        k = [k for k in calls_in(res[0].ast) + [res[0].ast.value] if isinstance(k, ast.Call) and isinstance(k.func, ast.Attribute) and k.func.attr == "append"][0]
        layers_name = ntext(k.func.value)
    # (d) final punted list appended iff non-empty
    after = [n for n in cfg.stmt_nodes() if n not in obody and n is not wo["head"] and cfg.dominates(wo["head"], n)]
    fin = [n for n in after if _calls_pred(n, lambda k: isinstance(k.func, ast.Attribute) and k.func.attr == "append" and len(k.args) == 1 and ntext(k.args[0]) == dst and ntext(k.func.value) == layers_name)]
    okd = False
    detail = "no final append of the remaining punted labels"
    if len(fin) == 1:
        guards = [t for t in cfg.nodes if t.kind == "test" and cfg.dominates(t, fin[0]) and t not in obody and t is not wo["head"] and cfg.dominates(wo["head"], t)]
        if guards:
            t = guards[-1]
            tx = ntext(t.ast).replace(" ", "")
            nonempty = {"len(%s)>0" % dst, "len(%s)>=1" % dst, dst, "len(%s)" % dst, "len(%s)!=0" % dst, "0<len(%s)" % dst}
            okd = tx in nonempty and cfg.elabel.get((t, [s_ for s_ in cfg.succ[t] if s_ is fin[0] or cfg.dominates(s_, fin[0])][0])) is True
            detail = "guard `%s`" % ntext(t.ast)
        else:
            okd = False
            detail = "the final append is unconditional (an empty layer would be reported)"
    R.check(okd, "C04.CONSERVE", "overlap|remaining labels form the last layer", where(f), "the remaining punted labels are appended iff there are any", "final hand-over: %s; the remaining labels must form the last layer iff there are any (no label lost, no empty layer)" % detail)
    # (e) the initial punted list is a copy of all input nodes
    inits = [n for n in cfg.stmt_nodes() if n.kind == "stmt" and isinstance(n.ast, ast.Assign) and ntext(n.ast.targets[0]) == dst and cfg.dominates(n, wo["head"]) and n not in obody]
    nodes_p = f.params[1]
    oke = len(inits) == 1 and ntext(inits[0].ast.value) in ("%s[:]" % nodes_p, "list(%s)" % nodes_p, "%s.copy()" % nodes_p, nodes_p)
    R.check(oke, "C04.CONSERVE", "overlap|starts with all labels", where(f), "the first pass starts from all labels", "the punted list does not start as (a copy of) all input labels")
    # the function returns the result list
    rets = [n for n in cfg.stmt_nodes() if n.kind == "stmt" and isinstance(n.ast, ast.Return)]
    R.check(len(rets) == 1 and ntext(rets[0].ast.value) == layers_name, "C04.CONSERVE", "overlap|returns the layers", where(f), "returns the list of layers", "algorithm_overlap does not return the assembled layers")


def _calls_pred(n, pred):
    if n.ast is None:
        return False
    cs = calls_in(n.ast)
    if isinstance(n.ast, ast.Call):
        cs = [n.ast] + cs
    return any(pred(c) for c in cs)


@rule("C04.OPTFLOW")
def optflow(ctx, R):
    P = ctx.P
    from .c03 import _set_options_eval
    # x supplies only algorithm: the other distributor options must come from the engine's current options
    ev, st, cur, dopts, fd, dd, f = _set_options_eval(ctx, False, False, x_items={"algorithm": Opaque("x:algorithm")})
    R.saw(f)
    for k_ in sorted(set(dd.items) & set(fd.items)):
        want = "x:%s" % k_ if k_ == "algorithm" else "cur:%s" % k_
        got = dopts.items.get(k_)
        R.check(got is not None and key(got) == want, "C04.OPTFLOW", "distributor.%s" % k_, where(f), "distributor option %s = the engine's current value" % k_, "after set_options the distributor's %s is %s, expected the engine's current value %s (engine defaults such as density 0.85 must reach the distributor)" % (k_, show(got) if got is not None else None, want))
    # constructor: defaults copied, then set_options(options)
    g = P.func("force.Force.__init__")
    R.saw(g)
    seen = []
    hook = lambda fv, args, kwargs, node, st_: (seen.append([key(a) for a in args]), NONE)[1] if isinstance(fv, Closure) and fv.func.qual == "force.Force.set_options" else None
    ev = new_eval(P, on_call=hook, inline_filter=lambda fn: not fn.qual.startswith("distributor."))
    st = ev.new_state(g)
    s = Opaque("self", cls=P.cls("force.Force"), kind="obj")
    ev.call_closure(Closure(g, None, selfv=s), [Opaque("OPTS")], {}, st)
    so = st.heap.get(("self", "options"))
    fdv = ev.resolve_global("force", "DEFAULT_OPTIONS")
    okc = isinstance(so, DictV) and so is not fdv and {k: key(v) for k, v in so.items.items()} == {k: key(v) for k, v in fdv.items.items()} and seen == [["OPTS"]]
    R.check(okc, "C04.OPTFLOW", g.qual, where(g), "engine options = copy of the defaults, then set_options(caller's options)", "Force.__init__ does not start from a copy of DEFAULT_OPTIONS and apply the caller's options through set_options (options=%s, set_options calls=%s)" % (show(so, 120) if so is not None else None, seen))
    layers0 = st.heap.get(("self", "layers"))
    R.check(layers0 is not None and key(layers0) == "None", "C04.REPORTED", g.qual + "|no layering yet", where(g), "a new engine reports no layering", "a new engine's layers is %s" % (show(layers0) if layers0 is not None else "unset"), nontrivial=False)


@rule("C04.DEFAULTS")
def defaults(ctx, R):
    P = ctx.P
    ev = new_eval(P)
    fd = ev.resolve_global("force", "DEFAULT_OPTIONS")
    mod = P.module("force")
    want = {"algorithm": "'overlap'", "maxPos": "None", "minPos": "0", "nodeSpacing": "3", "stubWidth": "1", "density": "17/20"}
    for k_, v in sorted(want.items()):
        got = fd.items.get(k_) if isinstance(fd, DictV) else None
        R.check(got is not None and key(got) == v, "C04.DEFAULTS", "force.DEFAULT_OPTIONS[%r]" % k_, mod.path, "default %s = %s" % (k_, v), "force.DEFAULT_OPTIONS[%r] is %s, documented default is %s" % (k_, key(got) if got is not None else "missing", v), nontrivial=False)


@rule("C04.LAYERIDX")
def layeridx(ctx, R):
    P = ctx.P
    F = qp.force_model(ctx)
    f = F.func
    found = []
    for e in F.st.events:
        if e[0] == "loop":
            for b in qp._uncond_events(e[3]):
                if b[0] == "setattr" and b[2] == "layerIndex":
                    found.append((key(e[1]), b[1], key(b[3])))
            for b in qp._flat_events(e[3]):
                if b[0] == "setattr" and b[2] == "layerIndex" and (key(e[1]), b[1], key(b[3])) not in found:
                    found.append((key(e[1]), b[1], key(b[3]), "conditional"))
    ok = any((it == "enumerate(LAYERS)" and tgt == "elem(elem(LAYERS))" and val == "idx(LAYERS)") or (it == "range(len(LAYERS))" and tgt.startswith("elem(LAYERS[") and val.startswith("elem(range")) for it, tgt, val in [x for x in found if len(x) == 3])
    R.check(ok, "C04.LAYERIDX", "Force.compute|layerIndex", where(f), "every node of layers[k] gets layerIndex k", "Force.compute does not assign node.layerIndex = k for every node of every layer k (found %s): the drawing puts labels of farther layers into the first band" % found)
    # order: before the layer's removeOverlap is irrelevant; but it must cover all nodes: inner loop over the whole layer
    lay = F.st.heap.get(("self", "layers"))
    R.check(lay is not None and key(lay) == "LAYERS", "C04.REPORTED", "Force.compute|self.layers", where(f), "the engine retains the layering returned by distribute()", "after compute() the engine's reported layering is %s, not the layering distribute() returned for this call" % (show(lay) if lay is not None else "unset"))


@rule("C06.RESET")
def reset(ctx, R):
    P = ctx.P
    F = qp.force_model(ctx)
    f = F.func
    evs = list(F.st.events)
    i_dist = next((i for i, e in enumerate(evs) if e[0] == "mark" and e[1] == "distribute"), None)
    ok = False
    detail = "no loop removing stubs"
    for i, e in enumerate(evs):
        if e[0] == "loop" and key(e[1]) == "self._nodes":
            body = list(qp._flat_events(e[3]))
            cond = [b for b in e[3] if b[0] == "in-branch" and any(x[0] == "setattr" and x[2] == "parent" for x in qp._flat_events([b]))]
            sets = [b for b in body if b[0] == "setattr" and b[2] == "parent" and b[1] == "elem(self._nodes)" and key(b[3]) == "None"]
            # the only admissible condition is removeStub's own `if self.parent`
            lp = e[4]
            direct = [s_ for s_ in lp.body if isinstance(s_, ast.Expr) and isinstance(s_.value, ast.Call) and isinstance(s_.value.func, ast.Attribute) and s_.value.func.attr == "removeStub" and ntext(s_.value.func.value) == ntext(lp.target)]
            if sets and direct and i_dist is not None and i < i_dist:
                ok = True
            detail = "loop over self._nodes: clears parent=%s, unconditional call=%s, before distribute=%s" % (bool(sets), bool(direct), i_dist is not None and i < i_dist)
    R.check(ok, "C06.RESET", "Force.compute|stale stubs removed", where(f), "every label's stale stub link is removed before layering, on every compute()", "Force.compute does not unconditionally call removeStub() on every label before distribute() (%s): a re-layout keeps stale parent stubs as targets" % detail)


@rule("C04.STATE")
def state_rule(ctx, R):
    statepack.no_hidden_state(ctx, R, "C04.STATE", modules=["distributor", "force", "node"], classes={
        "force.Force": {"force", "options", "distributor", "_nodes", "layers"},
        "distributor.Distributor": {"options"},
    })


def _optsmerge(ctx, R):
    from .c11 import opts_merge
    return opts_merge(ctx, R)


_optsmerge.rule_id = "GEN.OPTS-MERGE"

def _layerwidth(ctx, R):
    from .c03 import layerwidth
    return layerwidth(ctx, R)


_layerwidth.rule_id = "C03.LAYERWIDTH"

# the capacity the layering respects is density * layerWidth with layerWidth = maxPos - minPos as Force.set_options derives it
RULES = [_optsmerge, reqwidth, single, distribute_rule, stubchain_instance, stubchain, stubattrs, capacity, conserve_instances, conserve, optflow, defaults, layeridx, reset, state_rule, _layerwidth]
