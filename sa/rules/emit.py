def kind_index_rule(ctx, R):
    pass
