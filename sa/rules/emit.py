"""Model of the two exporters: symbolic pipeline (get_nodes -> layout -> engine -> layout) for a
small concrete list of symbolic items, and the emission events of every add_* method of both back-ends,
as templates with holes.  Consumed by C07, C08, C09, C10, C20.
"""
import ast
import re

from .util import *
from ..sym import Template, Cat, LazyHeap

DIRECTIONS = ("up", "down", "left", "right")
SVG = "timeline.TimelineSVG"
TEX = "timeline.TimelineTex"


class Pipe:
    """One symbolic run of Timeline.compute() for `n` items in one configuration."""

    def __init__(self, ctx, backend, direction, n=2, show_border=False, show_ticks=True, tick_cross=False, chain=False, textless=(), init=False):
        P = ctx.P
        self.ctx, self.P = ctx, P
        self.backend = backend
        self.direction = direction
        self.cls = P.cls(backend)
        self.log = []
        self.emits = []  # SVG elements
        self.elem_k = 0
        self.chain = chain
        self.mode = None if (chain is None or chain is False) else (1 if chain is True else int(chain))
        ev = new_eval(P, on_call=self.hook)
        self.ev = ev
        st = ev.new_state(module="timeline")
        self.st = st
        s = Opaque("self", cls=self.cls, kind="obj")
        self.self = s
        d = ev.resolve_global("timeline", "DEFAULT_OPTIONS")
        opts = DictV({k: Opaque("opt:%s" % k) for k in d.items})
        opts.items["direction"] = Const(direction)
        opts.items["showBorder"] = Const(show_border)
        opts.items["showTicks"] = Const(show_ticks)
        opts.items["labelPadding"] = DictV({k: Num.atom("pad_" + k) for k in ("left", "right", "top", "bottom")})
        opts.items["margin"] = DictV({k: Num.atom("m_" + k) for k in ("left", "right", "top", "bottom")})
        opts.items["initialWidth"] = Num.atom("IW")
        opts.items["initialHeight"] = Num.atom("IH")
        opts.items["layerGap"] = Num.atom("G")
        opts.items["dotRadius"] = Num.atom("R")
        opts.items["labella"] = Opaque("LABELLA")
        opts.items["scale"] = Opaque("SCALE", kind="obj")
        lat = d.items.get("latex")
        latd = DictV({k: Opaque("latex:%s" % k) for k in (lat.items if isinstance(lat, DictV) else [])})
        latd.items["tickCross"] = Const(tick_cross)
        latd.items["reproducible"] = Const(False)
        opts.items["latex"] = latd
        for cn in ("dotColor", "linkColor", "labelBgColor", "labelTextColor", "borderColor"):
            opts.items[cn] = Opaque("opt:%s" % cn, kind="obj")
        self.opts = opts
        st.heap[("self", "options")] = opts
        st.heap[("self", "direction")] = Const(direction)
        items = []
        for i in range(n):
            it = Opaque("ITEM%d" % i, kind="obj")
            st.heap[(it.text, "width")] = Num.atom("iw%d" % i)
            st.heap[(it.text, "height")] = Num.atom("ih%d" % i)
            if i in textless:
                st.heap[(it.text, "text")] = NONE  # a datum without a label text
            else:
                st.heap[(it.text, "text")] = Opaque("TEXT%d" % i, kind="str")
                ev.assume("truth(TEXT%d)" % i, True)
            st.heap[(it.text, "data")] = Opaque("DATUM%d" % i, kind="obj")
            items.append(it)
        self.items = items
        st.heap[("self", "items")] = Seq("list", items)
        if init:
            # the part of Timeline.__init__ that follows the parsing of the items (levelling, rotation, ...), run on items
            # whose size is the datum's own: width iw_i as supplied, one common height IH (Item gives every datum with an
            # explicit width the same constant height, C07.THICK)
            for it in items:
                st.heap[(it.text, "height")] = Num.atom("IH")
            fi = P.func("timeline.Timeline.__init__")
            body = list(fi.node.body)
            k0 = None
            for i_, stn in enumerate(body):
                if isinstance(stn, ast.Assign) and any(isinstance(t, ast.Attribute) and t.attr == "items" for t in stn.targets):
                    k0 = i_
            if k0 is None:
                raise Undecided("Timeline.__init__ does not assign self.items")
            sti = State(Env({fi.params[0]: s}, ev.module_env("timeline"), "timeline", fi), st.heap)
            sti.events = st.events
            self.in_init = True
            ev.block(body[k0 + 1:], sti, [])
            self.in_init = False
            st.heap = sti.heap
        f = P.func("timeline.Timeline.compute")
        r = ev.call_closure(Closure(f, None, selfv=s), [], {}, st)
        self.compute_result = r
        self.nodes = []
        self.renderer = None
        if isinstance(r, Seq) and len(r.items) == 2 and isinstance(r.items[0], Seq):
            self.nodes = list(r.items[0].items)
            self.renderer = r.items[1]
            st.heap[("self", "nodes")] = r.items[0]
            st.heap[("self", "renderer")] = r.items[1]

    # hooks ------------------------------------------------------------------------
    def hook(self, fv, args, kwargs, node, st):
        if getattr(self, "in_init", False) and isinstance(fv, Closure) and fv.func.qual == "timeline.Timeline.init_axis":
            return NONE  # the axis set-up is judged by C07.AXIS
        if isinstance(fv, ClassRef) and fv.cls.qual == "force.Force":
            self.log.append(("Force", [key(a) for a in args]))
            return Opaque("FORCE", cls=fv.cls, kind="obj")
        if isinstance(fv, Closure):
            q = fv.func.qual
            if q == "force.Force.nodes":
                if args:
                    self.log.append(("force.nodes(set)", [key(a) for a in args]))
                    st.heap[("FORCE", "_nodes")] = args[0]
                    return NONE
                self.log.append(("force.nodes()", []))
                cur = st.heap.get(("FORCE", "_nodes"))
                if isinstance(cur, Seq):
                    # the engine may reorder the list it was given (algorithm "none" sorts in place)
                    return Seq("list", list(reversed(cur.items)), ident="A:force.nodes()")
                return cur
            if q == "force.Force.compute":
                self.log.append(("force.compute", []))
                nodes = st.heap.get(("FORCE", "_nodes"))
                if isinstance(nodes, Seq):
                    for i, n in enumerate(nodes.items):
                        if isinstance(n, Opaque):
                            st.heap[(n.text, "currentPos")] = Num.atom("P%d" % i)
                            st.heap[(n.text, "layerIndex")] = Num.atom("L%d" % i) if self.mode is None else C(self.mode)
                return NONE
            if q == "timeline.Timeline.timePos":
                self.log.append(("timePos", [key(a) for a in args]))
                k = key(args[0]) if args else "?"
                return Num.atom("TPOS(%s)" % k)
            if q == "renderer.Renderer.layout":
                self.log.append(("layout", [key(a) for a in args]))
                return None
            if q == "node.Node.getPathFromRoot" and self.mode == 1:
                # label in layer 1 with its stub in layer 0
                n = fv.selfv
                stub = Opaque("STUB(%s)" % n.text, cls=fv.func.cls, kind="obj")
                return Seq("list", [stub, n])
            if q == "node.Node.getPathFromRoot" and self.mode is not None and self.mode >= 2:
                # label in layer k behind a chain of k stubs, the root (layer 0) first
                n = fv.selfv
                stubs = [Opaque("STUB(%s)" % n.text if j == 0 else "STUB%d(%s)" % (j, n.text), cls=fv.func.cls, kind="obj") for j in range(self.mode)]
                return Seq("list", stubs + [n])
            if q == "node.Node.getRoot" and self.mode is not None and self.mode >= 2:
                return Opaque("STUB(%s)" % fv.selfv.text, cls=fv.func.cls, kind="obj")
            if q == "node.Node.getPathFromRoot":
                return Seq("list", [fv.selfv])
            if q == "node.Node.getRoot" and self.mode == 1:
                return Opaque("STUB(%s)" % fv.selfv.text, cls=fv.func.cls, kind="obj")
            if q == "node.Node.getRoot":
                return fv.selfv
            if q in ("utils.int2name", "utils.hex2rgbstr", "utils.hex2html", "tex.uni2tex"):
                return Opaque("%s(%s)" % (fv.func.name, ", ".join(key(a) for a in args)), kind="str")
            if fv.func.module.name == "timeline" and q.endswith("Color") and fv.func.name != "colorFunc":
                return None
            if fv.func.name == "colorFunc" and fv.func.module.name == "timeline":
                # the colour resolver (wherever the class layout puts it): symbolic
                return Opaque("COLOR(%s)" % ", ".join([key(a) for a in args] + ["%s=%s" % kv for kv in sorted((k, key(v)) for k, v in kwargs.items())]), kind="str")
        if isinstance(fv, Ext) and fv.name.endswith("ElementTree.SubElement"):
            self.elem_k += 1
            e = Opaque("ELEM%d" % self.elem_k, kind="obj")
            attrib = kwargs.get("attrib")
            if attrib is None and len(args) > 2:
                attrib = args[2]
            snap = {}
            if isinstance(attrib, DictV):
                snap = dict(attrib.items)
            for k, v in kwargs.items():
                if k != "attrib":
                    snap[k] = v
            self.emits.append({"elem": e.text, "parent": key(args[0]) if args else None, "tag": key(args[1]).strip("'") if len(args) > 1 else None, "attrib": snap})
            return e
        if isinstance(fv, Ext) and fv.name.endswith("ElementTree.Element"):
            return Opaque("ROOT", kind="obj")
        if isinstance(fv, Opaque) and fv.text == "SCALE":
            return Num.atom("SCALE(%s)" % ", ".join(key(a) for a in args))
        if isinstance(fv, Opaque) and fv.text == "SCALE.ticks":
            self.log.append(("scale.ticks", [key(a) for a in args]))
            return Seq("list", [Opaque("TICK0"), Opaque("TICK1")], ident="A:ticks#%d" % len(self.log))
        if isinstance(fv, Opaque) and fv.text == "SCALE.tickFormat":
            self.log.append(("scale.tickFormat", [key(a) for a in args]))
            return Opaque("FMT")
        if isinstance(fv, Opaque) and fv.text == "FMT":
            return Opaque("FMT(%s)" % ", ".join(key(a) for a in args), kind="str")
        return None

    # helpers ----------------------------------------------------------------------
    def item_index(self, node):
        d = self.st.heap.get((node.text, "data"))
        for k, it in enumerate(self.items):
            if d is not None and key(d) == it.text:
                return k
        return None

    def field(self, node, attr):
        return self.st.heap.get((node.text, attr))

    def call(self, meth, *args):
        f = self.P.method(self.cls, meth)
        if f is None:
            raise AnchorMissing("%s.%s" % (self.backend, meth))
        return f, self.ev.call_closure(Closure(f, None, selfv=self.self), list(args), {}, self.st)

    def run_svg(self, meth):
        n0 = len(self.emits)
        e0 = len(self.st.events)
        f, r = self.call(meth, Opaque("LAYER", kind="obj"))
        texts = {}
        for e in self.st.events[e0:]:
            if e[0] == "setattr" and e[2] == "text" and e[1].startswith("ELEM"):
                texts[e[1]] = e[3]
        out = self.emits[n0:]
        for em in out:
            if em["elem"] in texts:
                em["text"] = texts[em["elem"]]
        return f, out, r

    def run_tex(self, meth):
        doc = Seq("list", [], ident="DOC")
        f, r = self.call(meth, doc)
        return f, list(doc.items), r


def flat(v, holes=None):
    """Flatten a string value to text with numbered holes <k>; returns (text, holes[(value, spec)])."""
    holes = [] if holes is None else holes
    if isinstance(v, Template):
        out = []
        for p in v.parts:
            if p[0] == "lit":
                out.append(p[1])
            else:
                inner, spec = p[1], p[2]
                if isinstance(inner, Template) and spec in ("raw", "%s", "str", "f:"):
                    t, _ = flat(inner, holes)
                    out.append(t)
                elif isinstance(inner, Const) and isinstance(inner.v, str) and spec in ("raw", "%s", "str"):
                    out.append(inner.v)
                else:
                    holes.append((inner, spec))
                    out.append("<%d>" % (len(holes) - 1))
        return "".join(out), holes
    if isinstance(v, Const):
        return str(v.v), holes
    holes.append((v, "raw"))
    return "<%d>" % (len(holes) - 1), holes


def pipes(ctx):
    def build():
        out = {}
        for backend in (SVG, TEX):
            for d in DIRECTIONS:
                out[(backend, d)] = Pipe(ctx, backend, d, n=2)
        return out

    return ctx.get("pipes", build)


def pipe(ctx, backend, direction, **kw):
    if getattr(ctx, "params", None) and ctx.params.get("n_items") and "n" in kw:
        kw["n"] = max(kw["n"], ctx.params["n_items"])
    k = ("pipe", backend, direction, repr(sorted(kw.items())))
    return ctx.get(k, lambda: Pipe(ctx, backend, direction, **kw))


def run_all(ctx):
    """Value-number every emitter method of both back-ends in every direction (with / without stub chain and border) once;
    returns the list of (backend, direction, chain, border, pipe).  Used by the crash lints to harvest facts."""
    def build():
        P = ctx.P
        out = []
        for backend in (SVG, TEX):
            meths = ["add_main", "add_timeline", "add_axis", "add_links", "add_labels", "add_dots"]
            if backend == TEX:
                meths = ["add_header", "add_header_colors", "add_header_text"] + meths
            for d in DIRECTIONS:
                for chain in (None, 1):
                    for border in (False, True):
                        p = pipe(ctx, backend, d, n=2, chain=chain, show_border=border)
                        for m in meths:
                            if P.method(p.cls, m) is None:
                                continue
                            (p.run_svg if backend == SVG else p.run_tex)(m)
                        out.append((backend, d, chain, border, p))
        return out

    return ctx.get("emit.run_all", build)


def string_format_sites(ctx):
    """AST nodes of `%` operations that format a string in some evaluated emitter run."""
    out = set()
    for backend, d, chain, border, p in run_all(ctx):
        out |= p.ev.strmod_nodes
    return out


def kind_index_rule(ctx, R):
    from .c09 import colour_slots
    return colour_slots(ctx, R, rule_id="C20.KIND")
