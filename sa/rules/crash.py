"""GEN.* crash lints: constructs that raise for every input that reaches them (TypeError / AttributeError /
KeyError / IndexError), decided from kinds and shapes visible in the source.  Each rule fires only on a construct
that cannot work; none of them speaks about output values.

  GEN.TYPED-ATTRS   an attribute read on a receiver whose classes are known (0-CFA) and none of which defines it
  GEN.SUPERINIT     a subclass __init__ whose base __init__ assigns instance attributes calls it on every path
  GEN.STRARITH      -, /, //, ** applied to an evident string
  GEN.BUILTIN-ARGS  isinstance(x, <not a type>), int(<number>, base), int(x, <base outside 0, 2..36>),
                    map(<not callable>, <callable>)
  GEN.DICTKEY       a module-level literal dict subscripted by a computed key without a dominating membership test
                    on the very same key expression
  GEN.SEQINDEX      constant subscripts outside a sequence / dict whose shape is known on that path of the exporter
                    pipelines (harvested from the value-numbering runs of the emitters)
"""
import ast
import builtins

from .util import *
from ..types import BUILTIN_METHOD_NAMES

STR_METHODS = {"join", "format", "upper", "lower", "strip", "lstrip", "rstrip", "replace", "title", "capitalize", "zfill", "ljust", "rjust", "strftime", "isoformat", "decode"}
STR_FUNCS = {"str", "chr", "repr", "hex", "oct", "bin", "format", "ascii"}
EXTRA_ATTR_OK = BUILTIN_METHOD_NAMES | {
    "year", "month", "day", "hour", "minute", "second", "microsecond", "days", "seconds", "attrib", "tag", "tail",
    "real", "imag", "start", "stop", "step", "begin", "end", "args", "__class__", "__name__", "__dict__",
}


def _assigned_attrs(P, cls):
    """Attribute names an instance of cls (or of a subclass, or of a base) can have: assigned through the first parameter
    of any method, class-level assignments, methods, properties."""
    out = set()
    for k in set(P.mro(cls)) | set(P.subclasses(cls)):
        out |= set(k.methods)
        for stn in k.node.body:
            if isinstance(stn, (ast.Assign, ast.AnnAssign)):
                for t in (stn.targets if isinstance(stn, ast.Assign) else [stn.target]):
                    for x in ast.walk(t):
                        if isinstance(x, ast.Name):
                            out.add(x.id)
        for m in k.methods.values():
            if not m.params:
                continue
            for nd in ast.walk(m.node):
                if isinstance(nd, ast.Attribute) and isinstance(nd.ctx, ast.Store) and isinstance(nd.value, ast.Name) and nd.value.id == m.params[0]:
                    out.add(nd.attr)
    return out


def _externally_assigned(P):
    """Attributes stored on anything anywhere in the package (obj.attr = ...): receivers of those stores may be instances."""
    out = {}
    for f in P.funcs.values():
        for nd in ast.walk(f.node):
            if isinstance(nd, ast.Attribute) and isinstance(nd.ctx, ast.Store):
                out.setdefault(nd.attr, []).append((f, nd))
    return out


def typed_attrs(ctx, R, reach):
    P, T = ctx.P, ctx.types
    ext = _externally_assigned(P)
    cache = {}
    n = 0
    for q in sorted(reach):
        f = P.funcs.get(q)
        if f is None:
            continue
        for nd in walk_local(f.node):
            if not (isinstance(nd, ast.Attribute) and isinstance(nd.ctx, ast.Load)):
                continue
            if nd.attr in EXTRA_ATTR_OK or nd.attr.startswith("__"):
                continue
            # receivers: names and attribute chains only (containers are collapsed by the type flow)
            r = nd.value
            ok_shape = True
            while isinstance(r, ast.Attribute):
                r = r.value
            if not isinstance(r, ast.Name):
                ok_shape = False
            if not ok_shape:
                continue
            vals = T.ev(nd.value, f, f.module)
            classes = {P.classes[v[1]] for v in vals if v[0] == "C"}
            if not classes or any(v[0] != "C" for v in vals):
                continue
            n += 1
            missing = []
            for c in classes:
                if c.qual not in cache:
                    cache[c.qual] = _assigned_attrs(P, c)
                if nd.attr not in cache[c.qual]:
                    missing.append(c)
            if len(missing) == len(classes):
                # stored from outside on a receiver that may be of these classes?
                stored_out = False
                for g, sn in ext.get(nd.attr, []):
                    sv = T.ev(sn.value, g, g.module)
                    if not sv or any(v[0] == "C" and P.classes[v[1]] in classes for v in sv):
                        stored_out = True
                        break
                if stored_out:
                    continue
                R.bad("GEN.TYPED-ATTRS", "%s|%s" % (q, ntext(nd)[:50]), where(f, nd), "`%s`: the receiver is a %s and no method of that class (or a base / subclass) ever assigns or defines `%s` (AttributeError)" % (ntext(nd)[:60], " / ".join(sorted(c.name for c in classes)), nd.attr))
    R.ok("GEN.TYPED-ATTRS", "typed attribute reads examined: %d" % n, "", "", nontrivial=False)
    return n


def superinit(ctx, R, reach):
    P = ctx.P
    for c in sorted(P.classes.values(), key=lambda k: k.qual):
        init = c.methods.get("__init__")
        if init is None or init.qual not in reach:
            continue
        bases = [k for k in P.mro(c)[1:] if "__init__" in k.methods]
        if not bases:
            continue
        b = bases[0]
        binit = b.methods["__init__"]
        sets = {nd.attr for nd in ast.walk(binit.node) if isinstance(nd, ast.Attribute) and isinstance(nd.ctx, ast.Store) and isinstance(nd.value, ast.Name) and binit.params and nd.value.id == binit.params[0]}
        if not sets:
            continue
        cfg = ctx.cfg(init)
        callers = []
        for nn in cfg.stmt_nodes():
            if nn.ast is None:
                continue
            for k in calls_in(nn.ast) + ([nn.ast] if isinstance(nn.ast, ast.Call) else []):
                if isinstance(k.func, ast.Attribute) and k.func.attr == "__init__":
                    recv = k.func.value
                    if (isinstance(recv, ast.Call) and isinstance(recv.func, ast.Name) and recv.func.id == "super") or (isinstance(recv, ast.Name) and recv.id in {x.name for x in bases}):
                        callers.append(nn)
        ok = bool(callers) and not cfg.exists_path(cfg.entry, cfg.exit, avoid=set(callers))
        R.check(ok, "GEN.SUPERINIT", "%s.__init__ -> %s.__init__" % (c.qual, b.qual), where(init), "the base constructor runs on every path", "%s.__init__ can return without having called %s.__init__, which assigns %s: every later read raises AttributeError" % (c.name, b.name, ", ".join(sorted(sets))[:80]))


def _is_str(e, f, P, depth=0):
    if isinstance(e, ast.Constant):
        return isinstance(e.value, str)
    if isinstance(e, ast.JoinedStr):
        return True
    if isinstance(e, ast.BinOp) and isinstance(e.op, ast.Mod):
        return _is_str(e.left, f, P, depth)
    if isinstance(e, ast.BinOp) and isinstance(e.op, ast.Add):
        return _is_str(e.left, f, P, depth) or _is_str(e.right, f, P, depth)
    if isinstance(e, ast.Call):
        if isinstance(e.func, ast.Name) and e.func.id in STR_FUNCS:
            return True
        if isinstance(e.func, ast.Attribute) and e.func.attr in STR_METHODS and (e.func.attr != "replace" or _is_str(e.func.value, f, P, depth)):
            return e.func.attr != "format" or _is_str(e.func.value, f, P, depth)
        return False
    if isinstance(e, ast.Name) and depth < 3 and f is not None and not f.is_lambda:
        if e.id in f.params:
            return False
        asg = []
        for nd in walk_local(f.node):
            if isinstance(nd, ast.Assign):
                for t in nd.targets:
                    if isinstance(t, ast.Name) and t.id == e.id:
                        asg.append(nd.value)
                    elif any(isinstance(x, ast.Name) and x.id == e.id and isinstance(x.ctx, ast.Store) for x in ast.walk(t)):
                        return False
            elif isinstance(nd, (ast.For, ast.comprehension)) and any(isinstance(x, ast.Name) and x.id == e.id and isinstance(x.ctx, ast.Store) for x in ast.walk(nd.target)):
                return False
            elif isinstance(nd, (ast.With,)):
                for it in nd.items:
                    if it.optional_vars is not None and any(isinstance(x, ast.Name) and x.id == e.id for x in ast.walk(it.optional_vars)):
                        return False
            elif isinstance(nd, ast.NamedExpr) and nd.target.id == e.id:
                asg.append(nd.value)
        if not asg and f is not None:
            # a module-level constant: every module-level assignment to the name is a string (and no function rebinds it)
            m = f.module
            ga = [nd.value for nd in m.tree.body if isinstance(nd, ast.Assign) and any(isinstance(t, ast.Name) and t.id == e.id for t in nd.targets)]
            rebound = any(isinstance(nd, ast.Global) and e.id in nd.names for nd in ast.walk(m.tree))
            return bool(ga) and not rebound and all(_is_str(v, None, P, depth + 1) for v in ga)
        return bool(asg) and all(_is_str(v, f, P, depth + 1) for v in asg)
    return False


def strarith(ctx, R, reach):
    P = ctx.P
    n = 0
    BAD = (ast.Sub, ast.Div, ast.FloorDiv, ast.Pow, ast.MatMult, ast.LShift, ast.RShift, ast.BitAnd, ast.BitOr, ast.BitXor)
    for q in sorted(reach):
        f = P.funcs.get(q)
        if f is None:
            continue
        g = f
        while g is not None and g.is_lambda:
            g = g.parent
        for nd in walk_local(f.node):
            l = r = None
            if isinstance(nd, ast.BinOp) and isinstance(nd.op, BAD):
                l, r = nd.left, nd.right
            elif isinstance(nd, ast.AugAssign) and isinstance(nd.op, BAD):
                l, r = nd.target, nd.value
            if l is None:
                continue
            n += 1
            if _is_str(l, g, P) or _is_str(r, g, P):
                R.bad("GEN.STRARITH", "%s|%s" % (q, ntext(nd)[:50]), where(f, nd), "`%s`: `%s` is not defined for strings (TypeError)" % (ntext(nd)[:70], type(nd.op).__name__))
    R.ok("GEN.STRARITH", "arithmetic sites examined: %d" % n, "", "", nontrivial=False)


def _is_type_expr(e, f, P, T):
    if isinstance(e, ast.Tuple):
        return all(_is_type_expr(x, f, P, T) for x in e.elts)
    if isinstance(e, ast.Name):
        if e.id in T.locals.get(f.qual, ()) or (f.parent is not None and e.id in T.locals.get(f.parent.qual, ())):
            return False
        if isinstance(getattr(builtins, e.id, None), type):
            return True
        imp = f.module.imports.get(e.id)
        if imp is not None:
            return True  # imported name: class or module attribute; cannot tell more
        return any(isinstance(stn, ast.ClassDef) and stn.name == e.id for stn in f.module.tree.body)
    if isinstance(e, ast.Attribute):
        r = e
        while isinstance(r, ast.Attribute):
            r = r.value
        return isinstance(r, ast.Name) and r.id in f.module.imports and r.id not in T.locals.get(f.qual, ())
    return False


def _evidently_value(e, f, T):
    """The expression is a data value, not a type: a subscript / call result / constant, or a local all of whose
    assignments are such (parameters and anything unknown are not evident)."""
    if isinstance(e, (ast.Subscript, ast.Constant, ast.BinOp, ast.JoinedStr, ast.List, ast.Dict)):
        return True
    if isinstance(e, ast.Call):
        return not (isinstance(e.func, ast.Name) and e.func.id == "type")
    if isinstance(e, ast.Name) and not f.is_lambda and e.id in T.locals.get(f.qual, ()) and e.id not in f.params:
        vals = []
        for nd in walk_local(f.node):
            if isinstance(nd, ast.Assign):
                for t in nd.targets:
                    if isinstance(t, ast.Name) and t.id == e.id:
                        vals.append(nd.value)
                    elif any(isinstance(x, ast.Name) and x.id == e.id and isinstance(x.ctx, ast.Store) for x in ast.walk(t)):
                        return False
            elif isinstance(nd, (ast.For, ast.comprehension, ast.AugAssign, ast.NamedExpr)) and any(isinstance(x, ast.Name) and x.id == e.id and isinstance(getattr(x, "ctx", None), ast.Store) for x in ast.walk(nd.target)):
                return False
        return bool(vals) and all(isinstance(v, (ast.Subscript, ast.Constant, ast.BinOp)) or (isinstance(v, ast.Call) and not (isinstance(v.func, ast.Name) and v.func.id == "type")) for v in vals)
    return False


def _callable_vals(vals, P):
    for v in vals:
        if v[0] in ("F", "BM", "K"):
            return True
        if v[0] == "C" and P.method(P.classes[v[1]], "__call__") is not None:
            return True
    return False


def builtin_args(ctx, R, reach):
    P, T = ctx.P, ctx.types
    n = 0
    for q in sorted(reach):
        f = P.funcs.get(q)
        if f is None:
            continue
        for c in walk_local(f.node):
            if not (isinstance(c, ast.Call) and isinstance(c.func, ast.Name)) or c.func.id in T.locals.get(f.qual, ()):
                continue
            nm = c.func.id
            if nm == "isinstance" and len(c.args) == 2:
                n += 1
                if _is_type_expr(c.args[0], f, P, T) and not isinstance(c.args[0], ast.Tuple) and not _is_type_expr(c.args[1], f, P, T) and _evidently_value(c.args[1], f, T):
                    R.bad("GEN.BUILTIN-ARGS", "%s|%s" % (q, ntext(c)[:50]), where(f, c), "`%s`: the first argument is a type and the second is a data value - isinstance(obj, type) has its arguments swapped (TypeError: arg 2 must be a type)" % ntext(c)[:70])
            elif nm == "int" and len(c.args) == 2:
                n += 1
                a, b = c.args
                if isinstance(a, ast.Constant) and isinstance(a.value, (int, float)):
                    R.bad("GEN.BUILTIN-ARGS", "%s|%s" % (q, ntext(c)[:50]), where(f, c), "`%s`: int() with an explicit base needs a string, not a number (TypeError)" % ntext(c)[:70])
                bv = const_value(b)
                if bv is not None and not (bv == 0 or 2 <= bv <= 36):
                    R.bad("GEN.BUILTIN-ARGS", "%s|%s base" % (q, ntext(c)[:50]), where(f, c), "`%s`: int() base must be 0 or 2..36 (ValueError)" % ntext(c)[:70])
            elif nm == "map" and len(c.args) == 2:
                n += 1
                va, vb = T.ev(c.args[0], f, f.module), T.ev(c.args[1], f, f.module)
                if not _callable_vals(va, P) and _callable_vals(vb, P) and not isinstance(c.args[0], (ast.Name,)):
                    R.bad("GEN.BUILTIN-ARGS", "%s|%s" % (q, ntext(c)[:50]), where(f, c), "`%s`: the first argument of map is not callable while the second is (TypeError)" % ntext(c)[:70])
    R.ok("GEN.BUILTIN-ARGS", "builtin calls examined: %d" % n, "", "", nontrivial=False)


def dictkey(ctx, R, reach):
    """D[k] with D a module-level dict literal and k computed: a membership test on the same key expression must
    dominate (or k iterates over D)."""
    P = ctx.P
    n = 0
    for q in sorted(reach):
        f = P.funcs.get(q)
        if f is None or f.is_lambda:
            continue
        cfg = None
        for nd in walk_local(f.node):
            if not (isinstance(nd, ast.Subscript) and isinstance(nd.ctx, ast.Load) and isinstance(nd.value, ast.Name)):
                continue
            if const_value(nd.slice) is not None or isinstance(nd.slice, (ast.Constant, ast.Slice)):
                continue
            if f.name in ("__getitem__", "__missing__") and isinstance(nd.slice, ast.Name) and len(f.params) >= 2 and nd.slice.id == f.params[1]:
                # a mapping class forwarding its own key to the table: KeyError for an unknown key is its contract, exactly as for
                # the dict it stands for; the keys its users read are judged where they are written (C11.OPTKEYS)
                continue
            if nd.value.id in ctx.types.locals.get(f.qual, ()):
                # a local table: one assignment of a dict literal, never stored into or mutated afterwards
                dn_ = nd.value.id
                lasg = [x for x in walk_local(f.node) if isinstance(x, ast.Assign) and any(isinstance(t, ast.Name) and t.id == dn_ for t in x.targets)]
                touched = any(
                    (isinstance(x, (ast.Subscript, ast.Attribute)) and isinstance(x.ctx, (ast.Store, ast.Del)) and isinstance(x.value, ast.Name) and x.value.id == dn_)
                    or (isinstance(x, ast.Call) and isinstance(x.func, ast.Attribute) and isinstance(x.func.value, ast.Name) and x.func.value.id == dn_ and x.func.attr in ("update", "setdefault", "pop", "clear", "popitem"))
                    or (isinstance(x, (ast.AugAssign, ast.For, ast.comprehension)) and any(isinstance(t, ast.Name) and t.id == dn_ for t in ast.walk(x.target)))
                    for x in walk_local(f.node))
                if dn_ in f.params or len(lasg) != 1 or not isinstance(lasg[0].value, ast.Dict) or touched:
                    continue
                asg = lasg
            else:
                asg = f.module.global_assigns(nd.value.id)
            if len(asg) != 1 or not isinstance(asg[0].value, ast.Dict):
                continue
            # dicts that are extended by subscript assignment at module level are registries, not closed tables
            n += 1
            kt = ntext(nd.slice)
            ktr = resolve_local(f, nd.slice)
            dn = nd.value.id
            if cfg is None:
                cfg = ctx.cfg(f)
            holder = None
            for cn in cfg.nodes:
                if cn.ast is not None and any(x is nd for x in ast.walk(cn.ast)):
                    holder = cn
                    break
            ok = False
            why = "no membership test"
            par = getattr(nd, "_parent", None)
            prev = nd
            while par is not None and par is not f.node:
                if isinstance(par, ast.Try) and prev in par.body:
                    for h in par.handlers:
                        names = [ntext(h.type)] if h.type is not None and not isinstance(h.type, ast.Tuple) else ([ntext(x) for x in h.type.elts] if h.type is not None else ["BaseException"])
                        if any(nm in ("KeyError", "LookupError", "Exception", "BaseException") for nm in names):
                            ok = True
                prev, par = par, getattr(par, "_parent", None)
            # iteration over the dict itself
            for lp in ast.walk(f.node):
                if isinstance(lp, (ast.For, ast.comprehension)) and ntext(lp.iter) in (dn, "%s.keys()" % dn, "sorted(%s)" % dn) and ntext(lp.target) == kt:
                    ok = True
            from .c11 import _local_guards

            for t_, pol in _local_guards(nd, f.node):
                if pol and (_member_test(t_, kt, dn) or _member_test(t_, ktr, dn, f=f)):
                    ok = True
            if not ok and holder is not None:
                for t in cfg.nodes:
                    if t.kind != "test" or t is holder or not cfg.dominates(t, holder):
                        continue
                    lab = None
                    for s_ in cfg.succ[t]:
                        if s_ is holder or cfg.dominates(s_, holder):
                            lab = cfg.elabel.get((t, s_))
                    if lab is True and (_member_test(t.ast, kt, dn) or _member_test(t.ast, ktr, dn, f=f)):
                        ok = True
                    elif lab is False and (_member_test(t.ast, kt, dn, negated=True) or _member_test(t.ast, ktr, dn, negated=True, f=f)):
                        ok = True
            R.check(ok, "GEN.DICTKEY", "%s|%s" % (q, ntext(nd)[:50]), where(f, nd), "`%s in %s` dominates the lookup" % (kt, dn), "`%s`: the table %s is read with a computed key and no test `%s in %s` on the same key expression dominates the read (KeyError for keys outside the table)" % (ntext(nd)[:60], dn, kt[:40], dn))
    R.ok("GEN.DICTKEY", "computed lookups in module-level tables examined: %d" % n, "", "", nontrivial=False)


def _member_test(t, kt, dn, negated=False, f=None):
    """f given: the test's key is compared after resolving single-assignment locals (kt is then a resolved text)."""
    if isinstance(t, ast.Compare) and len(t.ops) == 1 and (ntext(t.left) if f is None else resolve_local(f, t.left)) == kt and ntext(t.comparators[0]) in (dn, "%s.keys()" % dn):
        return isinstance(t.ops[0], ast.NotIn if negated else ast.In)
    if isinstance(t, ast.BoolOp) and isinstance(t.op, ast.And) and not negated:
        return any(_member_test(v, kt, dn, f=f) for v in t.values)
    if isinstance(t, ast.BoolOp) and isinstance(t.op, ast.Or) and negated:
        return any(_member_test(v, kt, dn, True, f=f) for v in t.values)
    if isinstance(t, ast.UnaryOp) and isinstance(t.op, ast.Not):
        return _member_test(t.operand, kt, dn, not negated, f=f)
    return False


def seqindex(ctx, R):
    """Constant subscripts outside a shape known on that path, harvested from the exporter pipelines."""
    from . import emit

    P = ctx.P
    seen = set()
    n = 0
    for backend, d, chain, border, p in emit.run_all(ctx):
        n += 1
        for kind, node, text, base in p.ev.faults:
            f = P.enclosing_func(node)
            k = (kind, f.qual if f else "?", ntext(node))
            if k in seen:
                continue
            seen.add(k)
            R.bad("GEN.SEQINDEX", "%s|%s" % (k[1], k[2][:50]), where(f, node) if f else "", "`%s`: %s (%s on every export that reaches it; found with direction %s%s)" % (ntext(node)[:60], text[:90], "IndexError" if kind == "indexerror" else "KeyError", d, ", stub chain" if chain else ""))
    R.ok("GEN.SEQINDEX", "emitter configurations value-numbered: %d" % n, "", "", nontrivial=False)


def hex_total(ctx, R):
    """Crash-only reading of the colour converters: for the four documented input shapes every int(<digits>, base)
    receives a non-empty string of hex digits only (no '#') with a base that accepts all of them, and no constant
    subscript leaves the string."""
    from .c20 import _shapes
    from ..sym import StrSym
    import re as _re

    P = ctx.P
    for fn in ("utils.hex2rgb", "utils.hex2html", "utils.hex2rgbstr"):
        f = P.func(fn)
        R.saw(f)
        for tag, code, n in _shapes():
            ev = new_eval(P)
            st = ev.new_state(module="utils")
            r = ev.call_closure(Closure(f, None), [StrSym(code.chars)], {}, st)
            txts = []

            def dump(x):
                if isinstance(x, Seq):
                    for y in x.items:
                        dump(y)
                elif isinstance(x, Template):
                    for p_ in x.parts:
                        if p_[0] != "lit":
                            dump(p_[1])
                else:
                    txts.append(key(x))

            dump(r)
            problems = []
            for t in txts:
                if "index out of range" in t:
                    problems.append("a constant subscript leaves the %d-character code (IndexError)" % len(code.chars))
                for m in _re.finditer(r"int\(S<([^>]*)>, (-?\d+)\)", t):
                    chars = [c for c in m.group(1).split(",") if c]
                    base = int(m.group(2))
                    if not chars:
                        problems.append("int('') of an empty digit group (ValueError)")
                    if any(c.startswith("lit:") for c in chars):
                        problems.append("int() receives the '#' (ValueError)")
                    if not (base == 0 or 16 <= base <= 36):
                        problems.append("int(..., %d) does not accept every hex digit (ValueError)" % base)
            for kind, node, text, base in ev.faults:
                problems.append("`%s` leaves the code (IndexError)" % ntext(node))
            R.check(not problems, "C11.HEXTOTAL", "%s %s" % (fn, tag), where(f), "every digit group parsed is non-empty, '#'-free hex within the code", "%s(%s): %s" % (f.name, tag, "; ".join(sorted(set(problems)))))


def _self_reads(P, m, seen=None):
    """Attributes read through self in method m and, transitively, in the methods it calls on self; minus what m
    itself definitely assigns first is not attempted (over-approximation of reads, used only for ordering)."""
    seen = set() if seen is None else seen
    if m.qual in seen or not m.params:
        return set()
    seen.add(m.qual)
    out = set()
    sn = m.params[0]
    for nd in ast.walk(m.node):
        if isinstance(nd, ast.Attribute) and isinstance(nd.ctx, ast.Load) and isinstance(nd.value, ast.Name) and nd.value.id == sn:
            k = m.cls
            g = m
            while g is not None and g.cls is None:
                g = g.parent
            if g is not None and g.cls is not None:
                m2 = None
                for kk in [g.cls] + list(P.subclasses(g.cls)):
                    m2 = m2 or P.method(kk, nd.attr)
                if m2 is not None:
                    out |= _self_reads(P, m2, seen)
                    continue
            out.add(nd.attr)
    return out


def _self_derefs(P, m, seen=None):
    """Attributes of self that method m (or a method it calls on self) dereferences - iterates, subscripts, calls or reads
    an attribute of - without any test on that attribute in the same method."""
    seen = set() if seen is None else seen
    if m.qual in seen or not m.params:
        return set()
    seen.add(m.qual)
    sn = m.params[0]
    tested = set()
    for nd in ast.walk(m.node):
        t = None
        if isinstance(nd, (ast.If, ast.While, ast.IfExp)):
            t = nd.test
        elif isinstance(nd, ast.BoolOp):
            t = nd
        if t is not None:
            for y in ast.walk(t):
                if isinstance(y, ast.Attribute) and isinstance(y.value, ast.Name) and y.value.id == sn:
                    tested.add(y.attr)
    out = set()
    for nd in ast.walk(m.node):
        a = None
        if isinstance(nd, (ast.Attribute, ast.Subscript)) and isinstance(nd.value, ast.Attribute) and isinstance(nd.value.value, ast.Name) and nd.value.value.id == sn:
            a = nd.value.attr
        elif isinstance(nd, (ast.For, ast.comprehension)):
            it = nd.iter
            if isinstance(it, ast.Call) and isinstance(it.func, ast.Name) and it.func.id in ("enumerate", "reversed", "sorted", "list", "iter") and it.args:
                it = it.args[0]
            if isinstance(it, ast.Attribute) and isinstance(it.value, ast.Name) and it.value.id == sn:
                a = it.attr
        elif isinstance(nd, ast.Call) and isinstance(nd.func, ast.Attribute) and isinstance(nd.func.value, ast.Name) and nd.func.value.id == sn:
            g = m
            while g is not None and g.cls is None:
                g = g.parent
            m2 = None
            if g is not None and g.cls is not None:
                for kk in [g.cls] + list(P.subclasses(g.cls)):
                    m2 = m2 or P.method(kk, nd.func.attr)
            if m2 is not None:
                for a2 in _self_derefs(P, m2, seen):
                    if not _assigned_before(m, sn, a2, nd):
                        out.add(a2)
        if a is not None and a not in tested and not _assigned_before(m, sn, a, nd):
            out.add(a)
    return out


_CFG_MEMO = {}


def _assigned_before(m, sn, attr, node):
    """Inside method m, is every path from the entry to `node` through an assignment `self.attr = <not None>`?"""
    from ..cfg import CFG

    if m.is_lambda:
        return False
    memo = _CFG_MEMO.get(id(m.node))
    if memo is None or memo[0] is not m.node:
        try:
            cfg = CFG(m.node.body)
        except Exception:
            return False
        holder = {}
        for n in cfg.nodes:
            if n.ast is None:
                continue
            for x in ast.walk(n.ast):
                holder.setdefault(id(x), n)
        if len(_CFG_MEMO) > 2000:
            _CFG_MEMO.clear()
        memo = (m.node, cfg, holder)
        _CFG_MEMO[id(m.node)] = memo
    _, cfg, holder = memo
    h = holder.get(id(node))
    if h is None:
        return False
    asg = []
    for n in cfg.nodes:
        if n.kind == "stmt" and isinstance(n.ast, ast.Assign) and not (isinstance(n.ast.value, ast.Constant) and n.ast.value.value is None):
            for t in n.ast.targets:
                for x in ast.walk(t):
                    if isinstance(x, ast.Attribute) and isinstance(x.ctx, ast.Store) and x.attr == attr and isinstance(x.value, ast.Name) and x.value.id == sn:
                        asg.append(n)
    if not asg or h in asg:
        return False
    return not cfg.exists_path(cfg.entry, h, avoid=asg)


def attr_order(ctx, R, reach, entries=None):
    """Typestate of instance attributes: an attribute that no constructor of the class assigns must be assigned, on every
    path of a public entry method, before the first call of a method (on self) that reads it."""
    P = ctx.P
    n = 0
    for c in sorted(P.classes.values(), key=lambda k: k.qual):
        inits = [k.methods["__init__"] for k in P.mro(c) if "__init__" in k.methods]
        init_attrs = set()
        none_attrs, notnone_attrs = set(), set()
        for im in inits:
            stack = [im]
            seen = set()
            while stack:
                m = stack.pop()
                if m.qual in seen or not m.params:
                    continue
                seen.add(m.qual)
                none_only = {}
                for stn in ast.walk(m.node):
                    if isinstance(stn, ast.Assign):
                        for t in stn.targets:
                            for y in ast.walk(t):
                                if isinstance(y, ast.Attribute) and isinstance(y.ctx, ast.Store) and isinstance(y.value, ast.Name) and y.value.id == m.params[0]:
                                    isnone = isinstance(stn.value, ast.Constant) and stn.value.value is None and not isinstance(t, ast.Tuple)
                                    none_only[y.attr] = none_only.get(y.attr, True) and isnone
                for a_, v_ in none_only.items():
                    if v_:
                        none_attrs.add(a_)
                    else:
                        notnone_attrs.add(a_)
                for nd in ast.walk(m.node):
                    if isinstance(nd, ast.Attribute) and isinstance(nd.value, ast.Name) and nd.value.id == m.params[0]:
                        if isinstance(nd.ctx, ast.Store):
                            init_attrs.add(nd.attr)
                        else:
                            m2 = P.method(c, nd.attr)
                            if m2 is not None:
                                stack.append(m2)
        called_on_self = set()
        for k in P.mro(c):
            for m in k.methods.values():
                if not m.params:
                    continue
                for nd in ast.walk(m.node):
                    if isinstance(nd, ast.Call) and isinstance(nd.func, ast.Attribute) and isinstance(nd.func.value, ast.Name) and nd.func.value.id == m.params[0]:
                        called_on_self.add(nd.func.attr)
        for name, m in sorted(c.methods.items()):
            if name.startswith("__") or name in called_on_self or m.qual not in reach or not m.params:
                continue
            if entries is not None and m.qual not in entries:
                continue
            cfg = ctx.cfg(m)
            sn = m.params[0]
            # definite assignment of self attributes along the CFG (forward must-analysis)
            order = list(cfg.nodes)
            IN = {x: None for x in order}
            IN[cfg.entry] = frozenset()
            changed = True

            def gen(x):
                out = set()
                if x.ast is not None and x.kind in ("stmt", "forassign", "with"):
                    tg = []
                    if isinstance(x.ast, ast.Assign):
                        tg = x.ast.targets
                    elif isinstance(x.ast, (ast.AugAssign, ast.AnnAssign)):
                        tg = [x.ast.target]
                    for t in tg:
                        for y in ast.walk(t):
                            if isinstance(y, ast.Attribute) and isinstance(y.ctx, ast.Store) and isinstance(y.value, ast.Name) and y.value.id == sn:
                                out.add(y.attr)
                return out

            while changed:
                changed = False
                for x in order:
                    if x is cfg.entry:
                        cur = frozenset()
                    else:
                        ps = [IN[p_] | gen(p_) for p_ in cfg.pred[x] if IN[p_] is not None]
                        if not ps:
                            continue
                        cur = frozenset(set.intersection(*[set(p_) for p_ in ps]))
                    if IN[x] is None or cur != IN[x]:
                        IN[x] = cur
                        changed = True
            for x in order:
                if x.ast is None or IN[x] is None:
                    continue
                root = x.ast if x.kind in ("stmt", "test", "with") else (x.ast.iter if x.kind == "for" and hasattr(x.ast, "iter") else None)
                if root is None:
                    continue
                for k_ in ast.walk(root):
                    if isinstance(k_, ast.Call) and isinstance(k_.func, ast.Attribute) and isinstance(k_.func.value, ast.Name) and k_.func.value.id == sn:
                        m2 = None
                        for kk in [c] + list(P.subclasses(c)):
                            m2 = m2 or P.method(kk, k_.func.attr)
                        if m2 is None:
                            continue
                        n += 1
                        placeholders = none_attrs - notnone_attrs  # constructors only ever put None there
                        for a in sorted((_self_derefs(P, m2) & placeholders) - set(IN[x])):
                            R.bad("GEN.ATTR-ORDER", "%s|self.%s (None) before self.%s()" % (m.qual, a, k_.func.attr), where(m, k_), "`%s` dereferences self.%s, which the constructors of %s leave as None and %s has not assigned on every path before this call (TypeError: 'NoneType')" % (ntext(k_)[:50], a, c.name, m.name))
                        need = _self_reads(P, m2) - init_attrs - set(IN[x])
                        # attributes the callee itself assigns before reading are its own business
                        need -= {nd.attr for nd in ast.walk(m2.node) if isinstance(nd, ast.Attribute) and isinstance(nd.ctx, ast.Store)}
                        need = {a for a in need if any(a in {y.attr for y in ast.walk(mm.node) if isinstance(y, ast.Attribute) and isinstance(y.ctx, ast.Store)} for kk in P.mro(c) for mm in kk.methods.values())}
                        for a in sorted(need):
                            R.bad("GEN.ATTR-ORDER", "%s|self.%s before self.%s()" % (m.qual, a, k_.func.attr), where(m, k_), "`%s` runs while self.%s has not been assigned on every path: no constructor of %s sets it and %s assigns it only elsewhere (AttributeError)" % (ntext(k_)[:50], a, c.name, m.name))
    R.ok("GEN.ATTR-ORDER", "calls on self in entry methods examined: %d" % n, "", "", nontrivial=False)


def geomset(ctx, R):
    """After Renderer.layout every node carries numeric x, y, dx, dy (Node.__init__ leaves them None): the emitters format
    them with %i / arithmetic."""
    from . import emit

    P = ctx.P
    for backend in (emit.SVG, emit.TEX):
        for d in emit.DIRECTIONS:
            p = emit.pipe(ctx, backend, d, n=2)
            f = P.func("renderer.Renderer.layout")
            for node in p.nodes:
                if not isinstance(node, Opaque):
                    continue
                for a in ("x", "y", "dx", "dy"):
                    v = p.field(node, a)
                    ok = v is not None and as_num(v) is not None
                    R.check(ok, "C11.GEOMSET", "%s %s|%s.%s" % ("svg" if backend == emit.SVG else "tex", d, "node", a), where(f), "layout assigns a number", "after layout a node's %s is %s for direction %s: the emitters do arithmetic and %%i-formatting on it (TypeError)" % (a, show(v) if v is not None else "unset", d))


DATUM_REQUIRED = {"time"}


def datumkeys(ctx, R):
    """Constant keys read from a caller's datum dict: only `time` is required by the documented input; every other key
    is optional and its read must be guarded by a membership test on the same dict (or go through .get)."""
    P = ctx.P
    n = 0
    sites = []
    # default accessor lambdas stored in timeline.DEFAULT_OPTIONS
    mod = P.module("timeline")
    for asg in mod.global_assigns("DEFAULT_OPTIONS"):
        if isinstance(asg.value, ast.Dict):
            for k_, v_ in zip(asg.value.keys, asg.value.values):
                if isinstance(v_, ast.Lambda) and v_.args.args:
                    g = P.func_of_node.get(v_)
                    sites.append((g, v_.body, v_.args.args[0].arg))
                elif isinstance(v_, ast.Name) and ("timeline.%s" % v_.id) in P.funcs:
                    # a named accessor instead of a lambda
                    g = P.funcs["timeline.%s" % v_.id]
                    if g.params and not g.is_lambda:
                        for stn in g.node.body:
                            sites.append((g, stn, g.params[0]))
    f = P.func("timeline.Timeline.parse_items")
    for lp in ast.walk(f.node):
        if isinstance(lp, ast.For) and isinstance(lp.target, ast.Name) and isinstance(lp.iter, ast.Name) and lp.iter.id in f.params:
            for stn in lp.body:
                sites.append((f, stn, lp.target.id))
    from .c11 import _local_guards

    for g, root, dn in sites:
        for nd in ast.walk(root):
            if isinstance(nd, ast.Subscript) and isinstance(nd.ctx, ast.Load) and isinstance(nd.value, ast.Name) and nd.value.id == dn and isinstance(nd.slice, ast.Constant) and isinstance(nd.slice.value, str):
                k = nd.slice.value
                n += 1
                if k in DATUM_REQUIRED:
                    R.ok("C11.DATUMKEYS", "%s|%s[%r]" % (g.qual if g else "timeline", dn, k), where(g, nd) if g else "", "required key", nontrivial=False)
                    continue
                guarded = any(pol and isinstance(t_, ast.Compare) and len(t_.ops) == 1 and isinstance(t_.ops[0], ast.In) and isinstance(t_.left, ast.Constant) and t_.left.value == k and ntext(t_.comparators[0]) == dn for t_, pol in _local_guards(nd, root))
                if not guarded and g is not None and not g.is_lambda:
                    cfg = ctx.cfg(g)
                    holder = next((cn for cn in cfg.nodes if cn.ast is not None and any(x is nd for x in ast.walk(cn.ast))), None)
                    for t in cfg.nodes:
                        if holder is None or t.kind != "test" or not cfg.dominates(t, holder) or t is holder:
                            continue
                        lab = None
                        for s_ in cfg.succ[t]:
                            if s_ is holder or cfg.dominates(s_, holder):
                                lab = cfg.elabel.get((t, s_))
                        tt = t.ast
                        if lab is True and isinstance(tt, ast.Compare) and len(tt.ops) == 1 and isinstance(tt.ops[0], ast.In) and isinstance(tt.left, ast.Constant) and tt.left.value == k and ntext(tt.comparators[0]) == dn:
                            guarded = True
                R.check(guarded, "C11.DATUMKEYS", "%s|%s[%r]" % (g.qual if g else "timeline", dn, k), where(g, nd) if g else "", "optional key read under `%r in %s`" % (k, dn), "`%s` reads the optional key %r of a datum without a dominating `%r in %s` test: KeyError for data that omit it" % (ntext(nd), k, k, dn))
    R.check(n >= 2, "C11.DATUMKEYS.inventory", "datum key reads examined: %d" % n, "", "", "fewer datum key reads than expected", nontrivial=False)


def local_none(ctx, R, reach):
    """A local that is explicitly initialised to None is not dereferenced where it may still be None.  Known-not-None facts
    come from assignments of other values, tests on the local itself, and the *witness* idiom
    `w = E0; v = None; loop: ... v = x; w = i ...; if w != E0: v.attr` (w is only reassigned next to a non-None assignment
    of v, so `w != E0` implies v was assigned)."""
    from .c11 import _none_test, _deref_uses

    P = ctx.P
    n_sites = 0
    for q in sorted(reach):
        f = P.funcs.get(q)
        if f is None or f.is_lambda:
            continue
        def pairs(stn):
            """(name, value) pairs of an assignment statement: `a = x` and `a, b = x, y`."""
            out = []
            if isinstance(stn, ast.Assign):
                for t in stn.targets:
                    if isinstance(t, ast.Name):
                        out.append((t.id, stn.value))
                    elif isinstance(t, (ast.Tuple, ast.List)) and isinstance(stn.value, (ast.Tuple, ast.List)) and len(t.elts) == len(stn.value.elts) and all(isinstance(x, ast.Name) for x in t.elts):
                        out.extend((x.id, v_) for x, v_ in zip(t.elts, stn.value.elts))
                    else:
                        for x in ast.walk(t):
                            if isinstance(x, ast.Name) and isinstance(x.ctx, ast.Store):
                                out.append((x.id, None))
            return out

        def isnone(v_):
            return isinstance(v_, ast.Constant) and v_.value is None

        none_asg = {}
        for nd in walk_local(f.node):
            for nm, v_ in pairs(nd):
                if v_ is not None and isnone(v_):
                    none_asg.setdefault(nm, []).append(nd)
        names = {v for v in none_asg if v not in f.params}
        if not names:
            continue
        cfg = ctx.cfg(f)
        # witnesses: w -> (v, E0 text)
        witness = {}
        all_assigns = [x for x in walk_local(f.node) if isinstance(x, ast.Assign)]
        for v in names:
            if len(none_asg[v]) != 1:
                continue
            vnode = cfg.of_stmt.get(none_asg[v][0])
            for blk in ast.walk(f.node):
                for fld in ("body", "orelse"):
                    stmts = getattr(blk, fld, None)
                    if not isinstance(stmts, list):
                        continue
                    sets_v = [s_ for s_ in stmts if any(nm == v and v_ is not None and not isnone(v_) for nm, v_ in pairs(s_))]
                    if not sets_v:
                        continue
                    for s_ in stmts:
                        for w, wv in pairs(s_):
                            if w == v or wv is None:
                                continue
                            allw = [(x, wv2) for x in all_assigns for nm2, wv2 in pairs(x) if nm2 == w]
                            inits = [(x, wv2) for x, wv2 in allw if x not in stmts]
                            if len(inits) == 1 and len(allw) == 2 and vnode is not None and inits[0][1] is not None:
                                inode = cfg.of_stmt.get(inits[0][0])
                                snode = cfg.of_stmt.get(s_)
                                if inode is not None and snode is not None and cfg.dominates(inode, snode) and cfg.dominates(vnode, snode):
                                    witness[w] = (v, ntext(inits[0][1]))
        IN = {n: set(names) for n in cfg.nodes}
        IN[cfg.entry] = set(names)  # an unassigned local cannot be None (it would be unbound: GEN.DEFINED)

        def facts(t, lab):
            out = set()
            for nm, l in _none_test(t):
                if nm in names and l == lab:
                    out.add(nm)
            if isinstance(t, ast.Compare) and len(t.ops) == 1:
                # `w != E0` or, mirrored, `E0 != w`
                for wn, other in ((t.left, t.comparators[0]), (t.comparators[0], t.left)):
                    if isinstance(wn, ast.Name) and wn.id in witness:
                        v, e0 = witness[wn.id]
                        if ntext(other) == e0:
                            if (isinstance(t.ops[0], (ast.NotEq, ast.IsNot)) and lab is True) or (isinstance(t.ops[0], (ast.Eq, ast.Is)) and lab is False):
                                out.add(v)
            if isinstance(t, ast.BoolOp) and isinstance(t.op, ast.And) and lab is True:
                for x in t.values:
                    out |= facts(x, True)
            if isinstance(t, ast.BoolOp) and isinstance(t.op, ast.Or) and lab is False:
                for x in t.values:
                    out |= facts(x, False)
            if isinstance(t, ast.UnaryOp) and isinstance(t.op, ast.Not):
                out |= facts(t.operand, not lab)
            return out

        def edge_out(n, m):
            s_ = set(IN[n])
            a = n.ast
            if n.kind == "stmt" and isinstance(a, ast.Assign):
                before = set(s_)
                for nm, val in pairs(a):
                    if nm not in names:
                        continue
                    if val is not None and isnone(val):
                        s_.discard(nm)
                    elif isinstance(val, ast.Name) and val.id in names and val.id not in before:
                        s_.discard(nm)
                    else:
                        s_.add(nm)
            elif n.kind == "stmt" and isinstance(a, (ast.AugAssign, ast.AnnAssign)):
                for x in ast.walk(a.target):
                    if isinstance(x, ast.Name) and isinstance(x.ctx, ast.Store) and x.id in names:
                        s_.add(x.id)
            if n.kind in ("for", "forassign") and a is not None:
                tgt = getattr(a, "target", None)
                if tgt is not None:
                    for x in ast.walk(tgt):
                        if isinstance(x, ast.Name) and x.id in names:
                            s_.add(x.id)
            if n.kind == "test" and a is not None:
                s_ |= facts(a, cfg.elabel.get((n, m)))
            return s_

        changed = True
        while changed:
            changed = False
            for n in cfg.nodes:
                if n is cfg.entry:
                    continue
                ps = cfg.pred[n]
                new = set.intersection(*[edge_out(p_, n) for p_ in ps]) if ps else set(names)
                if new != IN[n]:
                    IN[n] = new
                    changed = True
        for n in cfg.nodes:
            a = n.ast
            if a is None:
                continue
            for v in sorted(names):
                if v in IN[n]:
                    continue
                roots = [a]
                if n.kind == "stmt" and isinstance(a, ast.Assign):
                    roots = [a.value] + [t for t in a.targets if not isinstance(t, ast.Name)]
                elif n.kind in ("for", "forassign"):
                    roots = [getattr(a, "iter", a)] if hasattr(a, "iter") else [a]
                for r in roots:
                    # within one test expression, short-circuit facts of earlier conjuncts
                    for node, desc in _deref_uses_with(r, v, facts):
                        n_sites += 1
                        R.bad("GEN.LOCALNONE", "%s|%s" % (q, ntext(node)[:50]), where(f, node), "%s while the local `%s` may still hold the None it was initialised with (no dominating test establishes that it was assigned): AttributeError / TypeError" % (desc, v))
    R.ok("GEN.LOCALNONE", "functions with None-initialised locals examined; unguarded dereferences: %d" % n_sites, "", "", nontrivial=False)


def _deref_uses_with(root, name, facts):
    """Dereferences of `name` in expression `root`, honouring short-circuit conjuncts that establish it (directly or
    through a witness) and conditional expressions."""
    out = []

    def visit(n, safe):
        if isinstance(n, (ast.FunctionDef, ast.AsyncFunctionDef, ast.Lambda, ast.ClassDef)):
            return
        if isinstance(n, ast.IfExp):
            visit(n.test, safe)
            visit(n.body, safe or name in facts(n.test, True))
            visit(n.orelse, safe or name in facts(n.test, False))
            return
        if isinstance(n, ast.BoolOp):
            s_ = safe
            for v in n.values:
                visit(v, s_)
                if isinstance(n.op, ast.And) and name in facts(v, True):
                    s_ = True
                if isinstance(n.op, ast.Or) and name in facts(v, False):
                    s_ = True
            return
        if not safe:
            if isinstance(n, (ast.Attribute, ast.Subscript)) and isinstance(n.value, ast.Name) and n.value.id == name and isinstance(n.ctx, ast.Load):
                out.append((n, "`%s` is evaluated" % ntext(n)[:50]))
            elif isinstance(n, ast.Call) and isinstance(n.func, ast.Name) and n.func.id == name:
                out.append((n, "`%s` is called" % ntext(n)[:50]))
        for c in ast.iter_child_nodes(n):
            visit(c, safe)

    visit(root, False)
    return out


def timekind(ctx, R):
    """Crash-only reading of the time normalisation: what the axis later reads through timeFn (the caller's datum) is a
    datetime for date and time inputs - a raw date/time there makes the time scale raise TypeError."""
    from . import c07
    from ..report import Reporter

    P = ctx.P
    if "c07.normalise.results" not in ctx._cache:
        c07.normalise(ctx, Reporter())
    res = ctx._cache.get("c07.normalise.results", {})
    f = P.func("timeline.Timeline.parse_items")
    for cname in ("date", "time"):
        got = res.get(cname)
        ok = got is not None and got[1] is not None and got[1] != "T" and got[1].startswith("datetime.datetime")
        R.check(ok, "C11.TIMEKIND", "%s|datum of class %s" % (f.qual, cname), where(f), "the datum the axis reads holds a datetime", "for a datum whose time is a %s the caller's dict (read by timeFn for the axis domain and the dot position) still holds %s after parse_items: the time scale subtracts datetimes and raises TypeError" % (cname, got[1] if got else None))


def crash_pack(reach_fn, entries=None):
    """Rule running all source-level crash lints over reach_fn(ctx); the attribute typestate is checked for the
    entry methods named in `entries` (default: methods called `export`)."""

    def run(ctx, R):
        reach = reach_fn(ctx)
        ent = entries if entries is not None else {q for q in reach if q.endswith(".export")}
        typed_attrs(ctx, R, reach)
        superinit(ctx, R, reach)
        strarith(ctx, R, reach)
        builtin_args(ctx, R, reach)
        dictkey(ctx, R, reach)
        attr_order(ctx, R, reach, ent)
        local_none(ctx, R, reach)

    run.rule_id = "GEN.CRASH"
    run.__name__ = "crash_pack"
    return run
