"""C15 — the time scale is affine in elapsed time and invertible."""
import ast

from .util import *
from . import state as statepack
from .c12 import affine, endpoint_exact, rescale_rule, domain_fresh, reports, copy_fresh, shared_list
from .c18 import tzapi_time

EXPLANATION = (
    "Unit typing of TimeScale by value numbering with the inner LinearScale and the two conversions kept opaque "
    "(C15.UNITS): __call__(x) == linear(dt2milli(x)); invert(y) == milli2dt(linear.invert(y)); domain(xs) hands "
    "[dt2milli(x) for every x] to the inner scale; domain() == [milli2dt(m) for every m of the inner domain]; no path "
    "mixes datetimes, milliseconds and pixels.  C15.INVERSE: in each module that defines them dt2milli(x) is 1000 * "
    "(x - E).total_seconds() and milli2dt(m) is E + timedelta(milliseconds=m) for one module constant E that is a "
    "midnight, so the pair is mutually inverse and affine in elapsed time.  C15.DELEGATE: range/clamp/interpolate/"
    "copy delegate to the inner LinearScale, so the affine-map rules of C12 (AFFINE, INVERT, ENDPOINT-EXACT, RESCALE, "
    "DOMAIN-FRESH, REPORTS — re-run here) transfer.  C15.TZ = C18.TZAPI over scale.py and d3_time.py.  The 1 ms "
    "round-trip bound is numeric and not decided."
    '  The default inner scale is built unclamped (C15.DELEGATE).'
    '  C15.EPOCH: the constant the millisecond conversions are anchored at is datetime(1970, 1, 1); C12.COPY-FRESH / C12.SHARED-LIST are re-run because TimeScale.copy copies the inner linear scale.'
)
ASSUMPTIONS = ["naive datetime subtraction / timedelta arithmetic is exact to the microsecond"]

TS = "scale.TimeScale"


def _ts_eval(ctx, hook=None):
    P = ctx.P
    ev = new_eval(P, on_call=hook, opaque=["scale.dt2milli", "scale.milli2dt"], inline_filter=lambda fn: not fn.qual.startswith("scale.LinearScale."))
    st = ev.new_state(module="scale")
    s = Opaque("self", cls=P.cls(TS), kind="obj")
    st.heap[("self", "_linear")] = Opaque("LIN", cls=P.cls("scale.LinearScale"), kind="obj")
    st.heap[("self", "_methods")] = Opaque("METHODS")
    st.heap[("self", "_format")] = Opaque("FORMAT")
    return ev, st, s


@rule("C15.UNITS")
def units(ctx, R):
    P = ctx.P
    ev, st, s = _ts_eval(ctx)
    f = P.func(TS + ".__call__")
    R.saw(f)
    r = ev.call_closure(Closure(f, None, selfv=s), [Opaque("x")], {}, st)
    R.check(key(r) == "LIN.__call__(scale.dt2milli(x))" or key(r) == "LIN.scale(scale.dt2milli(x))", "C15.UNITS", f.qual, where(f), "scale(x) == linear(dt2milli(x))", "TimeScale.__call__(x) is %s: the instant must be converted to elapsed milliseconds exactly once before the linear map" % show(r))
    g = P.func(TS + ".invert")
    r = ev.call_closure(Closure(g, None, selfv=s), [Opaque("y")], {}, st)
    R.check(key(r) == "scale.milli2dt(LIN.invert(y))", "C15.UNITS", g.qual, where(g), "invert(y) == milli2dt(linear.invert(y))", "TimeScale.invert(y) is %s" % show(r))
    h = P.func(TS + ".domain")
    seen = []

    def hook(fv, args, kwargs, node, st_):
        if isinstance(fv, Closure) and fv.func.qual == "scale.LinearScale.domain":
            seen.append(list(args))
            if not args:
                return Opaque("LINDOM", kind="seq")
            return fv.selfv
        return None

    ev2, st2, s2 = _ts_eval(ctx, hook)
    r = ev2.call_closure(Closure(h, None, selfv=s2), [Opaque("XS", kind="seq")], {}, st2)
    arg = seen[0][0] if seen and seen[0] else None
    ak = key(arg) if arg is not None else None
    ok = ak in ("[scale.dt2milli(elem(XS)) for elem(XS) in XS]", "list([scale.dt2milli(elem(XS)) for elem(XS) in XS])") and key(r) == "self"
    R.check(ok, "C15.UNITS", h.qual + "(xs)", where(h), "domain(xs) hands dt2milli of every element to the inner scale", "domain(xs) hands %s to the inner linear scale (returns %s)" % (ak, show(r)))
    seen.clear()
    r = ev2.call_closure(Closure(h, None, selfv=s2), [], {}, st2)
    R.check(key(r) in ("[scale.milli2dt(elem(LINDOM)) for elem(LINDOM) in LINDOM]",), "C15.UNITS", h.qual + "()", where(h), "domain() reports milli2dt of every inner end point", "domain() returns %s" % show(r))


@rule("C15.EPOCH")
def epoch_rule(ctx, R):
    """'Milliseconds since the epoch': the instant the conversions are anchored at is 1970-01-01 00:00 (naive), the same one
    in both directions, in every module that defines such conversions."""
    P = ctx.P
    n = 0
    for mn, m in sorted(P.modules.items()):
        # module-level datetime constants used by a to-milliseconds / from-milliseconds conversion of that module
        for a in m.tree.body:
            if not (isinstance(a, ast.Assign) and len(a.targets) == 1 and isinstance(a.targets[0], ast.Name) and isinstance(a.value, ast.Call) and ntext(a.value.func).split(".")[-1] == "datetime"):
                continue
            name = a.targets[0].id
            users = [f for f in P.funcs.values() if f.module is m and any(isinstance(x, ast.Name) and x.id == name for x in ast.walk(f.node)) and any(isinstance(x, ast.Attribute) and x.attr in ("total_seconds",) or isinstance(x, ast.Call) and ntext(x.func).split(".")[-1] == "timedelta" for x in ast.walk(f.node))]
            if not users:
                continue
            n += 1
            ev = new_eval(P)
            v = ev.resolve_global(mn, name)
            R.check(key(v) == "datetime.datetime(1970, 1, 1)", "C15.EPOCH", "%s.%s" % (mn, name), mwhere(m, a), "the conversions count from 1970-01-01 00:00", "%s.%s is %s: 'milliseconds since the epoch' are counted from another instant (the two directions, the calendar floors and a linear scale on epoch milliseconds no longer agree)" % (mn, name, show(v)))
    R.check(n >= 1, "C15.EPOCH.inventory", "epoch constants examined: %d" % n, "", "", "no epoch constant found next to the millisecond conversions", nontrivial=False)


@rule("C15.INVERSE")
def inverse(ctx, R):
    P = ctx.P
    for mn in ("scale", "d3_time"):
        mod = P.module(mn)
        ev = new_eval(P)
        d = ev.resolve_global(mn, "dt2milli")
        m = ev.resolve_global(mn, "milli2dt")
        if not isinstance(d, Closure) or not isinstance(m, Closure):
            R.bad("C15.INVERSE", "%s|pair" % mn, mod.path, "module %s does not define the dt2milli/milli2dt pair as functions" % mn)
            continue
        R.saw(d.func, m.func)
        st = ev.new_state(module=mn)
        rd = ev.call(d, [Opaque("x", kind="obj")], {}, st)
        rm = ev.call(m, [Num.atom("m")], {}, st)
        nd, nm = as_num(rd), as_num(rm)
        # dt2milli: 1000 * (x - E).total_seconds()
        ok_d = False
        E = None
        if nd is not None and nd.is_poly() and len(nd.n.t) == 1:
            (mono, c), = nd.n.t.items()
            c = c / nd.d.const_value()
            if len(mono) == 1 and mono[0][1] == 1 and isinstance(mono[0][0], str) and mono[0][0].endswith(".total_seconds()") and c == 1000:
                inner = mono[0][0][: -len(".total_seconds()")]
                # inner is key of (x - E): "-E + x"
                if inner.endswith(" + x") and inner.startswith("-"):
                    E = inner[1:-4]
                    ok_d = True
        R.check(ok_d, "C15.INVERSE", "%s.dt2milli" % mn, where(d.func), "dt2milli(x) == 1000 * (x - E).total_seconds()", "%s.dt2milli(x) is %s: not 1000 x the elapsed seconds since a fixed epoch (sign/truncation tricks break monotonicity before the epoch)" % (mn, show(rd, 200)))
        ok_m = False
        if nm is not None and E is not None:
            for form in ("datetime.timedelta(milliseconds=m)", "datetime.timedelta(seconds=1/1000*m)", "datetime.timedelta(microseconds=1000*m)"):
                if nm.equals(Num.atom(E) + Num.atom(form)):
                    ok_m = True
        R.check(ok_m, "C15.INVERSE", "%s.milli2dt" % mn, where(m.func), "milli2dt(m) == E + timedelta(milliseconds=m) with the same E", "%s.milli2dt(m) is %s: not the inverse of dt2milli (E + timedelta(milliseconds=m) with the same epoch %s)" % (mn, show(rm, 200), E))
        # the epoch is a midnight constant
        if E is not None:
            okE = False
            import re
            mm = re.match(r"^datetime\.datetime\((\d+), (\d+), (\d+)(?:, 0)*\)$", E)
            okE = bool(mm)
            R.check(okE, "C15.INVERSE", "%s epoch" % mn, mod.path, "the epoch %s is a fixed midnight" % E, "the epoch %s is not a fixed naive midnight: epoch-form floors would not fall on wall-clock boundaries" % E)


@rule("C15.DELEGATE")
def delegate(ctx, R):
    P = ctx.P
    for meth in ("range", "clamp", "interpolate"):
        f = P.func("%s.%s" % (TS, meth))
        R.saw(f)
        seen = []

        def hook(fv, args, kwargs, node, st_, meth=meth):
            if isinstance(fv, Closure) and fv.func.qual == "scale.LinearScale.%s" % meth:
                seen.append([key(a) for a in args])
                return Opaque("LINRES") if not args else fv.selfv
            return None

        ev, st, s = _ts_eval(ctx, hook)
        r = ev.call_closure(Closure(f, None, selfv=s), [], {}, st)
        R.check(seen == [[]] and key(r) == "LINRES", "C15.DELEGATE", f.qual + "()", where(f), "%s() reports the inner scale's" % meth, "%s() returns %s (inner calls %s)" % (meth, show(r), seen))
        seen.clear()
        ev.assume("cmp(is, V, None)", False)
        r = ev.call_closure(Closure(f, None, selfv=s), [Opaque("V")], {}, st)
        R.check(seen == [["V"]] and key(r) == "self", "C15.DELEGATE", f.qual + "(v)", where(f), "%s(v) sets the inner scale's and returns the time scale" % meth, "%s(v) -> %s (inner calls %s)" % (meth, show(r), seen))
    # constructor wiring: default inner scale is a fresh LinearScale
    f = P.func(TS + ".__init__")
    ev = new_eval(P, inline_filter=lambda fn: not fn.qual.startswith("scale.LinearScale.") or fn.qual == "scale.LinearScale.__init__")
    st = ev.new_state(module="scale")
    o = ev.instantiate(P.cls(TS), [], {}, st)
    lin = st.heap.get((o.text, "_linear"))
    R.check(isinstance(lin, Opaque) and lin.kind == "new" and lin.cls is P.cls("scale.LinearScale"), "C15.DELEGATE", f.qual, where(f), "a new TimeScale owns a new LinearScale", "TimeScale() gets inner scale %s: not a fresh LinearScale per instance" % show(lin))
    if isinstance(lin, Opaque):
        cl = st.heap.get((lin.text, "_clamp"))
        R.check(cl is not None and key(cl) == "False", "C15.DELEGATE", f.qual + "|inner clamp", where(f), "the default inner scale does not clamp", "TimeScale() builds its inner linear scale with clamp=%s: instants outside the domain are pinned to the range ends, so the map is neither proportional nor strictly increasing there" % (show(cl) if cl is not None else "unset"))
    for p, d in f.defaults.items():
        R.check(isinstance(d, ast.Constant), "C15.DELEGATE", "%s default %s" % (f.qual, p), where(f), "no shared mutable default", "TimeScale.__init__ default `%s=%s` is evaluated once and shared by every instance" % (p, ntext(d)))


@rule("C15.STATE")
def state_rule(ctx, R):
    statepack.no_hidden_state(ctx, R, "C15.STATE", modules=["scale"], classes={
        "scale.LinearScale": {"_domain", "_range", "_clamp", "_interpolate", "_output", "_input"},
        "scale.TimeScale": {"_linear", "_methods", "_format"},
    })


# TimeScale.copy copies the inner linear scale with LinearScale.copy: a copy that maps differently (or shares a list) breaks the time scale too
RULES = [units, epoch_rule, inverse, delegate, affine, endpoint_exact, rescale_rule, domain_fresh, copy_fresh, shared_list, reports, tzapi_time, state_rule]
