"""C10 — a timeline's export depends only on its own data and options."""
import ast

from .util import *
from . import state as statepack
from . import emit
from .emit import SVG, TEX
from .c06 import nondet_scan
from .c11 import ROOTS, LATEX_ONLY
from ..effects import Effects
from ..sym import OverrideV, Phi

EXPLANATION = (
    "C10.NOGLOBALMUT: Timeline construction (Timeline.__init__ -> parse_items/equal_heights/rotate_items/init_axis) "
    "and export are value-numbered flow-sensitively with a symbolic caller options dict; objects created by "
    "module-level initialisers (DEFAULT_OPTIONS, its nested dicts, the default TimeScale and its inner LinearScale) "
    "are tracked by identity through shallow copies, dict.update with an unknown dict (each key: caller's value or the "
    "old one) and `x is DEFAULT` tests (branch refinement); every store, mutating container call, or call of a method "
    "whose effect summary mutates its receiver is reported when its target may be such an object.  Caller-supplied "
    "objects may be mutated (the property allows sharing what the caller passes).  C10.STATE / NOGLOBALWRITE: no "
    "function of the package mutates a module-level object, rebinds a global, keeps state on functions, class "
    "attributes or mutable defaults, and the Timeline classes keep only {options, direction, items, nodes, renderer} "
    "(so a second export sees the same state: C10.EXPORT-RO with the effect summary of export).  C10.NONDET: no "
    "random/clock/environment/identity input on the export call graph (the one wall-clock read, date.today(), is "
    "recorded once, under C18 as K2)."
    '  Also reported: a field bound to a module-level object itself and later mutated through the field; `othermodule.NAME = ...` at run time; on the export call graph any store or mutating call on an object reached from self.items / self.options; functions that run only at import time are part of module initialisation.'
)
ASSUMPTIONS = ["caller-supplied scale / option objects are the caller's to share"]

TLATTRS = {"options", "direction", "items", "nodes", "renderer"}


def _may_be_gowned(ev, v, depth=0):
    """Owner path if value v may be an object owned by a module-level binding."""
    if depth > 6:
        return None
    if isinstance(v, Opaque):
        if v.text in ev.gowned:
            return ev.gowner.get(v.text, v.text)
        return None
    if isinstance(v, (Seq, DictV)):
        if (v.ident or "").startswith("G:"):
            return v.ident
        return None
    if isinstance(v, OverrideV):
        return _may_be_gowned(ev, v.old, depth + 1)
    if isinstance(v, Phi):
        return _may_be_gowned(ev, v.a, depth + 1) or _may_be_gowned(ev, v.b, depth + 1)
    return None


def _flat(evs):
    for e in evs:
        if e[0] == "in-branch":
            yield from _flat([e[3]])
        elif e[0] == "loop":
            yield from _flat(e[3])
        elif e[0] == "while":
            yield from _flat(e[2])
        else:
            yield e


@rule("C10.NOGLOBALMUT")
def noglobalmut(ctx, R):
    P = ctx.P
    eff = ctx.get("effects", lambda: Effects(P, ctx.cg.resolver()))
    n_events = 0
    for backend, mode in ((SVG, "svg"), (TEX, "tex")):
        cls = P.cls(backend)
        f = P.method(cls, "__init__")
        R.saw(f, P.func("timeline.Timeline.__init__"), P.func("timeline.Timeline.init_axis"))
        calls = []

        def hook(fv, args, kwargs, node, st_):
            # method calls on receivers that may be module-owned: does the callee mutate its receiver?
            if isinstance(fv, Closure) and fv.selfv is not None and not isinstance(fv.selfv, ClassRef):
                own = _may_be_gowned(evr[0], fv.selfv)
                if own and fv.func.params and eff.mutates(fv.func, fv.func.params[0]):
                    calls.append((own, fv.func.qual, node))
                    return Opaque("%s.%s()" % (key(fv.selfv), fv.func.name))
            if isinstance(fv, ClassRef) and fv.cls.qual == "timeline.Item":
                return Opaque("ITEM", kind="obj")
            return None

        evr = [None]
        ev = new_eval(P, on_call=hook, inline_filter=lambda fn: fn.module.name == "timeline" and fn.qual not in LATEX_ONLY)
        evr[0] = ev
        ev.resolve_global("timeline", "DEFAULT_OPTIONS")
        st = ev.new_state(module="timeline")
        ev.assume("truth(OPTS)", True)
        ev.assume("cmp(is, OPTS, None)", False)
        data = Opaque("DATA", kind="seq")
        ev.nonempty.add("DATA")
        opts = Opaque("OPTS", kind="obj")
        o = ev.instantiate(cls, [data, opts], {}, st)
        evs = list(_flat(st.events))
        n_events += len(evs)
        tag = "construct " + ("svg" if backend == SVG else "tex")
        bad = []
        for e in evs:
            if e[0] == "mutate" and (e[1] or "").startswith("G:"):
                bad.append(("`%s` mutates %s" % (ntext(e[4])[:70] if e[4] is not None else e[2], e[1]), e[4]))
            elif e[0] == "setattr":
                own = ev.gowner.get(e[1]) if e[1] in ev.gowned else None
                if own:
                    bad.append(("`%s` stores into %s" % (ntext(e[4])[:70] if e[4] is not None else e[2], own), e[4]))
            elif e[0] == "setitem-maybe":
                own = _may_be_gowned(ev, e[1])
                if own:
                    bad.append(("`%s` stores into an object that is %s unless the caller supplied one" % (ntext(e[4])[:70] if e[4] is not None else "store", own), e[4]))
            elif e[0] == "call-maybe":
                own = _may_be_gowned(ev, e[1])
                if own and (e[2] in ("update", "append", "extend", "pop", "clear", "setdefault", "sort", "insert", "remove") or True):
                    # method of a module-owned object reached through the merged options
                    oldv = e[1].old
                    mut = e[2] in ("update", "append", "extend", "pop", "clear", "setdefault", "sort", "insert", "remove", "reverse", "popitem")
                    if isinstance(oldv, Opaque) and oldv.cls is not None:
                        m = P.method(oldv.cls, e[2])
                        mut = m is not None and bool(m.params) and eff.mutates(m, m.params[0])
                    if mut:
                        bad.append(("`%s` calls .%s() on an object that is %s unless the caller supplied one" % (ntext(e[4])[:70] if e[4] is not None else e[2], e[2], own), e[4]))
        for own, q, node in calls:
            bad.append(("`%s` calls %s, which mutates its receiver, on %s" % (ntext(node)[:70] if node is not None else q, q, own), node))
        seen = set()
        for msg, node in bad:
            if msg in seen:
                continue
            seen.add(msg)
            fn = P.enclosing_func(node) if node is not None else f
            R.bad("C10.NOGLOBALMUT", "%s|%s" % (tag, msg[:110]), where(fn or f, node), msg + ": every timeline that relies on the default shares this object, so constructing or exporting one timeline changes another")
        if not bad:
            R.ok("C10.NOGLOBALMUT", tag, where(f), "no store / mutating call / receiver-mutating method reaches an object owned by a module-level binding (%d events examined)" % len(evs))
        # what the instance ends up holding: no module-owned mutable object among the values that later code mutates
        so = st.heap.get((o.text, "options"))
        for p_, leaf in leaves(so):
            if isinstance(leaf, DictV):
                for k_ in ("scale", "labella"):
                    v = leaf.items.get(k_)
                    own = _may_be_gowned(ev, v) if v is not None else None
                    R.check(own is None, "C10.NOGLOBALMUT", "%s|options[%r] is private" % (tag, k_), where(f), "options[%r] is the caller's object or a fresh one" % k_, "after construction self.options[%r] may still be %s, which init_axis / the direction write then mutate for every timeline" % (k_, own))
    # export: the pipes of emit evaluate compute + add_* ; examine their events for module-owned targets
    for backend in (SVG, TEX):
        p = emit.pipe(ctx, backend, "right", n=2)
        evs = list(_flat(p.st.events))
        for meth in ("add_main", "add_timeline", "add_axis", "add_links", "add_labels", "add_dots"):
            (p.run_svg if backend == SVG else p.run_tex)(meth)
        evs = list(_flat(p.st.events))
        n_events += len(evs)
        bad = [e for e in evs if e[0] == "mutate" and (e[1] or "").startswith("G:")]
        for e in bad:
            fn = P.enclosing_func(e[4]) if e[4] is not None else None
            R.bad("C10.NOGLOBALMUT", "export %s|%s" % (backend, e[1]), where(fn, e[4]) if fn else "", "`%s` mutates module-level object %s during export" % (ntext(e[4])[:70] if e[4] is not None else e[2], e[1]))
        if not bad:
            R.ok("C10.NOGLOBALMUT", "export %s" % backend, "", "no module-owned object is mutated by compute()/add_* (%d events)" % len(evs))
    R.check(n_events >= 50, "C10.NOGLOBALMUT.inventory", "heap/effect events examined: %d" % n_events, "", "", "too few events: the symbolic run of construction/export did not execute", nontrivial=False)


@rule("C10.EXPORT-RO")
def export_ro(ctx, R):
    P = ctx.P
    # instance state of the timeline classes
    statepack.no_hidden_state(ctx, R, "C10.EXPORT-RO", modules=[], classes={"timeline.Timeline": TLATTRS})
    # attributes assigned on the export call graph: nodes, renderer only
    cg = ctx.cg
    for backend in (SVG, TEX):
        f = P.func(backend + ".export")
        R.saw(f)
        reach = cg.reachable([f.qual], stop=LATEX_ONLY)
        for q in sorted(reach):
            g = P.funcs.get(q)
            if g is None or g.cls is None or not g.cls.qual.startswith("timeline.Timeline"):
                continue
            selfn = g.params[0] if g.params else None
            for nd in walk_local(g.node):
                if isinstance(nd, ast.Attribute) and isinstance(nd.ctx, ast.Store) and isinstance(nd.value, ast.Name) and nd.value.id == selfn:
                    R.check(nd.attr in ("nodes", "renderer"), "C10.EXPORT-RO", "%s|self.%s" % (q, nd.attr), where(g, nd), "export recomputes nodes/renderer only", "`%s` assigns self.%s during export: a second export starts from different state" % (q, nd.attr))
                # stores into self.options / self.items during export
                if isinstance(nd, ast.Subscript) and isinstance(nd.ctx, (ast.Store, ast.Del)):
                    base = ntext(nd.value)
                    if base.startswith("%s.options" % selfn) or base.startswith("%s.items" % selfn):
                        R.bad("C10.EXPORT-RO", "%s|%s" % (q, ntext(nd)[:40]), where(g, nd), "`%s` writes into the timeline's options/items during export: repeated exports differ" % ntext(nd)[:60])
    # persistent state reached through aliases: `for item in self.items: item.x = ...` on the export call graph
    for backend in (SVG, TEX):
        f = P.func(backend + ".export")
        reach = cg.reachable([f.qual], stop=LATEX_ONLY)
        for q in sorted(reach):
            g = P.funcs.get(q)
            if g is None or g.cls is None or not g.cls.qual.startswith("timeline.Timeline") or not g.params:
                continue
            selfn = g.params[0]
            persistent = {}
            for nd in walk_local(g.node):
                src = None
                tgt = None
                if isinstance(nd, ast.For):
                    src, tgt = nd.iter, nd.target
                elif isinstance(nd, ast.Assign) and len(nd.targets) == 1:
                    src, tgt = nd.value, nd.targets[0]
                if src is not None and isinstance(src, (ast.Attribute, ast.Subscript, ast.Name)):
                    st_ = ntext(src)
                    if st_.startswith("%s.items" % selfn) or st_.startswith("%s.options" % selfn):
                        for x in ast.walk(tgt):
                            if isinstance(x, ast.Name):
                                persistent[x.id] = st_
            for nd in walk_local(g.node):
                base = None
                if isinstance(nd, ast.Attribute) and isinstance(nd.ctx, (ast.Store, ast.Del)):
                    base = nd.value
                elif isinstance(nd, ast.Subscript) and isinstance(nd.ctx, (ast.Store, ast.Del)):
                    base = nd.value
                elif isinstance(nd, ast.Call) and isinstance(nd.func, ast.Attribute) and nd.func.attr in ("append", "extend", "update", "pop", "clear", "sort", "insert", "remove", "setdefault", "reverse"):
                    base = nd.func.value
                if base is None:
                    continue
                r = base
                while isinstance(r, (ast.Attribute, ast.Subscript)):
                    r = r.value
                if isinstance(r, ast.Name) and r.id in persistent:
                    R.bad("C10.EXPORT-RO", "%s|%s" % (q, ntext(nd)[:40]), where(g, nd), "`%s` changes an object reached from %s during export: the next export of the same timeline starts from different state" % (ntext(nd)[:60], persistent[r.id]))
    # nodes are rebuilt from the items on every export
    g = P.func("timeline.Timeline.get_nodes")
    news = [c for c in calls_in(g.node) if ntext(c.func) == "Node"]
    R.check(len(news) == 1, "C10.EXPORT-RO", g.qual + "|fresh nodes", where(g), "every export lays out freshly built nodes", "get_nodes does not build a fresh Node per item")


@rule("C10.NOGLOBALWRITE")
def noglobalwrite(ctx, R):
    statepack.no_hidden_state(ctx, R, "C10.NOGLOBALWRITE", modules=sorted(ctx.P.modules), classes={})


@rule("C10.NONDET")
def nondet(ctx, R):
    P = ctx.P
    roots = [r for r in ROOTS if r in P.funcs]

    class _R:
        pass

    # date.today() in parse_items is the known finding K2, reported under C18 only
    class Filter:
        def __init__(self, R):
            self.R = R

        def bad(self, rule, key, where="", detail="", nontrivial=True):
            if key.endswith("|datetime.date.today") and key.startswith("timeline."):
                self.R.ok(rule, key, where, "wall-clock read recorded as known finding K2 under C18", nontrivial=False)
            else:
                self.R.bad(rule, key, where, detail, nontrivial)

        def ok(self, *a, **k):
            self.R.ok(*a, **k)

    nondet_scan(ctx, Filter(R), "C10.NONDET", roots, skip=LATEX_ONLY)


def _optsmerge(ctx, R):
    from .c11 import opts_merge
    return opts_merge(ctx, R)


_optsmerge.rule_id = "GEN.OPTS-MERGE"


def _optflow(ctx, R):
    from .c04 import optflow
    return optflow(ctx, R)


_optflow.rule_id = "C04.OPTFLOW"

RULES = [noglobalmut, export_ro, noglobalwrite, nondet, _optsmerge, _optflow]
