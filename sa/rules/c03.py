"""C03 — position bounds are honoured whenever the items fit; otherwise excess spills."""
import ast

from .util import *
from . import qp
from .c01 import writeback, solve_rule, chain_rule, gap_rule
from .c02 import weights

EXPLANATION = (
    "For each of the four present/absent combinations of minPos/maxPos, removeOverlap's value-numbered model must "
    "contain: iff minPos is not None one wall variable (no node) with desired position options['minPos'] constrained "
    "wall -> FIRST sorted node variable with gap width(FIRST)/2; iff maxPos is not None one wall with desired "
    "position options['maxPos'] constrained LAST sorted node variable -> wall with gap width(LAST)/2, where LAST is "
    "the last *node* variable even when the left wall was prepended (C03.WALLS); walls are movable Variables with "
    "weight >= 1e9, item gaps are hard Constraints and nothing clamps positions after the solve (C03.SOFTWALL = "
    "C02.WEIGHTS + C01.WRITEBACK + C01.CHAIN); removeOverlap returns before solving only for an empty layer "
    "(C03.EARLY); Force.set_options derives layerWidth = maxPos - minPos iff both are not None, else None, takes "
    "every supplied option including None values, and hands the distributor its own options (C03.LAYERWIDTH); the "
    "projection in Force.compute keeps minPos/maxPos (C03.PASSED, in C01.ALLLAYERS).  The numeric 'within 0.5' is "
    "not decided."
    '  Also part of this check: both walls are anchored on the ends of the sequence the chain orders; bound presence is tested with `is None`; the sort and the documented spacings (C01.SORT, C01.OPTS), solver feasibility (VPSC.FEAS) and stub chains (C04.STUBCHAIN).'
)
ASSUMPTIONS = []


@rule("C03.WALLS")
def walls(ctx, R):
    P = ctx.P
    f = P.func(qp.RO)
    R.saw(f)
    for cfgk, M in sorted(qp.models(ctx).items()):
        min_none, max_none = cfgk
        tag = "minPos %s, maxPos %s" % ("absent" if min_none else "present", "absent" if max_none else "present")
        for hint, msg, node in M.problems:
            if hint == "C03.WALLS":
                R.bad("C03.WALLS", tag + "|" + msg[:50], where(f, node), msg)
        lw = [w for w in M.walls if w["wall_side"] == "left"]
        rw = [w for w in M.walls if w["wall_side"] == "right"]
        R.check(len(lw) == (0 if min_none else 1), "C03.WALLS", tag + "|left wall count", where(f), "%d left wall" % len(lw), "with minPos %s there are %d left walls (expected %d)" % ("None" if min_none else "set", len(lw), 0 if min_none else 1))
        R.check(len(rw) == (0 if max_none else 1), "C03.WALLS", tag + "|right wall count", where(f), "%d right wall" % len(rw), "with maxPos %s there are %d right walls (expected %d)" % ("None" if max_none else "set", len(rw), 0 if max_none else 1))
        for w in lw:
            okd = key(w["desired"]).startswith("override(options['minPos'],") or key(w["desired"]) in ("options['minPos']",)
            okc = key(w["right"]) == "FIRST" and key(w["left"]) == key(w["wall"])
            g = as_num(w["gap"])
            okg = g is not None and any(g.equals(A(a) / C(2)) for a in ("FIRST.node.width", "NFIRST.width"))
            R.check(okd and okc and okg, "C03.WALLS", tag + "|left wall", where(f, w["node"]), "leftWall(minPos) -> first node variable, gap width(first)/2",
                    "left wall: desired=%s, constraint %s -> %s, gap %s; expected wall at options['minPos'] -> FIRST with gap width(FIRST)/2" % (show(w["desired"]), key(w["left"]), key(w["right"]), show(w["gap"])))
            R.check(key(w["equality"]) in ("False", "None"), "C03.WALLS", tag + "|left wall inequality", where(f, w["node"]), "inequality", "left wall constraint is an equality")
        for w in rw:
            okd = key(w["desired"]).startswith("override(options['maxPos'],") or key(w["desired"]) in ("options['maxPos']",)
            okc = key(w["left"]) == "LAST" and key(w["right"]) == key(w["wall"])
            g = as_num(w["gap"])
            okg = g is not None and any(g.equals(A(a) / C(2)) for a in ("LAST.node.width", "NLAST.width"))
            R.check(okd and okc and okg, "C03.WALLS", tag + "|right wall", where(f, w["node"]), "last node variable -> rightWall(maxPos), gap width(last)/2",
                    "right wall: desired=%s, constraint %s -> %s, gap %s; expected LAST -> wall at options['maxPos'] with gap width(LAST)/2 (LAST = last node variable)" % (show(w["desired"]), key(w["left"]), key(w["right"]), show(w["gap"])))
            R.check(key(w["equality"]) in ("False", "None"), "C03.WALLS", tag + "|right wall inequality", where(f, w["node"]), "inequality", "right wall constraint is an equality")
    # a bound of 0 is a bound: with both bounds present and falsy the walls are still there (guards test `is None`, not truthiness)
    Z = qp.zero_model(ctx)
    for side, nm in (("left", "minPos"), ("right", "maxPos")):
        ws = [w for w in Z.walls if w["wall_side"] == side]
        R.check(len(ws) == 1, "C03.WALLS", "%s = 0|%s wall" % (nm, side), where(f, ws[0]["node"]) if ws else where(f), "a bound of 0 still gets its wall",
                "with %s = 0 there are %d %s walls (expected 1): the bound's presence is decided by its truthiness, a bound of 0 is ignored" % (nm, len(ws), side))


@rule("C03.EARLY")
def early(ctx, R):
    """removeOverlap returns before solving iff the layer is empty (checked on the CFG in C01.SOLVE); here: a one-element
    layer still reaches the walls."""
    P = ctx.P
    f = P.func(qp.RO)
    cfg = ctx.cfg(f)
    from .c01 import _empty_guard
    n_early = 0
    solve_nodes = [n for n in cfg.stmt_nodes() if n.ast is not None and any(isinstance(c.func, ast.Attribute) and c.func.attr == "solve" for c in calls_in(n.ast) + ([n.ast] if isinstance(n.ast, ast.Call) else []))]
    for n in cfg.stmt_nodes():
        if n.kind == "stmt" and isinstance(n.ast, (ast.Return, ast.Raise)):
            if any(cfg.dominates(s, n) for s in solve_nodes):
                continue
            n_early += 1
            R.check(isinstance(n.ast, ast.Return) and _empty_guard(cfg, n, f.params[0]), "C03.EARLY", "early exit `%s`" % ntext(n.ast)[:40], where(f, n.ast), "only an empty layer returns before the solve", "`%s` leaves before the solver runs for a non-empty layer: a single label (or an already separated layer) is never clamped to the bounds" % ntext(n.ast)[:60])
    R.ok("C03.EARLY", "early exits examined: %d" % n_early, where(f), "", nontrivial=False)


def _set_options_eval(ctx, min_none, max_none, x_items=None):
    P = ctx.P
    f = P.func("force.Force.set_options")
    ev = new_eval(P)
    FORCE = P.cls("force.Force")
    fd = ev.resolve_global("force", "DEFAULT_OPTIONS")
    dd = ev.resolve_global("distributor", "DEFAULT_OPTIONS")
    cur = DictV({k: Opaque("cur:%s" % k) for k in fd.items}, ident="P:self.options")
    if x_items is None:
        x_items = {"minPos": NONE if min_none else Opaque("x:minPos"), "maxPos": NONE if max_none else Opaque("x:maxPos"), "density": Opaque("x:density"), "algorithm": Opaque("x:algorithm")}
    x = DictV(x_items, ident="P:x")
    st = ev.new_state(f)
    s = Opaque("self", cls=FORCE, kind="obj")
    st.heap[("self", "options")] = cur
    dist = Opaque("self.distributor", cls=P.cls("distributor.Distributor"), kind="obj")
    st.heap[("self", "distributor")] = dist
    dopts = DictV({k: Opaque("dist:%s" % k) for k in dd.items}, ident="P:dist.options")
    st.heap[("self.distributor", "options")] = dopts
    for k in ("minPos", "maxPos"):
        for who in ("cur", "x"):
            ev.assume("cmp(is, %s:%s, None)" % (who, k), False)
            ev.assume("truth(%s:%s)" % (who, k), True)
    ev.call_closure(Closure(f, None, selfv=s), [x], {}, st)
    return ev, st, cur, dopts, fd, dd, f


@rule("C03.LAYERWIDTH")
def layerwidth(ctx, R):
    P = ctx.P
    for min_none in (False, True):
        for max_none in (False, True):
            ev, st, cur, dopts, fd, dd, f = _set_options_eval(ctx, min_none, max_none)
            R.saw(f)
            tag = "minPos %s, maxPos %s" % ("None" if min_none else "set", "None" if max_none else "set")
            # the engine's own options take every supplied value, including None
            ok = key(cur.items.get("minPos")) == ("None" if min_none else "x:minPos") and key(cur.items.get("maxPos")) == ("None" if max_none else "x:maxPos") and key(cur.items.get("density")) == "x:density"
            R.check(ok, "C03.LAYERWIDTH", tag + "|options updated", where(f), "supplied options (None included) replace the engine's", "after set_options(x) the engine's options are minPos=%s maxPos=%s density=%s: supplied values (a None bound in particular) are not taken over" % (key(cur.items.get("minPos")), key(cur.items.get("maxPos")), key(cur.items.get("density"))))
            lw = dopts.items.get("layerWidth")
            if min_none or max_none:
                want_ok = lw is not None and key(lw) == "None"
                want = "None"
            else:
                n = as_num(lw) if lw is not None else None
                want_ok = n is not None and n.equals(A("x:maxPos") - A("x:minPos"))
                want = "maxPos - minPos"
            R.check(want_ok, "C03.LAYERWIDTH", tag + "|layerWidth", where(f), "distributor layerWidth = %s" % want, "with %s the distributor's layerWidth becomes %s, expected %s" % (tag, show(lw) if lw is not None else "unset", want))
    # bounds not supplied in this call: the layer width still follows the engine's current bounds
    ev, st, cur, dopts, fd, dd, f = _set_options_eval(ctx, False, False, x_items={"density": Opaque("x:density")})
    lw = dopts.items.get("layerWidth")
    n = as_num(lw) if lw is not None else None
    R.check(n is not None and n.equals(A("cur:maxPos") - A("cur:minPos")), "C03.LAYERWIDTH", "bounds kept from an earlier call|layerWidth", where(f), "layerWidth = the engine's current maxPos - minPos",
            "after set_options({'density': ..}) on an engine that already has both bounds the distributor's layerWidth becomes %s, expected the engine's current maxPos - minPos: re-configuring another option forgets the bounds" % (show(lw) if lw is not None else "unset"))
    # options not supplied keep the engine's current value (and still reach the distributor): see C04.OPTFLOW



def _lz(mod, fn, rid):
    def run(ctx, R):
        import importlib
        return getattr(importlib.import_module("sa.rules." + mod), fn)(ctx, R)

    run.rule_id = rid
    run.__name__ = fn
    return run

from . import vpsc_pack as _vp

# "honoured when the items fit" is measured with the documented spacings (C01.OPTS incl. the 2-unit line spacing), on the
# sorted chain (C01.SORT), by a solver that ends feasible (VPSC.FEAS), for layers whose stubs sit where C04 puts them
# each engine starts from a private copy of the defaults and hands the caller's options on: spacing and bounds set on one
# engine must not leak into the module defaults / other engines (C04.OPTFLOW)
RULES = [walls, early, layerwidth, weights, writeback, solve_rule, chain_rule, gap_rule, _lz("c01", "sort_rule", "C01.SORT"), _lz("c01", "opts_rule", "C01.OPTS"), _lz("c01", "alllayers", "C01.ALLLAYERS")] + _vp.FEAS + [_lz("c04", "stubchain_instance", "C04.STUBCHAIN"), _lz("c04", "stubchain", "C04.STUBCHAIN-ALL-N"), _lz("c04", "optflow", "C04.OPTFLOW")]
