"""C19 — label text reaches TeX intact: accents become TeX accents, nothing else changes."""
import ast
import unicodedata

from .util import *
from ..sym import Template, Bound, mkphi

EXPLANATION = (
    "uni2tex is analysed as a string transducer.  Totality: the text is consumed by `for char in text` (or every "
    "subscript of the text is dominated by a bound test) and never by look-ahead (C19.NOLOOKAHEAD/BOUNDS); no "
    "fixed-arity unpacking of decomposition().split() (C19.UNPACK-ARITY); int(token, 16) only under guards that fix "
    "the token count and exclude <tag> tokens (C19.HEXTOK).  C19.FLOW: the loop body is value-numbered with symbolic "
    "output OUT, pending cluster CL and character ch; on every leaf of the resulting decision tree the concatenation "
    "out'+cluster' contains OUT once, then CL once, then this character once (verbatim) or an accent command looked up "
    "by this character's own code / decomposition — nothing lost, duplicated or reordered — and the function returns "
    "out + cluster starting from empty strings.  C19.WRAP: the only templates are \\<cmd>{<arg>} with cmd = "
    "accents[ord(ch)] applied to the pending cluster under `code in accents and cluster`, or cmd = accents[second code "
    "point] applied to chr(first code point) of a two-token canonical decomposition; only characters with a non-zero "
    "combining class are appended to a cluster.  C19.TABLE: accent keys are category Mn, commands pairwise distinct "
    "and equal to the checker's reference table of LaTeX accents.  C19.USE: label texts and the preamble pass through "
    "uni2tex exactly once.  Canonical equivalence of the read-back for arbitrary strings is not decided."
    '  The transducer model accepts string accumulation and list-append-then-join accumulation, a local or module-level accent table, `table.get(k)` and `try/except KeyError` look-ups; the loop must scan the text itself or its NFC/NFD form; leaves built from atoms the recogniser does not know are undecided, never a violation.'
)
ASSUMPTIONS = ["unicodedata of the analysing interpreter (same as the repository's)"]

REFERENCE = {0x0300: "`", 0x0301: "'", 0x0302: "^", 0x0303: "~", 0x0304: "=", 0x0306: "u", 0x0307: ".", 0x0308: '"', 0x030A: "r", 0x030B: "H", 0x030C: "v", 0x0323: "d", 0x0327: "c", 0x0328: "k", 0x0331: "b"}
U = "tex.uni2tex"


def _uf(ctx):
    """uni2tex, seen through its body after the state of a helper object it creates for itself (`w = Writer(); w.feed(ch)`)
    has been turned into locals of the function (methods inlined, fields replaced by locals).  The original otherwise."""
    def build():
        from ..normalise import inline_helpers

        P = ctx.P
        f = P.func(U)
        try:
            body, n = inline_helpers(P, f, local_objects=True)
        except Exception:
            return f
        if n and any(isinstance(x, ast.Name) and "__" in x.id and not x.id.startswith("__") for s_ in body for x in ast.walk(s_)):
            return FuncView(f, body)
        return f

    return ctx.get("c19.uni2tex-view", build)


def _loop(f):
    loops = [n for n in f.node.body if isinstance(n, (ast.For, ast.While))]
    return loops


def _guards_of(node, stop):
    """Tests known true at `node`: earlier operands of enclosing `and` chains, `if` tests of enclosing true branches,
    negated tests of earlier elif/else alternatives are ignored."""
    out = []
    n = node
    while n is not None and n is not stop:
        par = getattr(n, "_parent", None)
        if isinstance(par, ast.BoolOp) and isinstance(par.op, ast.And):
            idx = par.values.index(n) if n in par.values else 0
            out.extend(par.values[:idx])
        if isinstance(par, ast.If) and n in par.body:
            out.append(par.test)
        if isinstance(par, ast.IfExp) and n is par.body:
            out.append(par.test)
        n = par
    flat = []
    for g in out:
        if isinstance(g, ast.BoolOp) and isinstance(g.op, ast.And):
            flat.extend(g.values)
        else:
            flat.append(g)
    return flat


@rule("C19.NOLOOKAHEAD")
def nolookahead(ctx, R):
    P = ctx.P
    f = _uf(ctx)
    R.saw(f)
    text_p = f.params[0]
    loops = _loop(f)
    if len(loops) != 1:
        R.bad("C19.NOLOOKAHEAD", U + "|loop", where(f), "uni2tex does not scan the text in a single loop")
        return
    lp = loops[0]
    aliases = {text_p}
    for n in f.node.body:
        if isinstance(n, ast.Assign) and isinstance(n.targets[0], ast.Name) and isinstance(n.value, ast.Call) and ntext(n.value.func) in ("tuple", "list", "str") and n.value.args and ntext(n.value.args[0]) in aliases:
            aliases.add(n.targets[0].id)
    subs = [n for n in ast.walk(lp) if isinstance(n, ast.Subscript) and isinstance(n.value, ast.Name) and n.value.id in aliases]
    if isinstance(lp, ast.For) and ntext(lp.iter) in aliases | {"enumerate(%s)" % a for a in aliases} and not subs:
        R.ok("C19.NOLOOKAHEAD", U + "|iteration", where(f, lp), "`for char in text`: no index arithmetic, no look-ahead")
        R.ok("C19.BOUNDS", U + "|no subscripts of the text", where(f, lp), "nothing to bound")
        return
    # index loop: every subscript must be the loop index itself (no +k) and dominated by the bound test
    for s in subs:
        idx = s.slice
        off = isinstance(idx, ast.BinOp)
        R.check(not off, "C19.NOLOOKAHEAD", U + "|%s" % ntext(s), where(f, s), "reads the current position only", "`%s` reads beyond the current position: combining marks follow their base, so the accent is applied to the wrong character (IndexError at the end of the text)" % ntext(s))
        if not off:
            bounded = isinstance(lp, ast.While) and ntext(lp.test).replace(" ", "") in {"%s<len(%s)" % (ntext(idx), a) for a in aliases}
            R.check(bounded, "C19.BOUNDS", U + "|%s" % ntext(s), where(f, s), "index below len(text) by the loop test", "`%s` is not bounded by the loop test" % ntext(s))


@rule("C19.UNPACK-ARITY")
def unpack(ctx, R):
    P = ctx.P
    f = _uf(ctx)
    n = 0
    for nd in ast.walk(f.node):
        if isinstance(nd, ast.Assign) and isinstance(nd.targets[0], (ast.Tuple, ast.List)) and isinstance(nd.value, ast.Call) and isinstance(nd.value.func, ast.Attribute) and nd.value.func.attr == "split":
            n += 1
            gs = [ntext(g).replace(" ", "") for g in _guards_of(nd, f.node)]
            arity = len(nd.targets[0].elts)
            ok = any(g.startswith("len(") and g.endswith("==%d" % arity) for g in gs)
            R.check(ok, "C19.UNPACK-ARITY", U + "|%s" % ntext(nd)[:50], where(f, nd), "unpacking guarded by a length test", "`%s` unpacks a decomposition into %d names without a length test: compatibility mappings have a <tag> and one or three code points (ValueError for '…', ' ', '½')" % (ntext(nd)[:60], arity))
    R.ok("C19.UNPACK-ARITY", U + "|unpackings of split(): %d" % n, where(f), "no unguarded fixed-arity unpacking", nontrivial=n > 0)


def _ast_facts(ctx, f, node):
    """Atomic facts (text, polarity) known when `node` is evaluated: short-circuit operands, conditional
    expressions and dominating tests of the CFG, decomposed through and/or/not and normalised (!= -> ==)."""
    from .c11 import _local_guards
    raw = list(_local_guards(node, f.node))
    if not f.is_lambda:
        cfg = ctx.cfg(f)
        holder = None
        for n in cfg.nodes:
            if n.ast is not None and any(x is node for x in ast.walk(n.ast)):
                holder = n
                break
        if holder is not None:
            for t in cfg.nodes:
                if t.kind != "test" or t is holder or not cfg.dominates(t, holder):
                    continue
                labs = {cfg.elabel.get((t, s_)) for s_ in cfg.succ[t] if s_ is holder or cfg.dominates(s_, holder)}
                if len(labs) == 1:
                    raw.append((t.ast, labs.pop()))
    facts = set()

    def add(t, pol):
        if isinstance(t, ast.UnaryOp) and isinstance(t.op, ast.Not):
            add(t.operand, not pol)
        elif isinstance(t, ast.BoolOp) and isinstance(t.op, ast.And) and pol:
            for v in t.values:
                add(v, True)
        elif isinstance(t, ast.BoolOp) and isinstance(t.op, ast.Or) and not pol:
            for v in t.values:
                add(v, False)
        elif isinstance(t, ast.Compare) and len(t.ops) == 1 and isinstance(t.ops[0], (ast.NotEq, ast.IsNot)):
            eq = ast.Compare(left=t.left, ops=[ast.Eq() if isinstance(t.ops[0], ast.NotEq) else ast.Is()], comparators=t.comparators)
            facts.add((ntext(eq).replace(" ", "").replace('"', "'"), not pol))
        else:
            facts.add((ntext(t).replace(" ", "").replace('"', "'"), pol))

    for t, pol in raw:
        add(t, pol)
    return facts


@rule("C19.HEXTOK")
def hextok(ctx, R):
    P = ctx.P
    fns = [_uf(ctx)] + [P.funcs[q] for q in sorted(ctx.cg.reachable([U])) if q != U and q in P.funcs and P.funcs[q].module.name == "tex"]
    n = 0
    for f in fns:
        for nd in walk_local(f.node):
            if isinstance(nd, ast.Call) and isinstance(nd.func, ast.Name) and nd.func.id == "int" and len(nd.args) == 2:
                n += 1
                a = nd.args[0]
                if const_value(nd.args[1]) != 16:
                    R.bad("C19.HEXTOK", "%s|%s base" % (f.qual, ntext(nd)[:40]), where(f, nd), "`%s`: the fields of unicodedata.decomposition() are hexadecimal code points; parsed with base %s they raise ValueError or name another character" % (ntext(nd)[:60], ntext(nd.args[1])))
                    continue
                facts = _ast_facts(ctx, f, nd)
                if isinstance(a, ast.Subscript) and isinstance(a.slice, ast.Constant) and isinstance(a.value, ast.Name):
                    X, k = a.value.id, a.slice.value
                    lenok = ("len(%s)==2" % X, True) in facts or any(t.startswith("len(%s)==" % X) and pol and t.split("==")[1].isdigit() and int(t.split("==")[1]) > k for t, pol in facts)
                    tagok = ("%s[0].startswith('<')" % X, False) in facts or ("%s[0][0]=='<'" % X, False) in facts
                    R.check(lenok and tagok, "C19.HEXTOK", "%s|int(%s[%s], 16)" % (f.qual, X, k), where(f, nd), "token exists and the mapping has no <tag>", "`%s` parses a decomposition token as hex without guards that fix the token count and exclude <tag> mappings (known here: %s): ValueError / IndexError for compatibility characters" % (ntext(nd), sorted(facts)))
                else:
                    R.bad("C19.HEXTOK", "%s|%s" % (f.qual, ntext(nd)[:40]), where(f, nd), "`%s`: hex parsing of a value that is not a guarded token of the decomposition" % ntext(nd)[:60])
    R.check(n >= 1, "C19.HEXTOK.inventory", "hex parses examined: %d" % n, "", "", "", nontrivial=False)


TOTALITY = [nolookahead, unpack, hextok]


def _tparts(v):
    """Flatten a string value into parts: ('lit', s) | ('hole', key)."""
    if isinstance(v, Template):
        out = []
        for p in v.parts:
            if p[0] == "lit":
                out.append(("lit", p[1]))
            else:
                inner = p[1]
                if isinstance(inner, Template) and p[2] in ("raw", "%s", "str"):
                    out.extend(_tparts(inner))
                else:
                    out.append(("hole", key(inner)))
        return out
    if isinstance(v, Const) and isinstance(v.v, str):
        return [("lit", v.v)] if v.v else []
    return [("hole", key(v))]


def _find_table(P, f):
    """The accent table: a dict literal with integer keys, local to uni2tex or at module level of tex.py.
    Returns (ast.Dict, name, is_global)."""
    for nd in walk_local(f.node):
        if isinstance(nd, ast.Assign) and isinstance(nd.value, ast.Dict) and nd.value.keys and all(isinstance(k, ast.Constant) and isinstance(k.value, int) for k in nd.value.keys) and isinstance(nd.targets[0], ast.Name):
            return nd.value, nd.targets[0].id, False
    for stn in f.module.tree.body:
        if isinstance(stn, ast.Assign) and isinstance(stn.value, ast.Dict) and stn.value.keys and all(isinstance(k, ast.Constant) and isinstance(k.value, int) for k in stn.value.keys) and isinstance(stn.targets[0], ast.Name):
            return stn.value, stn.targets[0].id, True
    return None, None, False


class _Model:
    pass


def _model(ctx):
    """uni2tex as a string transducer: the loop body value-numbered for an arbitrary character `ch` with symbolic
    accumulators.  Accumulators are string variables that start as "" and list variables that start as [] and are only
    appended to and finally joined with the empty string (`parts.append(x)` is then `parts += x`)."""
    def build():
        P = ctx.P
        M = _Model()
        f = _uf(ctx)
        M.f = f
        loops = _loop(f)
        if len(loops) != 1 or not isinstance(loops[0], ast.For):
            raise Undecided("uni2tex is not a single for-loop over the characters; the string-flow recogniser does not apply")
        lp = loops[0]
        M.lp = lp
        tbl, tname, tglobal = _find_table(P, f)
        M.table = tbl
        listacc = {}

        def hook(fv, args, kwargs, node, st_):
            # list accumulators
            if isinstance(fv, Bound) and isinstance(fv.recv, Opaque) and fv.recv.text in listacc and isinstance(node, ast.Call) and isinstance(node.func, ast.Attribute) and isinstance(node.func.value, ast.Name):
                if fv.name == "append" and len(args) == 1:
                    cur = st_.env.lookup(node.func.value.id)
                    st_.env.assign(node.func.value.id, ev._mk_template([("hole", cur, "%s"), ("hole", args[0], "%s")]))
                    return NONE
                if fv.name == "extend" and len(args) == 1 and isinstance(args[0], Seq):
                    cur = st_.env.lookup(node.func.value.id)
                    st_.env.assign(node.func.value.id, ev._mk_template([("hole", cur, "%s")] + [("hole", x, "%s") for x in args[0].items]))
                    return NONE
            # "".join(acc)
            if isinstance(fv, Bound) and fv.name == "join" and isinstance(fv.recv, Const) and fv.recv.v == "" and len(args) == 1:
                a0 = args[0]
                if isinstance(a0, (Template, Opaque)) and _is_acc_value(a0, listacc):
                    return a0
            # table.get(k[, default])
            isget = (isinstance(fv, Bound) and fv.name == "get" and isinstance(fv.recv, Opaque) and fv.recv.text == "ACCENTS") or (isinstance(fv, Opaque) and fv.text == "ACCENTS.get")
            if isget and 1 <= len(args) <= 2:
                dflt = args[1] if len(args) == 2 else NONE
                return mkphi(Cond(("cmp", "in", args[0], Opaque("ACCENTS", kind="obj"))), Opaque("ACCENTS[%s]" % key(args[0]), kind="str"), dflt)
            return None

        ev = new_eval(P, on_call=hook)
        M.ev = ev
        if tglobal:
            ev.module_env(f.module.name).vars[tname] = Opaque("ACCENTS", kind="obj")
        st = ev.new_state(f, {f.params[0]: Opaque("TEXT", kind="str")})
        pre = f.node.body[: f.node.body.index(lp)]
        post = f.node.body[f.node.body.index(lp) + 1:]
        ev.block(pre, st, [])
        svars = [k for k, v in st.env.vars.items() if isinstance(v, Const) and v.v == ""]
        lvars = []
        for k, v in st.env.vars.items():
            if isinstance(v, Seq) and v.kind == "list" and not v.items:
                uses_ok = True
                for nd in walk_local(f.node):
                    if isinstance(nd, ast.Name) and nd.id == k and isinstance(nd.ctx, ast.Load):
                        par = getattr(nd, "_parent", None)
                        if isinstance(par, ast.Attribute) and par.attr in ("append", "extend"):
                            continue
                        if isinstance(par, ast.Call) and isinstance(par.func, ast.Attribute) and par.func.attr == "join" and isinstance(par.func.value, ast.Constant) and par.func.value.value == "":
                            continue
                        uses_ok = False
                if uses_ok:
                    lvars.append(k)
        M.acc = svars + lvars
        for k in M.acc:
            st.env.vars[k] = Opaque(k.upper(), kind="str")
        for k in lvars:
            listacc[k.upper()] = k
        if tbl is not None and not tglobal:
            st.env.vars[tname] = Opaque("ACCENTS", kind="obj")
        # what the function returns, as a function of the accumulators at loop exit
        st_post = st.fork() if hasattr(st, "fork") else st
        r = ev.block(post, st_post, [])
        M.rv = r.value if r is not None else None
        M.nrets = len([n for n in post if isinstance(n, ast.Return)])
        order = [p[1] for p in _tparts(M.rv) if p[0] == "hole"] if M.rv is not None else []
        M.order = order
        names = [k.upper() for k in M.acc]
        M.names = names
        M.OUTN = order[0] if order else (names[0] if names else None)
        M.CLN = order[1] if len(order) > 1 else None
        M.outv = next((k for k in M.acc if k.upper() == M.OUTN), None)
        M.clv = next((k for k in M.acc if k.upper() == M.CLN), None)
        M.itv = key(ev.expr(lp.iter, st))
        ch = Opaque("ch", kind="str")
        if isinstance(lp.target, ast.Name):
            st.env.vars[lp.target.id] = ch
        else:
            ev.bind(lp.target, Seq("tuple", [Opaque("i"), ch]), st)
        ev.block(lp.body, st, [])
        o2 = st.env.lookup(M.outv) if M.outv else Const("")
        c2 = st.env.lookup(M.clv) if M.clv else Const("")
        M.leaves = []
        for path, leaf in leaves(lift(Seq("tuple", [o2, c2]))):
            M.leaves.append((path, _path_facts(path), leaf.items[0], leaf.items[1]))
        return M

    return ctx.get("c19.model", build)


def _is_acc_value(v, listacc):
    if isinstance(v, Opaque):
        return v.text in listacc
    if isinstance(v, Template):
        return any(p[0] == "hole" and isinstance(p[1], Opaque) and p[1].text in listacc for p in v.parts)
    return False


def _known_hole(h, M):
    """Holes the recogniser understands: the accumulators, the character, accent look-ups and decomposition parts."""
    return h in (M.OUTN, M.CLN, "ch") or h.startswith("ACCENTS[") or "unicodedata.decomposition(ch)" in h or "ord(ch)" in h


@rule("C19.FLOW")
def flow(ctx, R):
    P = ctx.P
    f = _uf(ctx)
    try:
        M = _model(ctx)
    except Undecided as e:
        R.undecided("C19.FLOW", U, where(f), str(e))
        return
    lp = M.lp
    R.check(len(M.acc) in (1, 2) and M.nrets == 1, "C19.FLOW", U + "|state", where(f), "output (and pending cluster) start empty", "uni2tex state variables: %s" % M.acc)
    if not M.acc or M.nrets != 1:
        return
    rv = M.rv
    OUTN, CLN = M.OUTN, M.CLN
    R.check(sorted(M.order) == sorted(M.names) and not [p for p in _tparts(rv) if p[0] == "lit"], "C19.FLOW", U + "|result", where(f), "returns output + pending cluster", "uni2tex returns %s: the pending cluster (or the output) is dropped or decorated" % show(rv))
    okit = M.itv in ("TEXT", "enumerate(TEXT)", "unicodedata.normalize('NFC', TEXT)", "unicodedata.normalize('NFD', TEXT)")
    R.check(okit, "C19.FLOW", U + "|scans the text itself", where(f, lp), "the loop consumes the text as given (or a canonically equivalent normal form)", "the loop scans %s instead of the text as given: characters are changed before conversion (only canonical normalisation NFC/NFD preserves the text up to canonical equivalence)" % M.itv)
    n_leaves = 0
    for path, facts, o, c in M.leaves:
        n_leaves += 1
        parts = _tparts(o) + _tparts(c)
        holes = [p[1] for p in parts if p[0] == "hole"]
        conds = ["%s%s" % ("" if t else "not ", key(cnd)) for cnd, t in path]
        tag = " & ".join(conds)[:150]
        unknown = [h for h in holes if not _known_hole(h, M)]
        if unknown:
            R.undecided("C19.FLOW", U + "|leaf: " + (tag or "unconditional"), where(f, lp), "the loop body builds the output from %s, which the string-flow recogniser does not understand" % unknown[:2])
            continue
        ok_out = holes[:1] == [OUTN] and holes.count(OUTN) == 1
        ok_cl = CLN is None or holes.count(CLN) == 1
        nch = holes.count("ch")
        rest = [h for h in holes if h not in (OUTN, CLN, "ch")]
        lits = "".join(p[1] for p in parts if p[0] == "lit")
        if nch == 1 and not rest and not lits:
            kind = "verbatim"
            ok_ch = holes.index("ch") == len(holes) - 1
        elif nch == 0 and rest:
            kind = "accent"
            # every other hole must be derived from this character: accents[ord(ch)] or its decomposition
            ok_ch = all(("ord(ch)" in h or "unicodedata.decomposition(ch)" in h) for h in rest)
        else:
            kind = "?"
            ok_ch = False
        order_ok = True
        if CLN in holes and "ch" in holes:
            order_ok = holes.index(CLN) < holes.index("ch")
        R.check(ok_out and ok_cl and ok_ch and order_ok, "C19.FLOW", U + "|leaf: " + (tag or "unconditional"), where(f, lp),
                "%s: output', cluster' = %s" % (kind, holes), "on the path [%s] the new output+cluster is %s: the old output, the pending cluster and this character must each appear exactly once, in that order (character verbatim or as an accent command derived from it)" % (tag, parts))
    R.check(n_leaves >= 3, "C19.FLOW.inventory", "paths through the loop body: %d" % n_leaves, where(f), "", "the loop body has only %d paths (expected combining / attached / base cases)" % n_leaves, nontrivial=False)


def _cbool(x):
    if isinstance(x, bool):
        return x
    if isinstance(x, Const) and isinstance(x.v, bool):
        return x.v
    return None


def _path_facts(path):
    facts = set()

    def add(t, pol):
        if isinstance(t, tuple) and t[0] == "not":
            add(t[1], not pol)
        elif isinstance(t, tuple) and t[0] == "and" and pol:
            for x in t[1:]:
                add(x, True)
        elif isinstance(t, tuple) and t[0] == "or" and not pol:
            for x in t[1:]:
                add(x, False)
        elif isinstance(t, tuple) and t[0] == "cmp" and t[1] in ("ne", "isnot", "notin"):
            add(("cmp", {"ne": "eq", "isnot": "is", "notin": "in"}[t[1]], t[2], t[3]), not pol)
        elif isinstance(t, tuple) and t[0] == "phi" and len(t) == 4 and (_cbool(t[2]) is not None or _cbool(t[3]) is not None) and \
                ((_cbool(t[2]) is not None and _cbool(t[2]) != pol) or (_cbool(t[3]) is not None and _cbool(t[3]) != pol)):
            # a helper's several returns folded into one condition: phi(A, x, y) == pol with a constant arm that differs from pol
            bx, by = _cbool(t[2]), _cbool(t[3])
            if bx is not None and bx != pol:
                add(t[1], False)
                if by is None:
                    add(t[3], pol)
            else:
                add(t[1], True)
                if bx is None:
                    add(t[2], pol)
        else:
            from ..sym import ckey
            facts.add((ckey(t), pol))

    for c, taken in path:
        if isinstance(c, Cond):
            add(c.tree, taken)
    return facts


def _loop_leaves(ctx):
    M = _model(ctx)
    return M.f, M.lp, [(facts, o, c) for path, facts, o, c in M.leaves], M.OUTN, M.CLN


def _accent_parts(v):
    """If v is the template \\<cmd>{<arg>} return (cmd hole key, arg parts) else None."""
    if not isinstance(v, Template):
        return None
    ps = v.parts
    if len(ps) >= 4 and ps[0] == ("lit", "\\") and ps[1][0] == "hole" and ps[-1] == ("lit", "}") and ps[2][0] == "lit" and ps[2][1] == "{":
        return key(ps[1][1]), ps[3:-1]
    return None


@rule("C19.WRAP")
def wrap(ctx, R):
    P = ctx.P
    try:
        f, lp, res, outn, cln = _loop_leaves(ctx)
    except Undecided as e:
        R.undecided("C19.WRAP", U, where(P.func(U)), str(e))
        return
    D = "unicodedata.decomposition(ch).split()"
    kinds = {"combining": 0, "precomposed": 0, "attach": 0, "plain": 0}
    for facts, o2, c2 in res:
        tag = " & ".join(sorted(("" if pol else "not ") + t for t, pol in facts))[:160]
        acc = _accent_parts(c2)
        cparts = _tparts(c2)
        if acc is not None:
            cmd, arg = acc
            argk = [("lit", p[1]) if p[0] == "lit" else ("hole", key(p[1]), p[2]) for p in arg]
            if cmd == "ACCENTS[ord(ch)]":
                kinds["combining"] += 1
                ok = argk == [("hole", cln, "%s")] and ("cmp(in, ord(ch), ACCENTS)", True) in facts and ("truth(%s)" % cln, True) in facts
                R.check(ok, "C19.WRAP", U + "|combining mark: " + tag, where(f, lp), "accents[ord(ch)] applied to the non-empty pending cluster", "a combining mark is turned into \\%s{%s} under [%s]: its own command must be applied to the pending, non-empty cluster of the preceding base character" % (cmd, argk, tag))
            elif cmd == "ACCENTS[int(%s[1], 16)]" % D:
                kinds["precomposed"] += 1
                want_arg = [("hole", "T[{int(%s[0], 16)|chr}]" % D, "%s")]
                req = [("cmp(eq, len(%s), 2)" % D, True), ("truth(%s[0].startswith('<'))" % D, False), ("cmp(in, int(%s[1], 16), ACCENTS)" % D, True)]
                want_arg2 = [("hole", "int(%s[0], 16)" % D, "chr")]  # the same string with the nested template spliced
                ok = argk in (want_arg, want_arg2) and all(r in facts for r in req)
                R.check(ok, "C19.WRAP", U + "|precomposed: " + tag, where(f, lp), "accents[second code point] applied to chr(first code point) of this character's canonical two-token decomposition", "a precomposed character is rewritten as \\%s{%s} under [%s]: expected accents[int(d[1],16)] applied to chr(int(d[0],16)) of its own decomposition d, only when d has exactly two tokens, no <tag>, and the mark is in the table" % (cmd, argk, tag))
            else:
                R.bad("C19.WRAP", U + "|command " + cmd[:60], where(f, lp), "an accent command is looked up by `%s`: neither this character's code nor the second code point of its own decomposition" % cmd)
        else:
            holes = [p[1] for p in cparts if p[0] == "hole"]
            if holes == [cln, "ch"]:
                kinds["attach"] += 1
                ok = ("truth(unicodedata.combining(ch))", True) in facts and ("truth(%s)" % cln, True) in facts
                R.check(ok, "C19.WRAP", U + "|attach: " + tag, where(f, lp), "only characters with a non-zero combining class join a non-empty cluster", "the character is attached to the pending cluster under [%s]: only combining characters may join a non-empty cluster (otherwise a later accent is applied to several base characters)" % tag)
            else:
                kinds["plain"] += 1
    R.check(kinds["combining"] >= 1 and kinds["precomposed"] >= 1, "C19.WRAP.inventory", "accent paths: %s" % kinds, where(f), "", "expected a combining-mark and a precomposed path through the loop body (found %s)" % kinds, nontrivial=False)
    # the literal templates in the source are the accent form only
    for g in [f] + [P.funcs[q] for q in sorted(ctx.cg.reachable([U])) if q != U and q in P.funcs and P.funcs[q].module.name == "tex"]:
        for nd in walk_local(g.node):
            if isinstance(nd, ast.BinOp) and isinstance(nd.op, ast.Mod) and isinstance(nd.left, ast.Constant) and isinstance(nd.left.value, str):
                R.check(nd.left.value == "\\%s{%s}", "C19.WRAP", "%s|template %r" % (g.qual, nd.left.value), where(g, nd), "accent template \\<cmd>{<arg>}", "template %r is not the TeX accent form \\<cmd>{<arg>}" % nd.left.value, nontrivial=False)


@rule("C19.TABLE")
def table(ctx, R):
    P = ctx.P
    f = _uf(ctx)
    tbl, _tname, _tglobal = _find_table(P, f)
    if tbl is None:
        R.bad("C19.TABLE", U + "|accent table", where(f), "no literal accent table (code point -> command) in uni2tex")
        return
    vals = {}
    for k, v in zip(tbl.keys, tbl.values):
        code = k.value
        cmd = v.value if isinstance(v, ast.Constant) else None
        cat = unicodedata.category(chr(code))
        R.check(cat == "Mn", "C19.TABLE", "U+%04X category" % code, where(f, k), "combining mark (Mn)", "accent table key U+%04X has category %s, not a non-spacing combining mark" % (code, cat), nontrivial=False)
        R.check(REFERENCE.get(code) == cmd, "C19.TABLE", "U+%04X -> %r" % (code, cmd), where(f, k), "matches the LaTeX accent for %s" % unicodedata.name(chr(code), "?"), "accent table maps U+%04X (%s) to %r; the LaTeX accent command for it is %r: reading the command back yields a different mark" % (code, unicodedata.name(chr(code), "?"), cmd, REFERENCE.get(code)))
        vals.setdefault(cmd, []).append(code)
    for cmd, codes in vals.items():
        R.check(len(codes) == 1, "C19.TABLE", "command %r unique" % cmd, where(f, tbl), "one mark per command", "command %r stands for %s: the read-back cannot tell them apart" % (cmd, ["U+%04X" % c for c in codes]), nontrivial=False)
    R.check(len(tbl.keys) >= 10, "C19.TABLE.inventory", "accent entries: %d" % len(tbl.keys), where(f), "", "accent table shrank to %d entries" % len(tbl.keys), nontrivial=False)


def _bindings(f, name):
    """Value expressions bound to local `name` in f (assignments, walrus); None entries for bindings without a value
    expression (loop targets, parameters are reported separately)."""
    out = []
    for nd in walk_local(f.node):
        if isinstance(nd, ast.Assign):
            for t in nd.targets:
                if isinstance(t, ast.Name) and t.id == name:
                    out.append(nd.value)
                elif any(isinstance(x, ast.Name) and x.id == name and isinstance(x.ctx, ast.Store) for x in ast.walk(t)):
                    out.append(None)
        elif isinstance(nd, ast.NamedExpr) and isinstance(nd.target, ast.Name) and nd.target.id == name:
            out.append(nd.value)
        elif isinstance(nd, ast.AugAssign) and isinstance(nd.target, ast.Name) and nd.target.id == name:
            out.append(None)
        elif isinstance(nd, (ast.For, ast.comprehension)) and any(isinstance(x, ast.Name) and x.id == name for x in ast.walk(nd.target)):
            out.append(None)
    return out


def _as_given(f, e, depth=0):
    """(ok, source text): the expression is the text as given - a name / attribute / subscript chain, possibly through
    locals that are bound once to such a chain; any call or operator on the way means the text was transformed."""
    if isinstance(e, ast.NamedExpr):
        return _as_given(f, e.value, depth)
    if isinstance(e, (ast.Attribute, ast.Subscript)):
        ok, src = _as_given(f, e.value, depth)
        return ok, ntext(e) if not isinstance(e.value, ast.Name) else "%s%s" % (src, ntext(e)[len(ntext(e.value)):])
    if isinstance(e, ast.Name):
        if f is None or f.is_lambda or depth > 3:
            return True, e.id
        bs = _bindings(f, e.id)
        if e.id in f.params:
            # a parameter: must not be rebound to a transformed value
            bad = [b for b in bs if b is not None and not _as_given(f, b, depth + 1)[0]]
            return (not bad), e.id
        if len(bs) == 1 and bs[0] is not None:
            return _as_given(f, bs[0], depth + 1)
        # loop targets and other value-less bindings are sources themselves
        return all(b is None or _as_given(f, b, depth + 1)[0] for b in bs), e.id
    return False, ntext(e)[:40]


@rule("C19.USE")
def use(ctx, R):
    P = ctx.P
    n = 0
    for f in P.funcs.values():
        for c in calls_in(f.node):
            if [g.qual for g, _ in ctx.types.resolve(c)] == [U]:
                n += 1
                a = c.args[0] if c.args else None
                nested = isinstance(a, ast.Call) and [g.qual for g, _ in ctx.types.resolve(a)] == [U]
                R.check(a is not None and not nested, "C19.USE", "%s|%s" % (f.qual, ntext(c)[:40]), where(f, c), "applied once", "`%s` applies uni2tex twice (backslashes of the first pass are not idempotent input)" % ntext(c)[:60])
                if a is not None and not nested:
                    g_ = f
                    while g_ is not None and g_.is_lambda:
                        g_ = g_.parent
                    ok, src = _as_given(g_, a)
                    R.check(ok, "C19.USE", "%s|%s as given" % (f.qual, ntext(c)[:40]), where(f, c), "uni2tex receives the text as given (%s)" % src, "`%s`: the text is transformed (%s) before it reaches uni2tex - stripping, normalising or re-joining changes what is typeset" % (ntext(c)[:60], src))
    f = P.func("timeline.TimelineTex.add_header_text")
    cs = [c for c in calls_in(f.node) if [g.qual for g, _ in ctx.types.resolve(c)] == [U]]
    ok = len(cs) == 1 and bool(cs[0].args) and _as_given(f, cs[0].args[0])[1].endswith(".data.text")
    R.check(ok, "C19.USE", f.qual, where(f), "\\def\\text.. = uni2tex(node.data.text)", "TeX label macros are not defined as uni2tex(<node>.data.text)")
    g = P.func("tex.get_latex_fontdoc")
    kws = {}
    for c in calls_in(g.node):
        for k in c.keywords:
            if isinstance(k.value, ast.Call) and [x.qual for x, _ in ctx.types.resolve(k.value)] == [U] and k.value.args:
                kws[k.arg] = _as_given(g, k.value.args[0])
            elif k.arg in ("text", "preamble"):
                kws[k.arg] = (False, ntext(k.value)[:40])
    # also: locals formatted into the document
    for nm in ("text", "preamble"):
        if nm not in kws:
            for c in calls_in(g.node):
                if [x.qual for x, _ in ctx.types.resolve(c)] == [U] and c.args and _as_given(g, c.args[0])[1] == nm:
                    kws[nm] = _as_given(g, c.args[0])
    okk = all(nm in kws and kws[nm][0] and kws[nm][1] == nm for nm in ("text", "preamble"))
    R.check(okk, "C19.USE", g.qual, where(g), "text and preamble pass through uni2tex as given", "get_latex_fontdoc does not pass text and preamble, as given, through uni2tex exactly once: %s" % kws)
    R.check(n >= 3, "C19.USE.inventory", "uni2tex call sites: %d" % n, "", "", "", nontrivial=False)


RULES = [nolookahead, unpack, hextok, flow, wrap, table, use]
