"""Shared pack: no hidden state.

Results of the package's computations must depend only on their inputs.  The
pack reports every construct through which a value can persist from one call to
the next outside the objects the property allows:

  * a function mutating a module-level object (directly, through a local alias
    into its structure, or by handing it to a callee that mutates that parameter);
  * `global` rebinding; function attributes; mutated mutable default arguments;
  * class-level mutable attributes mutated through instances;
  * memoising decorators on methods of mutable classes;
  * instance attributes outside the class's declared state (table per class).
"""
import ast

from ..core import walk_local, ntext, FUNC_NODES
from ..effects import MUTATORS, root_name, Effects

MUTABLE_DISPLAY = (ast.Dict, ast.List, ast.Set, ast.ListComp, ast.DictComp, ast.SetComp, ast.Call)
COPY_CALLS = {"dict", "list", "set", "tuple", "sorted", "deepcopy", "copy", "frozenset", "str", "int", "float", "len", "max", "min", "sum", "repr", "bool", "enumerate", "zip", "map", "filter", "reversed", "isinstance", "callable", "type", "id", "iter"}
REF_METHODS = {"get", "items", "values", "setdefault", "pop", "__getitem__"}


def module_globals(P, modname):
    """name -> value AST for module-level assignments to mutable objects."""
    m = P.modules[modname]
    out = {}
    for st in m.tree.body:
        if isinstance(st, ast.Assign):
            for t in st.targets:
                if isinstance(t, ast.Name):
                    if isinstance(st.value, MUTABLE_DISPLAY) and not isinstance(st.value, ast.Lambda):
                        out[t.id] = st.value
        elif isinstance(st, ast.AnnAssign) and isinstance(st.target, ast.Name) and st.value is not None and isinstance(st.value, MUTABLE_DISPLAY):
            out[st.target.id] = st.value
    return out


def global_home(P, mod, name):
    seen = set()
    m = mod
    while (m.name, name) not in seen:
        seen.add((m.name, name))
        imp = m.imports.get(name)
        if imp is None:
            return m.name, name
        if imp[0] == "symbol" and imp[1].startswith("labella.") and imp[1].split(".", 1)[1] in P.modules:
            m = P.modules[imp[1].split(".", 1)[1]]
            name = imp[2]
            continue
        return None, None
    return m.name, name


def _is_ref_expr(e):
    """Expression that yields a reference into the structure of its root (not a copy)."""
    if isinstance(e, (ast.Name, ast.Attribute, ast.Subscript)):
        if isinstance(e, ast.Subscript) and isinstance(e.slice, ast.Slice):
            return False
        return True
    if isinstance(e, ast.Call) and isinstance(e.func, ast.Attribute) and e.func.attr in REF_METHODS:
        return True
    if isinstance(e, ast.IfExp):
        return _is_ref_expr(e.body) or _is_ref_expr(e.orelse)
    if isinstance(e, ast.BoolOp):
        return any(_is_ref_expr(v) for v in e.values)
    return False


def _root(e):
    if isinstance(e, ast.Call) and isinstance(e.func, ast.Attribute):
        return _root(e.func.value)
    if isinstance(e, ast.IfExp):
        return _root(e.body) or _root(e.orelse)
    if isinstance(e, ast.BoolOp):
        for v in e.values:
            r = _root(v)
            if r:
                return r
        return None
    return root_name(e)


def _roots(e):
    if isinstance(e, ast.IfExp):
        return _roots(e.body) | _roots(e.orelse)
    if isinstance(e, ast.BoolOp):
        out = set()
        for v in e.values:
            out |= _roots(v)
        return out
    r = _root(e)
    return {r} if r else set()


def global_aliases(P, f, T, watch):
    """local name -> set of (module, global) it may reference into; also the direct global names."""
    al = {}
    loc = T.locals.get(f.qual, set())
    body = f.node.body if not f.is_lambda else []

    def gl(name):
        if name in loc:
            # closure variable of an enclosing function?  treat as local
            return al.get(name, set())
        g = f.parent
        while g is not None:
            if name in T.locals.get(g.qual, set()):
                return set()
            g = g.parent
        hm, hn = global_home(P, f.module, name)
        if hm is not None and (hm, hn) in watch:
            return {(hm, hn)}
        return set()

    # a parameter whose default value is a watched module-level object aliases it
    for p_, d_ in f.defaults.items():
        if isinstance(d_, ast.Name):
            hm, hn = global_home(P, f.module, d_.id)
            if hm is not None and (hm, hn) in watch:
                al.setdefault(p_, set()).add((hm, hn))
    changed = True
    nodes = []
    for s in body:
        nodes.append(s)
        nodes.extend(walk_local(s))
    while changed:
        changed = False
        for n in nodes:
            pairs = []
            if isinstance(n, ast.Assign) and _is_ref_expr(n.value):
                for t in n.targets:
                    if isinstance(t, ast.Name):
                        pairs.append((t.id, n.value))
            elif isinstance(n, ast.For) and _is_ref_expr(n.iter):
                for t in ast.walk(n.target):
                    if isinstance(t, ast.Name):
                        pairs.append((t.id, n.iter))
            elif isinstance(n, ast.NamedExpr) and _is_ref_expr(n.value):
                pairs.append((n.target.id, n.value))
            for name, val in pairs:
                src = set()
                for r in _roots(val):
                    src |= gl(r)
                if src and not src <= al.get(name, set()):
                    al.setdefault(name, set()).update(src)
                    changed = True
    return al, gl


def no_hidden_state(ctx, R, rule_id, modules, classes=None, allow=()):
    P = ctx.P
    T = ctx.types
    eff = ctx.get("effects", lambda: Effects(P, ctx.cg.resolver()))
    watch = {}
    for mn in modules:
        if mn not in P.modules:
            continue
        for name, val in module_globals(P, mn).items():
            watch[(mn, name)] = val
    n_checked = 0
    # fields that alias a watched module-level object: `self.attr = G` / `self.attr = G[k]` (a reference, not a copy)
    field_alias = {}
    for f in P.funcs.values():
        g0 = f
        while g0 is not None and g0.cls is None:
            g0 = g0.parent
        if g0 is None or not g0.params:
            continue
        selfn = g0.params[0]
        for n in walk_local(f.node):
            if isinstance(n, ast.Assign) and _is_ref_expr(n.value):
                for t in n.targets:
                    if isinstance(t, ast.Attribute) and isinstance(t.value, ast.Name) and t.value.id == selfn:
                        for r in _roots(n.value):
                            if r in T.locals.get(f.qual, ()):
                                continue
                            hm, hn = global_home(P, f.module, r)
                            if hm is not None and (hm, hn) in watch:
                                field_alias.setdefault((g0.cls.qual, t.attr), set()).add((hm, hn))
    for (cq, attr), gs in sorted(field_alias.items()):
        c = P.classes[cq]
        for k in P.subclasses(c):
            for m in P.funcs.values():
                g0 = m
                while g0 is not None and g0.cls is None:
                    g0 = g0.parent
                if g0 is None or g0.cls is not k or not g0.params:
                    continue
                selfn = g0.params[0]
                for n in walk_local(m.node):
                    hit = None
                    if isinstance(n, (ast.Assign, ast.AugAssign, ast.Delete)):
                        for t in (n.targets if not isinstance(n, ast.AugAssign) else [n.target]):
                            if isinstance(t, ast.Subscript) and ntext(t.value).startswith("%s.%s" % (selfn, attr)):
                                hit = "stores into"
                    if isinstance(n, ast.Call) and isinstance(n.func, ast.Attribute) and n.func.attr in MUTATORS and ntext(n.func.value).startswith("%s.%s" % (selfn, attr)):
                        hit = "mutates (.%s)" % n.func.attr
                    if hit:
                        for g in sorted(gs):
                            R.bad(rule_id, "%s|field %s aliases %s.%s" % (m.qual, attr, g[0], g[1]), "%s:%s (%s)" % (m.module.path, n.lineno, m.qual), "`%s` %s self.%s, which %s binds to the module-level object %s.%s itself (no copy): every instance shares and changes it" % (ntext(n)[:80], hit, attr, cq, g[0], g[1]))
    # module attributes assigned at run time: `othermodule.NAME = ...`
    for f in P.funcs.values():
        for n in walk_local(f.node):
            if isinstance(n, (ast.Assign, ast.AugAssign)):
                for t in (n.targets if isinstance(n, ast.Assign) else [n.target]):
                    if isinstance(t, ast.Attribute) and isinstance(t.value, ast.Name) and t.value.id not in T.locals.get(f.qual, ()):
                        imp = f.module.imports.get(t.value.id)
                        if imp is not None and imp[0] == "module" and imp[1].startswith("labella.") and (not modules or imp[1].split(".", 1)[1] in modules or f.module.name in modules):
                            R.bad(rule_id, "%s|module attribute %s.%s" % (f.qual, t.value.id, t.attr), "%s:%s (%s)" % (f.module.path, n.lineno, f.qual), "`%s` rebinds the module-level name %s.%s at run time: later calls in the same process see the changed value" % (ntext(n)[:80], imp[1], t.attr))
    # functions that run only while their module is being imported (every call site, transitively, is module-level
    # code): what they store into module-level objects is part of the module's initial value, not run-time state
    def _init_only():
        cg = ctx.cg
        value_uses = {}
        for m_ in P.modules.values():
            vs = set()
            for nd in ast.walk(m_.tree):
                if isinstance(nd, ast.Name) and isinstance(nd.ctx, ast.Load):
                    par = getattr(nd, "_parent", None)
                    if not (isinstance(par, ast.Call) and par.func is nd):
                        vs.add(nd.id)
            value_uses[m_.name] = vs
        imported = set()
        for m_ in P.modules.values():
            for imp in m_.imports.values():
                if imp[0] == "symbol" and imp[1].startswith("labella."):
                    imported.add((imp[1].split(".", 1)[1], imp[2]))
        out = set()
        changed = True
        while changed:
            changed = False
            for f in P.funcs.values():
                if f.qual in out or f.is_lambda or f.cls is not None or f.parent is not None:
                    continue
                callers = cg.inn.get(f.qual, set())
                if not callers or f.name in value_uses[f.module.name] or (f.module.name, f.name) in imported:
                    continue
                if all(c.startswith("<module>:") or c in out for c in callers):
                    out.add(f.qual)
                    changed = True
        return out

    init_only = ctx.get("state.init_only", _init_only)
    # 1/2: mutation of watched module-level objects from any function of the package
    for f in P.funcs.values():
        if f.qual in init_only:
            continue
        if f.is_lambda:
            body_nodes = list(walk_local(f.node))
        else:
            body_nodes = []
            for s in f.node.body:
                body_nodes.append(s)
                body_nodes.extend(walk_local(s))
        al, gl = global_aliases(P, f, T, watch)
        wh = lambda n: "%s:%s (%s)" % (f.module.path, getattr(n, "lineno", "?"), f.qual)
        for n in body_nodes:
            if isinstance(n, ast.Global) and f.module.name in modules:
                for name in n.names:
                    R.bad(rule_id, "%s|global %s" % (f.qual, name), wh(n), "`global %s`: a function rebinds module-level state, so results depend on call history" % name)
            tgts = []
            if isinstance(n, ast.Assign):
                tgts = list(n.targets)
            elif isinstance(n, (ast.AugAssign, ast.AnnAssign)):
                tgts = [n.target]
            elif isinstance(n, ast.Delete):
                tgts = list(n.targets)
            for t in tgts:
                for tt in (ast.walk(t) if isinstance(t, (ast.Tuple, ast.List)) else [t]):
                    if isinstance(tt, (ast.Attribute, ast.Subscript)):
                        r = root_name(tt)
                        if r is None:
                            continue
                        for g in sorted(gl(r)):
                            if g in allow:
                                continue
                            R.bad(rule_id, "%s|store %s.%s" % (f.qual, g[0], g[1]), wh(n), "`%s` writes into module-level object %s.%s%s: state shared by every caller" % (ntext(n)[:90], g[0], g[1], "" if r == g[1] else " (through local alias `%s`)" % r))
                        # function attribute
                        if isinstance(tt, ast.Attribute) and isinstance(tt.value, ast.Name) and tt.value.id not in T.locals.get(f.qual, ()):
                            q = "%s.%s" % (f.module.name, tt.value.id)
                            if q in P.funcs and f.module.name in modules:
                                R.bad(rule_id, "%s|funcattr %s" % (f.qual, tt.value.id), wh(n), "stores state on function object %s" % q)
            if isinstance(n, ast.AugAssign) and isinstance(n.target, ast.Name) and isinstance(n.op, (ast.BitOr, ast.Add, ast.BitAnd, ast.Sub, ast.BitXor, ast.Mult)):
                # `alias |= other`, `alias += other` update a dict / list / set in place: the object the name is bound to changes
                for g in sorted(gl(n.target.id)):
                    if g in allow:
                        continue
                    val = watch.get(g)
                    if isinstance(val, (ast.Dict, ast.List, ast.Set, ast.DictComp, ast.ListComp, ast.SetComp, ast.Call)):
                        R.bad(rule_id, "%s|augassign %s.%s" % (f.qual, g[0], g[1]), wh(n), "`%s` updates module-level object %s.%s in place%s: state shared by every caller" % (ntext(n)[:90], g[0], g[1], "" if n.target.id == g[1] else " (through local alias `%s`)" % n.target.id))
            if isinstance(n, ast.Call):
                if isinstance(n.func, ast.Attribute) and n.func.attr in MUTATORS:
                    r = _root(n.func.value)
                    if r is not None:
                        for g in sorted(gl(r)):
                            if g in allow:
                                continue
                            R.bad(rule_id, "%s|%s %s.%s" % (f.qual, n.func.attr, g[0], g[1]), wh(n), "`%s` mutates module-level object %s.%s%s" % (ntext(n)[:90], g[0], g[1], "" if r == g[1] else " (through local alias `%s`)" % r))
                for callee, bound in T.resolve(n):
                    params = callee.params[1:] if bound else callee.params
                    for i, a in enumerate(n.args):
                        if i < len(params) and eff.mutates(callee, params[i]) and _is_ref_expr(a):
                            r = _root(a)
                            for g in sorted(gl(r)) if r else ():
                                if g in allow:
                                    continue
                                R.bad(rule_id, "%s|arg %s.%s -> %s" % (f.qual, g[0], g[1], callee.qual), wh(n), "`%s` hands module-level object %s.%s to %s, which mutates that parameter" % (ntext(n)[:90], g[0], g[1], callee.qual))
                    if bound and isinstance(n.func, ast.Attribute) and callee.params and eff.mutates(callee, callee.params[0]):
                        r = _root(n.func.value)
                        for g in sorted(gl(r)) if r else ():
                            if g in allow:
                                continue
                            R.bad(rule_id, "%s|method %s on %s.%s" % (f.qual, callee.qual, g[0], g[1]), wh(n), "`%s` calls %s, which mutates its receiver, on module-level object %s.%s" % (ntext(n)[:90], callee.qual, g[0], g[1]))
        n_checked += 1
        # mutable default arguments
        if f.module.name in modules:
            for p, d in f.defaults.items():
                if isinstance(d, (ast.Dict, ast.List, ast.Set, ast.Call, ast.ListComp, ast.DictComp)) and not (isinstance(d, ast.Call) and ntext(d.func) in ("tuple", "frozenset", "str", "int", "float")):
                    stored = False
                    for n in body_nodes:
                        if isinstance(n, ast.Assign) and isinstance(n.value, ast.Name) and n.value.id == p and any(isinstance(t, ast.Attribute) for t in n.targets):
                            stored = True
                        if isinstance(n, ast.Call) and any(isinstance(a, ast.Name) and a.id == p for a in n.args) and not (isinstance(n.func, ast.Name) and n.func.id in COPY_CALLS):
                            stored = True
                    if eff.mutates(f, p) or stored:
                        R.bad(rule_id, "%s|default %s" % (f.qual, p), wh(f.node), "mutable default argument `%s=%s` is mutated or retained: one object shared by all calls" % (p, ntext(d)[:40]))
                    else:
                        R.ok(rule_id, "%s|default %s" % (f.qual, p), wh(f.node), "mutable default argument is neither mutated nor retained")
            for dec in getattr(f.node, "decorator_list", []):
                dn = ntext(dec)
                if any(k in dn for k in ("lru_cache", "cached_property", "functools.cache", "memoize")) or dn in ("cache",):
                    if f.cls is not None:
                        R.bad(rule_id, "%s|%s" % (f.qual, dn), wh(f.node), "memoising decorator on a method of a mutable class: results can go stale when the instance changes")
                    else:
                        R.ok(rule_id, "%s|%s" % (f.qual, dn), wh(f.node), "memoised module-level function (noted)")
    R.ok(rule_id + ".inventory", "functions scanned for module-level mutation: %d; watched objects: %d" % (n_checked, len(watch)), "", ", ".join("%s.%s" % k for k in sorted(watch)), nontrivial=False)
    # 3: class-level mutable attributes
    for c in P.classes.values():
        if c.module.name not in modules:
            continue
        for st in c.node.body:
            if isinstance(st, ast.Assign) and isinstance(st.value, (ast.Dict, ast.List, ast.Set, ast.Call, ast.ListComp, ast.DictComp)):
                for t in st.targets:
                    if not isinstance(t, ast.Name):
                        continue
                    name = t.id
                    hits = []
                    for m in P.funcs.values():
                        nodes = list(walk_local(m.node))
                        # locals bound to the class-level object itself:  attrib = self.dot_attrib
                        aliases = set()
                        for n in nodes:
                            if isinstance(n, ast.Assign) and len(n.targets) == 1 and isinstance(n.targets[0], ast.Name) and isinstance(n.value, ast.Attribute) and n.value.attr == name and isinstance(n.value.value, ast.Name):
                                aliases.add(n.targets[0].id)
                        for n in nodes:
                            base = None
                            if isinstance(n, ast.Call) and isinstance(n.func, ast.Attribute) and n.func.attr in MUTATORS:
                                base = n.func.value
                            elif isinstance(n, (ast.Assign, ast.AugAssign, ast.Delete)):
                                for tt in (n.targets if not isinstance(n, ast.AugAssign) else [n.target]):
                                    if isinstance(tt, ast.Subscript):
                                        base = tt.value
                            if isinstance(base, ast.Name) and base.id in aliases:
                                base = ast.Attribute(value=ast.Name(id="self", ctx=ast.Load()), attr=name, ctx=ast.Load())
                            if isinstance(base, ast.Attribute) and base.attr == name and isinstance(base.value, ast.Name):
                                # self.X / cls.X / Class.X
                                rebinds = any(isinstance(k, ast.Assign) and any(isinstance(z, ast.Attribute) and z.attr == name and isinstance(z.value, ast.Name) and z.value.id == "self" for z in k.targets) for mm in c.methods.values() for k in ast.walk(mm.node))
                                if not rebinds:
                                    hits.append((m, n))
                    if hits:
                        m, n = hits[0]
                        R.bad(rule_id, "%s|classattr %s" % (c.qual, name), "%s:%s (%s)" % (m.module.path, n.lineno, m.qual), "class-level mutable attribute %s.%s is mutated through instances: one object shared by every instance" % (c.name, name))
                    else:
                        R.ok(rule_id, "%s|classattr %s" % (c.qual, name), "%s:%s" % (c.module.path, st.lineno), "class-level attribute is never mutated")
    # 7: instance state tables
    for cq, allowed in (classes or {}).items():
        c = P.cls(cq)
        written = {}
        read = set()
        for k in P.subclasses(c):
            for m in P.funcs.values():
                g = m
                while g is not None and g.cls is None:
                    g = g.parent
                if g is None or g.cls is not k:
                    continue
                selfn = g.params[0] if g.params else None
                if selfn is None:
                    continue
                for n in ast.walk(m.node):
                    if isinstance(n, ast.Attribute) and isinstance(n.value, ast.Name) and n.value.id == selfn:
                        if isinstance(n.ctx, ast.Store):
                            written.setdefault(n.attr, (m, n))
                        elif isinstance(n.ctx, ast.Load):
                            par = getattr(n, "_parent", None)
                            if isinstance(par, ast.Call) and par.func is n:
                                continue
                            read.add(n.attr)
        # a declared attribute that no longer exists under its name may have been renamed: an undeclared attribute that the
        # constructor initialises takes its place (one for one)
        vanished = sorted(a for a in allowed if a not in written and a not in read)
        init_written = set()
        for k in P.subclasses(c):
            init = P.method(k, "__init__")
            if init is not None and init.params:
                for n in ast.walk(init.node):
                    if isinstance(n, ast.Attribute) and isinstance(n.value, ast.Name) and n.value.id == init.params[0] and isinstance(n.ctx, ast.Store):
                        init_written.add(n.attr)
        renamed = {}
        for attr in sorted(written):
            if attr not in allowed and attr in read and attr in init_written and vanished:
                renamed[attr] = vanished.pop(0)
        for attr, (m, n) in sorted(written.items()):
            if attr in renamed:
                R.ok(rule_id, "%s|attr %s" % (cq, attr), "%s:%s (%s)" % (m.module.path, n.lineno, m.qual), "initialised by the constructor; takes the place of the declared attribute `%s`, which no longer exists (renamed)" % renamed[attr], nontrivial=False)
            elif attr in allowed:
                R.ok(rule_id, "%s|attr %s" % (cq, attr), "%s:%s (%s)" % (m.module.path, n.lineno, m.qual), "declared state of %s" % c.name, nontrivial=False)
            elif attr not in read:
                R.ok(rule_id, "%s|attr %s" % (cq, attr), "%s:%s (%s)" % (m.module.path, n.lineno, m.qual), "written but never read", nontrivial=False)
            else:
                R.bad(rule_id, "%s|attr %s" % (cq, attr), "%s:%s (%s)" % (m.module.path, n.lineno, m.qual), "`self.%s` is state outside %s's declared attributes %s that is read back later: a value that survives from one call to the next (cache / stale copy)" % (attr, c.name, sorted(allowed)))
