"""C13 — linear ticks are round, evenly spaced, complete, in-domain, uniquely labelled."""
import ast
from fractions import Fraction

from .util import *
from . import state as statepack

EXPLANATION = (
    "d3_scale_linearTickRange is translated by gated value numbering into a decision tree over the error thresholds "
    "whose leaves are [start, stop, step] normal forms (for both orderings of the domain, the default count and a "
    "symbolic count).  Per leaf: the step is 10^floor(log10(span/m)) times one factor of {1,2,5,10} (C13.P125); from "
    "the thresholds read out of the tree and err in (0.1,1] the tick-count ratio interval must lie within [0.57,1.43] "
    "(C13.COUNT, interval arithmetic on source constants); start == ceil(lo/step)*step and stop == floor(hi/step)*step "
    "+ c*step with 1e-6 <= c <= 1-1e-6 (C13.RANGE); the generator yields r, then r += step, while r < stop "
    "(C13.GEN); the default count is 10 (C13.DEFAULT-M); the extent helper returns an ascending pair for all "
    "orderings (C13.EXTENT); the label precision is max(0, -floor(log10(step)+c)) with c < 0.301 and the formatter "
    "is a fixed-point format with that many decimals computed from the same tick range (C13.PRECISION); ticks() and "
    "tickFormat() recompute from the current domain on every call: no cached tick state (C13.STATE).  Float drift "
    "of the accumulating generator and read-back accuracy are not decided."
)
ASSUMPTIONS = ["math.floor/ceil/log are the mathematical functions", "span >= a millionth of the end-point magnitude (property domain)"]

TR = "scale.d3_scale_linearTickRange"


def tick_tree(ctx, order="lt", m=None):
    P = ctx.P
    ev = new_eval(P)
    a, b = Opaque("a"), Opaque("b")
    ev.assume_order(a, b, order)
    f = P.func(TR)
    st = ev.new_state(f)
    mv = Opaque("m") if m is None else m
    if m is None:
        ev.assume("cmp(is, m, None)", False)
    r = ev.call_closure(Closure(f, None), [Seq("list", [a, b]), mv], {}, st)
    return ev, r


def pow10_atom(step):
    """If step == k * P with P a pow(10, .) atom, return (k, P atom) else None."""
    if not step.is_poly() or len(step.n.t) != 1:
        return None
    (mono, c), = step.n.t.items()
    c = c / step.d.const_value()
    if len(mono) != 1 or mono[0][1] != 1:
        return None
    atom = mono[0][0]
    if isinstance(atom, tuple) and atom[0] == "pow" and atom[1] == "10":
        return c, atom
    return None


@rule("C13.TICKRANGE")
def tickrange(ctx, R):
    P = ctx.P
    f = P.func(TR)
    R.saw(f, P.func("scale.d3_scaleExtent"))
    for order in ("lt", "gt"):
        ev, tree = tick_tree(ctx, order)
        lo, hi = (A("a"), A("b")) if order == "lt" else (A("b"), A("a"))
        span = hi - lo
        m = A("m")
        # expected power of ten (either spelling of log10)
        st = ev.new_state(module="scale")
        st.env.vars.update({"span": span, "m": m})
        exps = [as_num(pexpr(ev, st, "pow(10, math.floor(math.log(span / m) / math.log(10)))")), as_num(pexpr(ev, st, "pow(10, math.floor(math.log10(span / m)))"))]
        exps_atoms = []
        for e in exps:
            pa = pow10_atom(e)
            exps_atoms.append(pa[1] if pa else None)
        n_leaves = 0
        # The tree branches only on comparisons of err = m/span * 10^floor(log10(span/m)) with constants (whatever their
        # boolean structure: elif chains, a table scanned with break, ...).  err lies in (0.1, 1]; the constants cut
        # that range into elementary pieces (each threshold itself, and each open interval between two thresholds); on
        # each piece every comparison has a definite value, so the tree is evaluated concretely there.
        want_err = [m * Num.atom(x) / span for x in exps_atoms if x is not None]
        thresholds = set()
        err_ok = [True]

        def scan(t):
            if isinstance(t, tuple):
                if t[0] == "cmp" and t[1] in ("le", "lt", "ge", "gt", "eq", "ne"):
                    l, r = as_num(t[2]), as_num(t[3])
                    if l is not None and r is not None:
                        if r.is_const() and any(l.equals(w) for w in want_err):
                            thresholds.add(r.const_value())
                            return
                        if l.is_const() and any(r.equals(w) for w in want_err):
                            thresholds.add(l.const_value())
                            return
                        if (r.is_const() and not l.is_const()) or (l.is_const() and not r.is_const()):
                            other = l if r.is_const() else r
                            if "pow" in other.key() and not any(other.equals(w) for w in want_err):
                                err_ok[0] = False
                for x in t[1:]:
                    scan(x)

        def conds_of(v):
            if isinstance(v, Phi):
                if isinstance(v.cond, Cond):
                    scan(v.cond.tree)
                conds_of(v.a)
                conds_of(v.b)
            elif isinstance(v, Seq):
                for x in v.items:
                    conds_of(x)

        conds_of(tree)

        def ceval(t, e):
            """Value of a condition tree for err == e (Fraction); None if it does not depend on err alone."""
            if isinstance(t, tuple):
                if t[0] == "not":
                    v = ceval(t[1], e)
                    return None if v is None else not v
                if t[0] in ("and", "or"):
                    vs = [ceval(x, e) for x in t[1:]]
                    if t[0] == "and":
                        return False if any(v is False for v in vs) else (None if any(v is None for v in vs) else True)
                    return True if any(v is True for v in vs) else (None if any(v is None for v in vs) else False)
                if t[0] == "cmp":
                    l, r = as_num(t[2]), as_num(t[3])
                    if l is None or r is None:
                        return None
                    lv = e if any(l.equals(w) for w in want_err) else (l.const_value() if l.is_const() else None)
                    rv = e if any(r.equals(w) for w in want_err) else (r.const_value() if r.is_const() else None)
                    if lv is None or rv is None:
                        # the degenerate test span == 0 is false here
                        if t[1] == "eq" and ((l.is_const() and l.const_value() == 0) or (r.is_const() and r.const_value() == 0)):
                            return False
                        if t[1] == "ne" and ((l.is_const() and l.const_value() == 0) or (r.is_const() and r.const_value() == 0)):
                            return True
                        return None
                    return {"lt": lv < rv, "le": lv <= rv, "gt": lv > rv, "ge": lv >= rv, "eq": lv == rv, "ne": lv != rv}[t[1]]
            return None

        def select(v, e):
            while isinstance(v, Phi):
                c = ceval(v.cond.tree, e) if isinstance(v.cond, Cond) else (bool(v.cond.v) if isinstance(v.cond, Const) else None)
                if c is None:
                    return None
                v = v.a if c else v.b
            if isinstance(v, Seq):
                items = [select(x, e) for x in v.items]
                if any(x is None for x in items):
                    return None
                return Seq(v.kind, items)
            return v

        cuts = sorted(t_ for t_ in thresholds if Fraction(1, 10) < t_ < 1)
        pieces = []  # (lo, hi, closed_hi, sample)
        prev = Fraction(1, 10)
        for t_ in cuts + [Fraction(1)]:
            pieces.append((prev, t_, False, (prev + t_) / 2))
            pieces.append((t_, t_, True, t_))
            prev = t_
        groups = []  # merged pieces with the same leaf: [elo, ehi, leaf]
        undecided_piece = False
        for lo_, hi_, pt, sample in pieces:
            leaf = select(tree, sample)
            if leaf is None:
                undecided_piece = True
                continue
            if groups and key(groups[-1][2]) == key(leaf):
                groups[-1][1] = hi_
            else:
                groups.append([lo_, hi_, leaf])
        if undecided_piece:
            R.undecided("C13.TICKRANGE", "%s decision tree" % order, where(f), "the tick range branches on something other than comparisons of the error ratio with constants")
        R.check(err_ok[0], "C13.COUNT", "%s err" % order, where(f), "thresholds compare m/span*10^k", "a threshold test is not on err = m/span*10^floor(log10(span/m))")
        for elo, ehi, leaf in groups:
            if not isinstance(leaf, Seq) or len(leaf.items) != 3:
                R.bad("C13.RANGE", "%s leaf %s" % (order, show(leaf, 80)), where(f), "tick range is not a (start, stop, step) triple: %s" % show(leaf))
                continue
            start, stop, step = (as_num(x) for x in leaf.items)
            if start is None or stop is None or step is None:
                R.bad("C13.RANGE", "%s leaf" % order, where(f), "non-numeric tick range %s" % show(leaf))
                continue
            n_leaves += 1
            pk = pow10_atom(step)
            tag = "%s err in (%s, %s]" % (order, elo, ehi)
            ok125 = pk is not None and pk[1] in exps_atoms and pk[0] in (1, 2, 5, 10)
            R.check(ok125, "C13.P125", tag, where(f), "step = %s * 10^floor(log10(span/m))" % (pk[0] if pk else "?"), "step %s is not {1,2,5,10} x 10^floor(log10(span/m))" % step.key())
            if ok125:
                k = pk[0]
                rlo, rhi = 1 / (k * ehi), 1 / (k * elo)
                R.check(
                    rlo >= Fraction(57, 100) and rhi <= Fraction(143, 100), "C13.COUNT", tag + " ratio", where(f),
                    "count/m in [%.3f, %.3f) within [0.57, 1.43]" % (rlo, rhi),
                    "with factor %s and err in (%s, %s] the tick count is between %.3f*m and %.3f*m: outside [0.57*m, 1.43*m]" % (k, elo, ehi, rlo, rhi),
                )
            exp_start = Num.atom(("ceil", (lo / step).key())) * step
            R.check(start.equals(exp_start), "C13.RANGE", tag + " start", where(f), "start == ceil(lo/step)*step", "start is %s, expected ceil(lo/step)*step" % start.key())
            base = Num.atom(("floor", (hi / step).key())) * step
            c = (stop - base) / step
            okc = c.is_const() and Fraction(1, 10**6) <= c.const_value() <= 1 - Fraction(1, 10**6)
            R.check(
                okc, "C13.RANGE", tag + " stop", where(f), "stop == floor(hi/step)*step + %s*step" % (c.const_value() if c.is_const() else "?"),
                "stop is %s: not floor(hi/step)*step + c*step with 0 < c < 1 (c = %s); the last in-domain multiple is dropped or a tick beyond the domain admitted" % (stop.key(), c.key()),
            )
        R.check(n_leaves >= 4, "C13.P125", "%s leaves=%d" % (order, n_leaves), where(f), "four step choices", "only %d step choices (expected 1,2,5,10)" % n_leaves, nontrivial=False)


@rule("C13.DEFAULT-M")
def default_m(ctx, R):
    P = ctx.P
    f = P.func(TR)
    ev1, t1 = tick_tree(ctx, "lt", m=NONE)
    ev2, t2 = tick_tree(ctx, "lt", m=C(10))
    R.check(key(t1) == key(t2), "C13.DEFAULT-M", TR, where(f), "tickRange(domain, None) == tickRange(domain, 10)", "the default tick count is not 10: %s" % show(t1, 200))
    # LinearScale.ticks / tickFormat default m is None and is passed through
    for meth in ("ticks", "tickFormat"):
        g = P.func("scale.LinearScale." + meth)
        d = g.defaults.get(g.params[1]) if len(g.params) > 1 else None  # the count is the first parameter after the receiver
        R.check(d is not None and const_value(d) in (None, 10) and isinstance(d, ast.Constant), "C13.DEFAULT-M", g.qual, where(g), "default count is None (-> 10) or 10", "default count of %s is %s" % (g.qual, ntext(d) if d is not None else "required"))


@rule("C13.EXTENT")
def extent(ctx, R):
    P = ctx.P
    f = P.func("scale.d3_scaleExtent")
    R.saw(f)
    for order, want in (("lt", ["a", "b"]), ("gt", ["b", "a"]), ("eq", None)):
        ev = new_eval(P)
        ev.assume_order(Opaque("a"), Opaque("b"), order)
        st = ev.new_state(f)
        r = ev.call_closure(Closure(f, None), [Seq("list", [Opaque("a"), Opaque("b")])], {}, st)
        ok = isinstance(r, Seq) and len(r.items) == 2 and (want is None or [key(x) for x in r.items] == want)
        if want is None and ok:
            ok = {key(x) for x in r.items} <= {"a", "b"}
        R.check(ok, "C13.EXTENT", "order %s" % order, where(f), "extent is ascending", "for ordering a %s b the extent is %s" % (order, show(r)))
    # the input list must not be mutated
    from ..effects import Effects

    eff = ctx.get("effects", lambda: Effects(P, ctx.cg.resolver()))
    R.check(not eff.mutates(f, f.params[0]), "C13.EXTENT", "no mutation of the domain", where(f), "d3_scaleExtent does not mutate its argument", "d3_scaleExtent mutates the domain list it is given")


@rule("C13.GEN")
def gen(ctx, R):
    """drange(start, stop, step): yield r; r += step; while r < stop.  linearTicks feeds it the tick range."""
    P = ctx.P
    f = P.func("scale.drange")
    R.saw(f)
    from ..normalise import desugar_itertools

    fbody, _ = desugar_itertools(f.node.body)  # takewhile(accumulate(repeat(step), initial=start)) is the same loop
    ws = [n for n in fbody if isinstance(n, ast.While)]
    ok = False
    detail = "no while loop"
    if len(ws) == 1:
        w = ws[0]
        start_p, stop_p = f.params[0], f.params[1]
        step_p = f.params[2] if len(f.params) > 2 else None
        t = w.test
        var = None
        if isinstance(t, ast.Compare) and len(t.ops) == 1 and isinstance(t.ops[0], (ast.Lt, ast.LtE)) and isinstance(t.left, ast.Name) and isinstance(t.comparators[0], ast.Name) and t.comparators[0].id == stop_p:
            var = t.left.id
        elif isinstance(t, ast.Compare) and len(t.ops) == 1 and isinstance(t.ops[0], (ast.Gt, ast.GtE)) and isinstance(t.comparators[0], ast.Name) and isinstance(t.left, ast.Name) and t.left.id == stop_p:
            var = t.comparators[0].id
        if var is None:
            detail = "loop test `%s` is not `r < stop`" % ntext(t)
        else:
            inits = [s for s in fbody if isinstance(s, ast.Assign) and len(s.targets) == 1 and isinstance(s.targets[0], ast.Name) and s.targets[0].id == var]
            init_ok = len(inits) == 1 and isinstance(inits[0].value, ast.Name) and inits[0].value.id == start_p and fbody.index(inits[0]) < fbody.index(w)
            body = w.body
            ys = [i for i, s in enumerate(body) if isinstance(s, ast.Expr) and isinstance(s.value, ast.Yield) and isinstance(s.value.value, ast.Name) and s.value.value.id == var]
            incs = [i for i, s in enumerate(body) if (isinstance(s, ast.AugAssign) and isinstance(s.op, ast.Add) and isinstance(s.target, ast.Name) and s.target.id == var and isinstance(s.value, ast.Name) and s.value.id == step_p)
                    or (isinstance(s, ast.Assign) and len(s.targets) == 1 and isinstance(s.targets[0], ast.Name) and s.targets[0].id == var and ntext(s.value) in ("%s + %s" % (var, step_p), "%s + %s" % (step_p, var)))]
            ok = init_ok and len(ys) == 1 and len(incs) == 1 and ys[0] < incs[0] and len(body) == 2
            detail = "init=%s yields=%s increments=%s body=%d statements" % (init_ok, ys, incs, len(body))
    R.check(ok, "C13.GEN", f.qual, where(f), "r = start; while r < stop: yield r; r += step", "tick generator is not the accumulate-while-below-stop loop (%s)" % detail)
    # linearTicks = drange(*tickRange(domain, m))
    g = P.func("scale.d3_scale_linearTicks")
    R.saw(g)
    ev = new_eval(P, inline_filter=lambda fn: fn.qual not in ("scale.drange", TR))
    st = ev.new_state(g)
    r = ev.call_closure(Closure(g, None), [Opaque("domain"), Opaque("m")], {}, st)
    k = key(r)
    tr = "%s(domain, m)" % TR
    accepted = {"scale.drange(*%s)" % tr, "<fn scale.drange>(*%s)" % tr, "scale.drange(%s[0], %s[1], %s[2])" % (tr, tr, tr)}
    R.check(k in accepted, "C13.GEN", g.qual, where(g), "ticks = drange(*tickRange(domain, m))", "d3_scale_linearTicks returns %s: the ticks are post-processed or not generated from the tick range" % show(r))
    h = P.func("scale.LinearScale.ticks")
    ev = new_eval(P, inline_filter=lambda fn: fn.qual != g.qual)
    st = ev.new_state(h)
    s = Opaque("self", cls=P.cls("scale.LinearScale"), kind="obj")
    r = ev.call_closure(Closure(h, None, selfv=s), [Opaque("m")], {}, st)
    R.check(key(r) == "%s(self._domain, m)" % g.qual, "C13.GEN", h.qual, where(h), "LinearScale.ticks(m) = linearTicks(self._domain, m)", "LinearScale.ticks returns %s" % show(r))


@rule("C13.PRECISION")
def precision(ctx, R):
    P = ctx.P
    f = P.func("scale.d3_scale_linearPrecision")
    R.saw(f)
    ev = new_eval(P)
    ev.assume("truth(value)", True)
    st = ev.new_state(f)
    r = as_num(ev.call_closure(Closure(f, None), [Opaque("value")], {}, st))
    ok = False
    detail = "precision is %s" % (r.key() if r is not None else "?")
    if r is not None:
        neg = -r
        ats = neg.atoms()
        if len(ats) == 1 and neg.equals(Num.atom(next(iter(ats)))):
            a = next(iter(ats))
            if isinstance(a, tuple) and a[0] == "floor":
                st2 = ev.new_state(module="scale")
                st2.env.vars["value"] = Opaque("value")
                for form in ("math.log(value) / math.log(10)", "math.log10(value)"):
                    base = as_num(pexpr(ev, st2, form))
                    # a[1] is the key of the floor argument; try constants c on a grid read from the source
                    for cnode in [n for n in ast.walk(f.node) if isinstance(n, ast.Constant) and isinstance(n.value, (int, float)) and not isinstance(n.value, bool)] + [None]:
                        for sign in (1, -1):
                            c = C(0) if cnode is None else C(cnode.value) * C(sign)
                            if (base + c).key() == a[1]:
                                cv = c.const_value()
                                ok = Fraction(-2) < cv < Fraction(301, 1000)
                                detail = "precision = -floor(log10(value) + %s)" % cv
    R.check(ok, "C13.PRECISION", f.qual, where(f), detail, detail + ": not -floor(log10(step) + c) with c < 0.301 (steps 5*10^k would lose a decimal and tick texts collide)")
    # tickFormat: decimals = max(0, precision(tickRange(domain, m)[2])), format ".{decimals}f"
    g = P.func("scale.d3_scale_linearTickFormat")
    R.saw(g)
    seen = {}

    def hook(fv, args, kwargs, node, st_):
        if isinstance(fv, Closure) and fv.func.qual == TR:
            seen["args"] = [key(a) for a in args]
            return Seq("list", [Opaque("lo"), Opaque("hi"), Opaque("STEP")])
        if isinstance(fv, Closure) and fv.func.qual == f.qual:
            seen["prec_arg"] = key(args[0]) if args else None
            return Num.atom("PREC")
        return None

    ev = new_eval(P, on_call=hook)
    st = ev.new_state(g)
    r = ev.call_closure(Closure(g, None), [Opaque("domain"), Opaque("m")], {}, st)
    ok = seen.get("args") == ["domain", "m"] and seen.get("prec_arg") == "STEP"
    R.check(ok, "C13.PRECISION", g.qual + " inputs", where(g), "precision is computed from the step of tickRange(domain, m)", "tickFormat computes precision from %s of tickRange(%s)" % (seen.get("prec_arg"), seen.get("args")))
    okf = False
    detail = show(r)
    if isinstance(r, Closure):
        # the closure formats x with a template "{:.<decimals>f}"
        fm = None
        e = r.env
        for v in (e.vars.values() if e is not None else []):
            if isinstance(v, Template):
                fm = v
        if fm is not None:
            k = key(fm)
            dec = as_num(pexpr(ev, _st_with(ev, {"PREC": Num.atom("PREC")}), "max(0, PREC)"))
            want_holes = [dec.key()]
            lits = "".join(p[1] for p in fm.parts if p[0] == "lit")
            holes = [p for p in fm.parts if p[0] == "hole"]
            flat = []
            for h in holes:
                v = h[1]
                while isinstance(v, Template) and len(v.parts) == 1 and v.parts[0][0] == "hole":
                    v = v.parts[0][1]
                if isinstance(v, Template):
                    lits2 = "".join(p[1] for p in v.parts if p[0] == "lit")
                    hs = [p for p in v.parts if p[0] == "hole"]
                    flat.append((lits2, [key(_unwrap(x[1])) for x in hs]))
                else:
                    flat.append(("", [key(v)]))
            text = _flatten_template(fm)
            okf = text == "{:.<%s>f}" % dec.key()
            detail = "format template %s" % text
            if okf:
                # the label is exactly that format applied to the tick: nothing is stripped or appended afterwards
                applied = ev.call(r, [Opaque("X")], {}, st)
                ka = key(applied)
                okf = ka == "%s.format(X)" % key(fm) or (isinstance(applied, Template) and _flatten_template(applied) == text.replace("{", "").replace("}", ""))
                if not okf:
                    detail = "label(x) is %s, not the plain fixed-point format of x" % show(applied, 160)
        if fm is None:
            # no stored template: the closure may format the tick with an f-string whose spec carries the decimals
            dec = as_num(pexpr(ev, _st_with(ev, {"PREC": Num.atom("PREC")}), "max(0, PREC)"))
            applied = ev.call(r, [Opaque("X")], {}, st)
            if isinstance(applied, Template) and len(applied.parts) == 1 and applied.parts[0][0] == "hole":
                h = applied.parts[0]
                okf = key(h[1]) == "X" and h[2] == "f:.<%s>f" % dec.key()
                detail = "label(x) formats %s with spec %s" % (key(h[1]), h[2])
            else:
                detail = "label(x) is %s" % show(applied, 160)
    R.check(okf, "C13.PRECISION", g.qual + " format", where(g), "labels are '{:.<max(0,precision)>f}'", "tick labels are not fixed-point with max(0, precision) decimals: %s" % detail)
    h = P.func("scale.LinearScale.tickFormat")
    ev = new_eval(P, inline_filter=lambda fn: fn.qual != g.qual)
    st = ev.new_state(h)
    s = Opaque("self", cls=P.cls("scale.LinearScale"), kind="obj")
    r = ev.call_closure(Closure(h, None, selfv=s), [Opaque("m")], {}, st)
    R.check(key(r).startswith("%s(self._domain, m" % g.qual), "C13.PRECISION", h.qual, where(h), "LinearScale.tickFormat(m) uses the current domain and the same m", "LinearScale.tickFormat returns %s" % show(r))


def _st_with(ev, vars):
    st = ev.new_state(module="scale")
    st.env.vars.update(vars)
    return st


def _unwrap(v):
    while isinstance(v, Template) and len(v.parts) == 1 and v.parts[0][0] == "hole":
        v = v.parts[0][1]
    return v


def _flatten_template(t):
    out = []
    for p in t.parts:
        if p[0] == "lit":
            out.append(p[1])
        else:
            v = p[1]
            if isinstance(v, Template):
                out.append(_flatten_template(v))
            else:
                out.append("<%s>" % key(v))
    return "".join(out)


@rule("C13.STATE")
def state_rule(ctx, R):
    statepack.no_hidden_state(ctx, R, "C13.STATE", modules=["scale"], classes={
        "scale.LinearScale": {"_domain", "_range", "_clamp", "_interpolate", "_output", "_input"},
    })


RULES = [tickrange, default_m, extent, gen, precision, state_rule]
