"""C17 — calendar intervals round instants correctly."""
import ast

from .util import *
from . import state as statepack
from .c14 import ceil_rule
from .c18 import tzapi_time as tzapi

EXPLANATION = (
    "The seven registry entries d3_time[unit] = d3_time_interval(floor, step, number) are resolved through the "
    "module-level initialisers and each closure is value-numbered for a symbolic instant (C17.UNITTABLE, sibling "
    "consistency): second/minute/hour floor == milli2dt(floor(ms/U)*U) and step == milli2dt(ms + floor(k)*U) with U "
    "the unit's milliseconds; day floor == datetime(y,m,d), step == t + timedelta(days=floor(k)); week floor == day "
    "floor - timedelta(days = weekday counted from Sunday), step == t + timedelta(days=7*floor(k)); month floor == "
    "day floor .replace(day=1), year floor == .replace(month=1, day=1), year step == replace(year=year+k); number "
    "reads the unit's own field.  Month stepping must be one of two recognised carry idioms (C17.MONTHSTEP).  "
    "interval.ceil == step(floor(t-1ms),1) (C14.CEIL), round returns floor iff t-d0 < d1-t else d1 with d1 = "
    "step(d0,1) (C17.ROUND), offset == step (C17.OFFSET), range starts at ceil(t0), appends while time < t1 (strict), "
    "advances by step(time,1), filters number(time) % dt == 0 iff dt > 1 (C17.RANGE); every replace(month=/year=) that "
    "keeps the day of month receives only floor/step results (C17.CALFIELD); no zone-sensitive entry point (C18.TZAPI) "
    "and no state shared between units or calls (C17.STATE).  Week numbers / day-of-year values are not decided."
    "  C17.RANGE is decided after generator fusion when the enumeration lives in a generator helper; C17.CALFIELD follows a step applied to a helper's parameter to the helper's call sites."
)
ASSUMPTIONS = ["offset()/step are applied to unit boundaries (property statement: 'stepping a boundary')"]

UNIT_MS = {"second": 1000, "minute": 60000, "hour": 3600000}
UNITS = ["second", "minute", "hour", "day", "week", "month", "year"]
IV = "d3_time.d3_time_interval"
NOINL = ("d3_time.dt2milli", "d3_time.milli2dt")


def registry_closures(ctx):
    def build():
        P = ctx.P
        ev = new_eval(P, opaque=list(NOINL))
        reg = ev.resolve_global("d3_time", "d3_time")
        st = ev.new_state(module="d3_time")
        out = {}
        if not isinstance(reg, DictV):
            raise Undecided("d3_time registry is not a dict built by subscript assignment: %s" % show(reg))
        for u in UNITS:
            o = reg.items.get(u)
            if not isinstance(o, Opaque) or o.cls is None or o.cls.qual != IV:
                raise AnchorMissing("d3_time[%r] interval" % u)
            out[u] = {a: st.heap.get((o.text, a)) for a in ("_local", "_step", "_number")}
            out[u]["obj"] = o
        return ev, st, reg, out

    return ctx.get("d3reg", build)


def _exp(ev, src, **vars):
    st = ev.new_state(module="d3_time")
    st.env.vars.update(vars)
    return pexpr(ev, st, src)


@rule("C17.UNITTABLE")
def unittable(ctx, R):
    P = ctx.P
    ev, st, reg, cl = registry_closures(ctx)
    mod = P.module("d3_time")
    t = Opaque("t", kind="obj")
    k = Num.atom("k")

    def call(u, a, *args):
        c = cl[u][a]
        if c is None:
            return None
        return ev.call(c, list(args), {}, st)

    def wh(u, a):
        c = cl[u][a]
        if isinstance(c, Closure):
            R.saw(c.func)
            return where(c.func)
        return mod.path

    day_floor = "datetime(t.year, t.month, t.day)"
    expect = {}
    for u, U in UNIT_MS.items():
        expect[u] = {
            "_local": ["milli2dt(math.floor(dt2milli(t) / %d) * %d)" % (U, U)],
            "_step": ["milli2dt(dt2milli(t) + math.floor(k) * %d)" % U, "milli2dt(dt2milli(t) + k * %d)" % U, "t + timedelta(milliseconds=math.floor(k) * %d)" % U, "t + timedelta(seconds=math.floor(k) * %d)" % (U // 1000)],
            "_number": ["t.%s" % u],
        }
    expect["day"] = {"_local": [day_floor, "t.replace(hour=0, minute=0, second=0, microsecond=0)"], "_step": ["t + timedelta(days=math.floor(k))", "t + timedelta(days=k)"], "_number": ["t.day - 1"]}
    wd = ["(t.isoweekday() % 7 + 7) % 7", "t.isoweekday() % 7", "(t.weekday() + 1) % 7"]
    expect["week"] = {"_local": ["%s - timedelta(days=%s)" % (day_floor, w) for w in wd], "_step": ["t + timedelta(days=7 * math.floor(k))", "t + timedelta(weeks=math.floor(k))", "t + timedelta(days=7 * k)"], "_number": None}
    expect["month"] = {"_local": [day_floor + ".replace(day=1)", "datetime(t.year, t.month, 1)"], "_step": None, "_number": ["t.month - 1"]}
    expect["year"] = {"_local": [day_floor + ".replace(month=1, day=1)", "datetime(t.year, 1, 1)"], "_step": ["t.replace(year=t.year + k)", "t.replace(year=t.year + math.floor(k))"], "_number": ["t.year"]}
    for u in UNITS:
        for a, what in (("_local", "floor"), ("_step", "step"), ("_number", "number")):
            forms = expect[u][a]
            if forms is None:
                continue
            args = [t] + ([k] if a == "_step" else [])
            got = call(u, a, *args)
            wants = [_exp(ev, f_, t=t, k=k) for f_ in forms]
            ok = got is not None and any(key(got) == key(w) for w in wants)
            R.check(ok, "C17.UNITTABLE", "%s.%s" % (u, what), wh(u, a), "%s %s == %s" % (u, what, forms[0]),
                    "the %s interval's %s is %s, expected %s: it does not %s" % (u, what, show(got, 200) if got is not None else None, forms[0], {"floor": "truncate exactly the fields finer than the unit", "step": "add k units of the same unit", "number": "read the unit's own field"}[what]))
    # range aliases: d3_time["seconds"] etc are the interval's own range
    for u in UNITS:
        alias = reg.items.get(u + "s")
        ok = alias is not None and isinstance(alias, Closure) and alias.func.qual == IV + ".range" and key(alias.selfv) == key(cl[u]["obj"])
        R.check(ok, "C17.UNITTABLE", "%ss alias" % u, mod.path, "d3_time[%r] is d3_time[%r].range" % (u + "s", u), "d3_time[%r] is %s" % (u + "s", show(alias) if alias is not None else None), nontrivial=False)
    # interval floor used inside other floors: day floor via the registry's day interval
    R.ok("C17.UNITTABLE.inventory", "units checked: %d" % len(UNITS), mod.path, "", nontrivial=False)


@rule("C17.MONTHSTEP")
def monthstep(ctx, R):
    """Month stepping carries into the year exactly when the month index leaves 1..12."""
    P = ctx.P
    ev, st, reg, cl = registry_closures(ctx)
    c = cl["month"]["_step"]
    f = c.func if isinstance(c, Closure) else None
    # follow the lambda to the helper it forwards to
    target = f
    if f is not None and f.is_lambda and isinstance(f.node.body, ast.Call) and isinstance(f.node.body.func, ast.Name):
        q = "d3_time.%s" % f.node.body.func.id
        if q in P.funcs:
            target = P.funcs[q]
    if target is None or target.is_lambda:
        # closed form in a lambda: compare with the divmod form
        target_body_ok = False
    R.saw(target) if target is not None else None
    ok = False
    detail = "unrecognised month arithmetic"
    if target is not None and not target.is_lambda:
        g = target
        date_p, off_p = g.params[:2]
        whiles = [n for n in g.node.body if isinstance(n, ast.While)]
        if len(whiles) == 1:
            w = whiles[0]
            # idiom 1: nmonth = date.month + offset; while nmonth > 12: year += 1; nmonth -= 12; replace(month=nmonth)
            evl = new_eval(P)
            s2 = evl.new_state(g, {date_p: Opaque("t", kind="obj"), off_p: Num.atom("k")})
            pre = g.node.body[: g.node.body.index(w)]
            evl.block(pre, s2, [])
            mvar = None
            for nm, v in s2.env.vars.items():
                n_ = as_num(v)
                if n_ is not None and nm not in (date_p, off_p) and n_.equals(A("t.month") + A("k")):
                    mvar = nm
            cnd = evl.cond(w.test, s2)
            guard_ok = mvar is not None and key(cnd) == "cmp(lt, 12, k + t.month)"
            dvar = [nm for nm, v in s2.env.vars.items() if nm not in (date_p, off_p, mvar) and key(v) in ("deepcopy(t)", "t", "copy.deepcopy(t)", "copy.copy(t)")]
            if not dvar and key(s2.env.lookup(date_p)) == "t":
                dvar = [date_p]  # the (immutable) datetime parameter itself is carried
            body_ok = False
            if guard_ok and dvar:
                s2.env.vars[mvar] = Num.atom("M")
                s2.env.vars[dvar[0]] = Opaque("D", kind="obj")
                evl.block(w.body, s2, [])
                m2 = as_num(s2.env.lookup(mvar))
                d2 = s2.env.lookup(dvar[0])
                body_ok = m2 is not None and m2.equals(A("M") - C(12)) and key(d2) == "D.replace(year=1 + D.year)"
                post = g.node.body[g.node.body.index(w) + 1:]
                s2.env.vars[mvar] = Num.atom("M")
                s2.env.vars[dvar[0]] = Opaque("D", kind="obj")
                r = evl.block(post, s2, [])
                res_ok = r is not None and key(r.value) == "D.replace(month=M)"
                ok = body_ok and res_ok
                detail = "carry loop: guard month>12=%s, body year+1/month-12=%s, result replace(month=m)=%s" % (guard_ok, body_ok, res_ok)
            else:
                detail = "carry loop: month variable=%s guard `%s`" % (mvar, ntext(w.test))
        elif not whiles:
            # idiom 2: closed form via divmod / floor division
            evl = new_eval(P)
            s2 = evl.new_state(g, {date_p: Opaque("t", kind="obj"), off_p: Num.atom("k")})
            r = evl.block(g.node.body, s2, [])
            got = key(r.value) if r is not None else None
            tot = "-1 + k + t.month"
            wants = {
                "t.replace(month=1 + mod(%s, 12), year=floordiv(%s, 12) + t.year)" % (tot, tot),
                "t.replace(year=floordiv(%s, 12) + t.year, month=1 + mod(%s, 12))" % (tot, tot),
                "t.replace(year=floordiv(%s, 12) + t.year).replace(month=1 + mod(%s, 12))" % (tot, tot),
            }
            ok = got in wants
            detail = "closed form %s" % got
    R.check(ok, "C17.MONTHSTEP", "month step", where(target) if target is not None else P.module("d3_time").path, detail,
            "the month step is not a recognised exact month/year carry (%s): stepping k months must land on month ((m-1+k) mod 12)+1 of year y + (m-1+k) div 12" % detail)


@rule("C17.ROUND")
def round_rule(ctx, R):
    P = ctx.P
    f = P.func(IV + ".round")
    R.saw(f)
    ev = new_eval(P)
    st = ev.new_state(f)
    s = Opaque("self", cls=P.cls(IV), kind="obj")
    st.heap[("self", "_local")] = Opaque("LOCAL")
    st.heap[("self", "_step")] = Opaque("STEP")
    r = ev.call_closure(Closure(f, None, selfv=s), [Opaque("t")], {}, st)
    ok = False
    detail = show(r, 200)
    if isinstance(r, Phi) and isinstance(r.cond, Cond) and r.cond.tree[0] == "cmp":
        op, a, b = r.cond.tree[1], as_num(r.cond.tree[2]), as_num(r.cond.tree[3])
        d0, d1, tt = A("LOCAL(t)"), A("STEP(LOCAL(t), 1)"), A("t")
        if a is not None and b is not None:
            diff = a - b  # cond: diff < 0 (lt) or <= 0 (le)
            want = (tt - d0) - (d1 - tt)
            if op == "lt" and diff.equals(want) and key(r.a) == "LOCAL(t)" and key(r.b) == "STEP(LOCAL(t), 1)":
                ok = True
            elif op == "le" and diff.equals(-want) and key(r.a) == "STEP(LOCAL(t), 1)" and key(r.b) == "LOCAL(t)":
                ok = True  # d1 - t <= t - d0  -> later
            detail = "returns %s if %s %s 0 else %s" % (key(r.a), diff.key(), "<" if op == "lt" else "<=", key(r.b))
    R.check(ok, "C17.ROUND", f.qual, where(f), "round(t) = floor(t) iff t - floor(t) < next - t (tie -> later boundary), next = step(floor(t), 1)", "round(t) is %s: not 'the nearer of floor(t) and step(floor(t),1), the later one on a tie'" % detail)
    g = P.func(IV + ".offset")
    R.saw(g)
    r = ev.call_closure(Closure(g, None, selfv=s), [Opaque("t"), Num.atom("k")], {}, st)
    R.check(key(r) == "STEP(t, k)", "C17.OFFSET", g.qual, where(g), "offset(t, k) == step(t, k)", "offset(t, k) is %s" % show(r))
    h = P.func(IV + ".__call__")
    r = ev.call_closure(Closure(h, None, selfv=s), [Opaque("t")], {}, st)
    R.check(key(r) == "LOCAL(t)", "C17.OFFSET", h.qual, where(h), "interval(t) == floor(t)", "interval(t) is %s" % show(r))


@rule("C17.RANGE")
def range_rule(ctx, R):
    P = ctx.P
    f = P.func(IV + ".range")
    R.saw(f)
    from ..normalise import fuse_generators
    from ..cfg import CFG

    fbody = f.node.body
    cfg = ctx.cfg(f)
    if not cfg.loops:
        # the enumeration may live in a generator helper consumed by a comprehension: fuse it back into a loop
        fused = fuse_generators(P, f)
        if fused is not None:
            fbody = fused
            cfg = CFG(fbody)
            R.note("C17.RANGE: range() analysed after fusing its generator helper into explicit loops")
        else:
            # ... or in a local / private helper function called with the start and a filter
            from ..normalise import inline_helpers

            inl, n_inl = inline_helpers(P, f)
            if n_inl and CFG(inl).loops:
                fbody = inl
                cfg = CFG(fbody)
                R.note("C17.RANGE: range() analysed after inlining %d helper call(s)" % n_inl)
    t0, t1, dt = f.params[1:4]
    loops = [l for l in cfg.loops]
    whiles = [l for l in loops if isinstance(l["stmt"], ast.While)]
    if not whiles or len(whiles) != len(loops):
        R.undecided("C17.RANGE", f.qual + "|loop shape", where(f), "range() does not enumerate with while-loops in its own body (found %d while / %d loops): the enumeration recogniser does not apply" % (len(whiles), len(loops)))
        return
    ev = new_eval(P, inline_filter=lambda fn: fn.qual not in (IV + ".ceil", IV + ".floor"))
    st = ev.new_state(f)
    s = Opaque("self", cls=P.cls(IV), kind="obj")
    st.env.vars.update({f.params[0]: s, t0: Opaque("T0"), t1: Opaque("T1"), dt: Num.atom("DT")})
    st.heap[("self", "_local")] = Opaque("LOCAL")
    st.heap[("self", "_step")] = Opaque("STEP")
    st.heap[("self", "_number")] = Opaque("NUMBER")
    st0 = st
    lvars = set()

    def preheader(w):
        """State after the straight-line statements that dominate the loop (its initialisation), evaluated in order."""
        s_ = st0.fork()
        inloop = set(cfg.loop_body(w)) | {w["head"]}
        for n in cfg.nodes:
            if n.kind == "stmt" and n.ast is not None and n not in inloop and not isinstance(n.ast, ast.Return) and cfg.dominates(n, w["head"]):
                ev.block([n.ast], s_, [])
        tv = lv = None
        in_test = {n.id for n in ast.walk(w["stmt"].test) if isinstance(n, ast.Name)}
        for nm, v in s_.env.vars.items():
            if key(v) == "self.ceil(T0)" and (tv is None or nm in in_test):
                tv = nm
            if isinstance(v, Seq) and not v.items:
                lv = nm
        return s_, tv, lv

    # which branch each loop belongs to
    for w in whiles:
        ws = w["stmt"]
        st, tvar, lvar = preheader(w)
        R.check(tvar is not None and lvar is not None, "C17.RANGE", f.qual + "|start" + ("" if len(whiles) == 1 or w is whiles[0] else " (loop at line %d)" % ws.lineno), where(f, ws), "enumeration starts at ceil(t0) with an empty result", "range() does not start from ceil(t0) with an empty result list")
        if tvar is None or lvar is None:
            continue
        lvars.add(lvar)
        guards = [t for t in cfg.nodes if t.kind == "test" and cfg.dominates(t, w["head"]) and t is not w["head"]]
        filt_branch = None
        if guards:
            g = guards[-1]
            evg = ev.cond(g.ast, st)
            lab = None
            for s_ in cfg.succ[g]:
                if s_ is w["head"] or cfg.dominates(s_, w["head"]):
                    lab = cfg.elabel.get((g, s_))
            if key(evg) == "cmp(lt, 1, DT)":
                filt_branch = bool(lab)
            elif key(evg) == "cmp(le, DT, 1)":
                filt_branch = not bool(lab)
            else:
                R.bad("C17.RANGE", f.qual + "|branch guard", where(f, g.ast), "the filter is selected by `%s`, expected dt > 1" % ntext(g.ast))
                continue
        tag = "dt>1 loop" if filt_branch else ("dt<=1 loop" if filt_branch is False else "single loop")
        c = ev.cond(ws.test, st)
        R.check(key(c) == "cmp(lt, %s, T1)" % key(st.env.lookup(tvar)), "C17.RANGE", f.qual + "|%s strict upper bound" % tag, where(f, ws), "continues while time < t1 (half-open range)", "the %s runs while `%s`: the range must be [start, stop)" % (tag, ntext(ws.test)))
        s2 = st.fork()
        s2.env.vars[tvar] = Opaque("TIME")
        # (the result list is the empty list of the pre-header: a local alias of its append method stays attached to it)
        ev.block(ws.body, s2, [])
        nxt = s2.env.lookup(tvar)
        R.check(key(nxt) == "STEP(TIME, 1)", "C17.RANGE", f.qual + "|%s advance" % tag, where(f, ws), "advances by exactly one unit", "the %s advances time to %s, expected step(time, 1): boundaries are skipped or repeated" % (tag, show(nxt)))
        res = s2.env.lookup(lvar)
        items = None
        if isinstance(res, Seq):
            items = [key(x) for x in res.items]
        elif isinstance(res, Phi):
            a, b = res.a, res.b
            items = ("phi", key(res.cond), [key(x) for x in a.items] if isinstance(a, Seq) else None, [key(x) for x in b.items] if isinstance(b, Seq) else None)
        timek = {"TIME", "deepcopy(TIME)", "copy.deepcopy(TIME)"}
        # when is the current boundary added?  (as a boolean function of A = dt > 1 and B = number(time) % dt == 0)
        added = None
        if isinstance(items, list):
            if len(items) == 1 and items[0] in timek:
                added = ("const", True)
            elif not items:
                added = ("const", False)
        elif isinstance(items, tuple):
            ctree = res.cond.tree if isinstance(res.cond, Cond) else None
            if items[2] and len(items[2]) == 1 and items[2][0] in timek and items[3] == []:
                added = ctree
            elif items[3] and len(items[3]) == 1 and items[3][0] in timek and items[2] == []:
                added = ("not", ctree) if ctree is not None else None
        ok = added is not None
        if ok:
            As = [filt_branch] if filt_branch is not None else [True, False]
            for A_ in As:
                for B_ in (True, False):
                    got = _beval(added, A_, B_)
                    want = (not A_) or B_
                    if got is None or got != want:
                        ok = False
        R.check(ok, "C17.RANGE", f.qual + "|%s selection" % tag, where(f, ws), "a boundary is listed iff dt <= 1 or its unit number is divisible by dt", "one pass adds %s: a boundary must be listed exactly when dt <= 1 or number(time) %% dt == 0" % (items,))
    rets = [n for n in cfg.stmt_nodes() if n.kind == "stmt" and isinstance(n.ast, ast.Return)]
    R.check(bool(rets) and all(ntext(r_.ast.value) in lvars for r_ in rets), "C17.RANGE", f.qual + "|returns the list", where(f), "returns the collected boundaries", "range() does not return the collected list")
    R.check(len(whiles) in (1, 2), "C17.RANGE", f.qual + "|loops", where(f), "%d enumeration loop(s)" % len(whiles), "unexpected number of loops", nontrivial=False)


def _beval(t, A_, B_):
    """Evaluate a condition tree over A = (DT > 1) and B = (NUMBER(TIME) % DT == 0); None if not understood."""
    if isinstance(t, tuple):
        if t[0] == "const":
            return t[1]
        if t[0] == "not":
            v = _beval(t[1], A_, B_)
            return None if v is None else not v
        if t[0] in ("and", "or"):
            vs = [_beval(x, A_, B_) for x in t[1:]]
            if any(v is None for v in vs):
                return None
            return all(vs) if t[0] == "and" else any(vs)
        if t[0] == "truth":
            k = key(t[1])
            if k == "mod(NUMBER(TIME), DT)":
                return not B_
            return None
        if t[0] == "cmp":
            a, b = key(t[2]), key(t[3])
            if t[1] == "lt" and (a, b) == ("1", "DT"):
                return A_
            if t[1] == "le" and (a, b) == ("DT", "1"):
                return not A_
            if t[1] == "le" and (a, b) == ("2", "DT"):
                return A_
            if t[1] == "lt" and (a, b) == ("DT", "2"):
                return not A_
            if t[1] in ("eq", "ne") and {a, b} == {"mod(NUMBER(TIME), DT)", "0"}:
                return B_ if t[1] == "eq" else not B_
            return None
    return None


@rule("C17.CALFIELD")
def calfield(ctx, R):
    P = ctx.P
    # (1) step is only ever applied to floor/step results inside the interval class (boundaries), or to offset()'s own argument
    n = 0
    ivc = P.cls(IV)
    seen_f = set()
    for mname, f in sorted(ivc.methods.items()):
        if f is None or f.qual in seen_f or not f.params:
            continue
        seen_f.add(f.qual)
        mname = f.name
        R.saw(f)
        selfn = f.params[0]
        f0 = f
        if any(g.parent is f and not g.is_lambda for g in P.funcs.values()):
            # step applications inside a local function: judge them where the function is called (inlined view)
            from ..normalise import inline_helpers

            inl, n_inl = inline_helpers(P, f)
            if n_inl:
                f = _View(f, inl)
        step_alias = {n_.targets[0].id for n_ in ast.walk(f.node) if isinstance(n_, ast.Assign) and len(n_.targets) == 1 and isinstance(n_.targets[0], ast.Name)
                      and isinstance(n_.value, ast.Attribute) and n_.value.attr == "_step" and isinstance(n_.value.value, ast.Name) and n_.value.value.id == selfn}
        for c in calls_in(f.node):
            is_step = isinstance(c.func, ast.Attribute) and c.func.attr == "_step" and isinstance(c.func.value, ast.Name) and c.func.value.id == selfn
            is_step = is_step or (isinstance(c.func, ast.Name) and c.func.id in step_alias)  # step = self._step hoisted into a local
            if is_step and c.args:
                n += 1
                a = c.args[0]
                ok = _is_boundary_expr(f, a, selfn, set())
                if mname == "offset" and isinstance(a, ast.Name) and a.id in f.params:
                    ok = True
                if not ok and isinstance(a, ast.Name) and a.id in f.params and mname.startswith("_"):
                    # a private helper: the value comes from its callers inside the class
                    pi = f.params.index(a.id) - 1
                    sites = []
                    for g in set(ivc.methods.values()):
                        if not g.params:
                            continue
                        for c2 in calls_in(g.node):
                            if isinstance(c2.func, ast.Attribute) and c2.func.attr == mname and isinstance(c2.func.value, ast.Name) and c2.func.value.id == g.params[0] and len(c2.args) > pi >= 0:
                                sites.append((g, c2.args[pi]))
                    ok = bool(sites) and all(_is_boundary_expr(g, x, g.params[0], set()) for g, x in sites)
                    # the helper may advance the parameter itself by whole steps
                    reasg = [n_ for n_ in ast.walk(f.node) if isinstance(n_, ast.Assign) and any(isinstance(t, ast.Name) and t.id == a.id for t in n_.targets)]
                    ok = ok and all(_is_boundary_expr(f, n_.value, selfn, {a.id}) for n_ in reasg)
                R.check(ok, "C17.CALFIELD", "%s|step(%s, ..)" % (f.qual, ntext(a)[:30]), where(f, c), "step is applied to a unit boundary (floor/step result)", "`%s` steps `%s`, which is not known to be a unit boundary: month/year steps keep the day of month and raise ValueError for the 29th-31st" % (ntext(c)[:60], ntext(a)[:40]))
    R.check(n >= 3, "C17.CALFIELD.inventory", "step applications examined: %d" % n, "", "", "fewer step applications than expected", nontrivial=False)
    # (2) replace(month=..)/replace(year=..) without day= only in the month/year step helpers; replace(day=e) only with e == 1
    ev, st, reg, cl = registry_closures(ctx)
    allowed = set()
    for u in ("month", "year"):
        c = cl[u]["_step"]
        if isinstance(c, Closure):
            allowed.add(c.func.qual)
            for q in ctx.cg.reachable([c.func.qual]):
                allowed.add(q)
    m = 0
    for f in P.funcs_of_module("d3_time") + P.funcs_of_module("scale"):
        for c in calls_in(f.node):
            if isinstance(c.func, ast.Attribute) and c.func.attr == "replace" and c.keywords and any(k.arg in ("year", "month", "day") for k in c.keywords):
                kws = {k.arg: k.value for k in c.keywords}
                m += 1
                if "day" in kws:
                    dv = const_value(kws["day"])
                    R.check(dv == 1, "C17.CALFIELD", "%s|%s" % (f.qual, ntext(c)[:50]), where(f, c), "replace(day=1) is valid in every month", "`%s` sets the day of month to `%s`: only day=1 is valid in every month" % (ntext(c)[:60], ntext(kws["day"])))
                elif "month" in kws or "year" in kws:
                    R.check(f.qual in allowed, "C17.CALFIELD", "%s|%s" % (f.qual, ntext(c)[:50]), where(f, c), "month/year replacement keeping the day only inside the month/year step (applied to boundaries)", "`%s` in %s replaces month/year while keeping the day of month on an arbitrary date: ValueError for the 29th-31st (day stepping must use timedelta)" % (ntext(c)[:60], f.qual))
    R.ok("C17.CALFIELD.inventory2", "calendar replace() calls examined: %d" % m, "", "", nontrivial=False)


class _View:
    """A method seen through its body after inlining (same name, parameters and position as the method)."""

    def __init__(self, f, body):
        import copy

        self.qual, self.name, self.params, self.module, self.cls = f.qual, f.name, f.params, f.module, f.cls
        self.node = copy.copy(f.node)
        self.node.body = body
        self.lineno = f.lineno


def _is_boundary_expr(f, e, selfn, seen):
    # a local alias of a boundary-producing callback:  step = self._step ; step(x, 1)
    if isinstance(e, ast.Call) and isinstance(e.func, ast.Name):
        al = [n_ for n_ in ast.walk(f.node) if isinstance(n_, ast.Assign) and len(n_.targets) == 1 and isinstance(n_.targets[0], ast.Name) and n_.targets[0].id == e.func.id]
        if len(al) == 1 and isinstance(al[0].value, ast.Attribute) and isinstance(al[0].value.value, ast.Name) and al[0].value.value.id == selfn and al[0].value.attr in ("_local", "_step", "floor", "ceil", "offset"):
            if al[0].value.attr in ("_step", "offset"):
                return bool(e.args) and _is_boundary_expr(f, e.args[0], selfn, seen)
            return True
    if isinstance(e, ast.Call) and isinstance(e.func, ast.Attribute) and isinstance(e.func.value, ast.Name) and e.func.value.id == selfn and e.func.attr in ("_local", "_step", "floor", "ceil", "offset"):
        if e.func.attr in ("_step", "offset"):
            return bool(e.args) and _is_boundary_expr(f, e.args[0], selfn, seen)
        return True
    if isinstance(e, ast.Call) and isinstance(e.func, ast.Name) and e.func.id in ("deepcopy", "copy") and e.args:
        return _is_boundary_expr(f, e.args[0], selfn, seen)
    if isinstance(e, ast.Name):
        if e.id in seen:
            return True
        seen = seen | {e.id}
        defs = [n for n in ast.walk(f.node) if isinstance(n, ast.Assign) and any(isinstance(t, ast.Name) and t.id == e.id for t in n.targets)]
        if not defs:
            return False
        return all(_is_boundary_expr(f, d.value, selfn, seen) for d in defs)
    return False


@rule("C17.STATE")
def state_rule(ctx, R):
    statepack.no_hidden_state(ctx, R, "C17.STATE", modules=["d3_time"], classes={IV: {"_local", "_step", "_number"}})


RULES = [unittable, monthstep, ceil_rule, round_rule, range_rule, calfield, tzapi, state_rule]
