"""C20 — per-label TeX names are unique and colour conversions agree."""
import ast
from fractions import Fraction

from .util import *
from . import state as statepack
from ..sym import StrSym, Template

EXPLANATION = (
    "C20.NUMERATION: int2name's digit loop is analysed in the congruence domain: with div = 26q + r (residues r = "
    "0..25 enumerated, quotient q >= 0 symbolic, linear forms a*q + b, `% 26` and `// 26` evaluated exactly) every "
    "pass emits chr(65 + m) with m = (r - 1) mod 26 — a letter A..Z that determines the residue — prepends it, and "
    "continues with next = (div - 1 - m)/26, which satisfies 0 <= next < div; the guard holds exactly for div >= 1 "
    "and the entry value is i + 1: this is bijective base 26, so names enumerate the non-empty strings over A-Z in "
    "length-then-alphabetical order and are pairwise distinct for all integers (not a sampled range).  "
    "C20.HEX-AGREE: hex2rgb / hex2html / hex2rgbstr are value-numbered on symbolic digit strings for the four input "
    "shapes (with/without '#', 3/6 digits): the RGB triple is (int of digits [0,0],[1,1],[2,2]) resp. ([0,1],[2,3],"
    "[4,5]) base 16, the HTML code is the same six positions concatenated and upper-cased, the SVG string is "
    "'rgb(r, g, b)' of the triple in order.  C20.KIND / C20.INDEX: every \\definecolor{<kind>Color<name>} is filled "
    "from self.<kind>Color(node.data.data, i) with <name> = int2name(i) enumerating self.nodes, and every use names "
    "the kind it draws with the same enumeration.  C20.STATE: no caches in utils.py."
)
ASSUMPTIONS = ["int(s, 16) is case-insensitive; chr(65..90) are 'A'..'Z'"]


class Lin:
    """a*q + b with integer a, b."""

    def __init__(self, a, b):
        self.a, self.b = a, b

    def __repr__(self):
        return "%d*q + %d" % (self.a, self.b)


def _cg(e, env):
    """Congruence-domain evaluation of an integer expression."""
    if isinstance(e, ast.Constant) and isinstance(e.value, int):
        return Lin(0, e.value)
    if isinstance(e, ast.Name):
        if e.id in env:
            return env[e.id]
        mod = env.get("<module>")
        if mod is not None:
            # a module-level integer constant (assigned once, to a literal)
            asg = mod.global_assigns(e.id)
            if len(asg) == 1 and isinstance(asg[0].value, ast.Constant) and isinstance(asg[0].value.value, int) and not isinstance(asg[0].value.value, bool):
                return Lin(0, asg[0].value.value)
        raise Undecided("name %s" % e.id)
    if isinstance(e, ast.UnaryOp) and isinstance(e.op, ast.USub):
        v = _cg(e.operand, env)
        return Lin(-v.a, -v.b)
    if isinstance(e, ast.BinOp):
        l, r = _cg(e.left, env), _cg(e.right, env)
        if isinstance(e.op, ast.Add):
            return Lin(l.a + r.a, l.b + r.b)
        if isinstance(e.op, ast.Sub):
            return Lin(l.a - r.a, l.b - r.b)
        if isinstance(e.op, ast.Mult):
            if l.a == 0:
                return Lin(r.a * l.b, r.b * l.b)
            if r.a == 0:
                return Lin(l.a * r.b, l.b * r.b)
            raise Undecided("non-linear product")
        if isinstance(e.op, (ast.Mod, ast.FloorDiv)):
            if r.a != 0 or r.b <= 0:
                raise Undecided("modulus not a positive constant")
            m = r.b
            if l.a % m != 0:
                raise Undecided("modulus %d does not divide the period %d" % (m, l.a))
            if isinstance(e.op, ast.Mod):
                return Lin(0, l.b % m)
            return Lin(l.a // m, l.b // m)
    if isinstance(e, ast.Call) and isinstance(e.func, ast.Name) and e.func.id == "divmod":
        raise Undecided("divmod")
    raise Undecided("expression %s" % ntext(e)[:40])


def int2name_total(ctx, R):
    """Crash-only reading of the digit loop (used by C11): every pass calls chr() with an integer in range and the loop
    variable strictly decreases while staying >= 0, for every div >= 1."""
    return numeration(ctx, R, total=True)


int2name_total.rule_id = "C11.INT2NAME"


@rule("C20.NUMERATION")
def numeration(ctx, R, total=False):
    P = ctx.P
    f = P.func("utils.int2name")
    R.saw(f)
    ws = [n for n in f.node.body if isinstance(n, ast.While)]
    if len(ws) != 1:
        R.bad("C20.NUMERATION", f.qual + "|shape", where(f), "int2name is not a single digit loop: the numeration cannot be shown to be bijective base 26 (names must enumerate A..Z, AA.. in order without collisions)")
        return
    w = ws[0]
    ipar = f.params[0]
    pre = f.node.body[: f.node.body.index(w)]
    extra = [n for n in pre if not isinstance(n, ast.Assign) and not (isinstance(n, ast.Expr) and isinstance(n.value, ast.Constant))]
    extra += [n for n in f.node.body[f.node.body.index(w) + 1:] if not isinstance(n, ast.Return)]
    if extra and not total:
        R.bad("C20.NUMERATION", f.qual + "|shape", where(f, extra[0]), "int2name does more than run its digit loop (`%s`): a shortcut or post-processing next to the loop cannot be shown to give the same names (they must enumerate A..Z, AA.. in order without collisions)" % ntext(extra[0])[:60])
        return
    # entry: div = i + c, name = ""
    dvar = nvar = None
    entry_c = None
    for st in pre:
        if isinstance(st, ast.Assign) and isinstance(st.targets[0], ast.Name):
            if isinstance(st.value, ast.Constant) and st.value.value == "":
                nvar = st.targets[0].id
            else:
                try:
                    v = _cg(st.value, {ipar: Lin(1, 0), "<module>": f.module})
                    if v.a == 1:
                        dvar, entry_c = st.targets[0].id, v.b
                except Undecided:
                    pass
    if not total:
      R.check(dvar is not None and nvar is not None and entry_c == 1, "C20.NUMERATION", f.qual + "|entry", where(f), "starts from div = i + 1 and the empty name", "int2name starts from %s = i + %s: bijective base 26 needs div = i + 1 (index 0 is 'A')" % (dvar, entry_c))
    if dvar is None or nvar is None:
        return
    # guard: true for every div >= 1, false for 0
    g = ntext(w.test).replace(" ", "")
    okg = g in ("%s>0" % dvar, "%s>=1" % dvar, "%s!=0" % dvar, dvar, "0<%s" % dvar)
    if not total:
      R.check(okg, "C20.NUMERATION", f.qual + "|guard", where(f, w), "loops exactly while div >= 1", "the digit loop runs while `%s`: it must run for every div >= 1 and stop at 0" % ntext(w.test))
    ms = {}
    for r in range(26):
        env = {dvar: Lin(26, r), "<module>": f.module}
        qmin = 1 if r == 0 else 0
        emitted = None
        prepend = None
        try:
            for st in w.body:
                if isinstance(st, ast.Assign) and isinstance(st.targets[0], ast.Name):
                    tgt = st.targets[0].id
                    if tgt == nvar:
                        v = st.value
                        # name = chr(65 + m) + name
                        if isinstance(v, ast.BinOp) and isinstance(v.op, ast.Add):
                            l, rr = v.left, v.right
                            if isinstance(rr, ast.Name) and rr.id == nvar and isinstance(l, ast.Call) and ntext(l.func) == "chr":
                                emitted = _cg(l.args[0], env)
                                prepend = True
                            elif isinstance(l, ast.Name) and l.id == nvar and isinstance(rr, ast.Call) and ntext(rr.func) == "chr":
                                emitted = _cg(rr.args[0], env)
                                prepend = False
                            else:
                                raise Undecided("name update %s" % ntext(st))
                        else:
                            raise Undecided("name update %s" % ntext(st))
                    else:
                        env[tgt] = _cg(st.value, env)
                elif isinstance(st, ast.Assign) and isinstance(st.targets[0], ast.Tuple) and len(st.targets[0].elts) == 2 and all(isinstance(x, ast.Name) for x in st.targets[0].elts) and isinstance(st.value, ast.Call) and ntext(st.value.func) == "divmod" and len(st.value.args) == 2:
                    a_, b_ = st.value.args
                    qv = _cg(ast.BinOp(left=a_, op=ast.FloorDiv(), right=b_), env)
                    rv = _cg(ast.BinOp(left=a_, op=ast.Mod(), right=b_), env)
                    env[st.targets[0].elts[0].id] = qv
                    env[st.targets[0].elts[1].id] = rv
                elif isinstance(st, ast.AugAssign) and isinstance(st.target, ast.Name) and st.target.id != nvar:
                    fake = ast.BinOp(left=ast.Name(id=st.target.id, ctx=ast.Load()), op=st.op, right=st.value)
                    env[st.target.id] = _cg(fake, env)
                else:
                    raise Undecided("statement %s" % ntext(st)[:40])
        except Undecided as e:
            if total:
                R.bad("C11.INT2NAME", f.qual + "|residue %d" % r, where(f, w), "the digit loop leaves the integers or the congruence domain (%s): chr() of a non-integer raises TypeError, an unbounded loop never returns" % e)
                return
            R.bad("C20.NUMERATION", f.qual + "|residue %d" % r, where(f, w), "the digit loop is outside the congruence domain (%s): it cannot be shown to be bijective base 26" % e)
            return
        nxt = env[dvar]
        want_m = (r - 1) % 26
        ok_letter = emitted is not None and emitted.a == 0 and emitted.b == 65 + want_m and prepend is True
        # next == (div - 1 - m)/26
        want_next = Lin(1, (r - 1 - want_m) // 26)
        ok_next = nxt.a == want_next.a and nxt.b == want_next.b
        # 0 <= next < div for all q >= qmin
        ok_bound = nxt.a * qmin + nxt.b >= 0 and nxt.a >= 0 and (26 - nxt.a) >= 0 and (26 - nxt.a) * qmin + (r - nxt.b) > 0
        ms[r] = emitted.b if emitted is not None else None
        if total:
            ok_chr = emitted is not None and emitted.a == 0 and 0 <= emitted.b <= 0x10FFFF
            R.check(ok_chr and ok_bound, "C11.INT2NAME", f.qual + "|div = 26q + %d" % r, where(f, w), "chr(%s) in range, next div = %r with 0 <= next < div" % (emitted, nxt),
                    "for div = 26q + %d the loop calls chr(%s) and continues with div = %r: %s" % (r, emitted, nxt, "chr() argument out of range (ValueError)" if not ok_chr else "the loop variable does not decrease towards 0 for every q: the loop need not terminate"))
            continue
        R.check(ok_letter and ok_next and ok_bound, "C20.NUMERATION", f.qual + "|div = 26q + %d" % r, where(f, w),
                "emits %s (prepended), continues with %r" % (chr(65 + want_m), nxt),
                "for div = 26q + %d the loop emits chr(%s)%s and continues with div = %r; bijective base 26 needs chr(%d) prepended and next = %r (otherwise two indices share a name or the order breaks, e.g. Z and AA)" % (r, emitted, "" if prepend else " appended", nxt, 65 + want_m, want_next))
    if total:
        return
    R.check(len(set(ms.values())) == 26, "C20.NUMERATION", f.qual + "|letter determines residue", where(f, w), "26 distinct letters for 26 residues", "two residues emit the same letter: %s" % ms)
    rets = [n for n in f.node.body[f.node.body.index(w) + 1:] if isinstance(n, ast.Return)]
    R.check(len(rets) == 1 and ntext(rets[0].value) == nvar, "C20.NUMERATION", f.qual + "|result", where(f), "returns the assembled name", "int2name returns `%s`" % (ntext(rets[0].value) if rets else None))


def _shapes():
    out = []
    for pre in (True, False):
        for n in (3, 6):
            chars = (["lit:#"] if pre else []) + ["d%d" % i for i in range(n)]
            out.append(("%s%d digits" % ("# + " if pre else "", n), StrSym(chars), n))
    return out


@rule("C20.HEX-AGREE")
def hex_agree(ctx, R):
    P = ctx.P
    f_rgb, f_html, f_str = P.func("utils.hex2rgb"), P.func("utils.hex2html"), P.func("utils.hex2rgbstr")
    R.saw(f_rgb, f_html, f_str, P.func("utils.hex2dec"))
    for tag, code, n in _shapes():
        pos = [(0, 0), (1, 1), (2, 2)] if n == 3 else [(0, 1), (2, 3), (4, 5)]
        ev = new_eval(P)
        st = ev.new_state(module="utils")
        rgb = ev.call_closure(Closure(f_rgb, None), [StrSym(code.chars)], {}, st)
        want = ["int(S<d%d,d%d>, 16)" % p for p in pos]
        got = [key(x) for x in rgb.items] if isinstance(rgb, Seq) else [key(rgb)]
        R.check(got == want, "C20.HEX-AGREE", "hex2rgb %s" % tag, where(f_rgb), "triple = %s" % want, "hex2rgb(%s) is %s, expected %s (3-digit codes are expanded by doubling each digit)" % (tag, got, want))
        html = ev.call_closure(Closure(f_html, None), [StrSym(code.chars)], {}, st)
        want_chars = []
        for a, b in pos:
            want_chars += ["d%d" % a, "d%d" % b]
        okh = isinstance(html, StrSym) and html.chars == want_chars and html.upper
        R.check(okh, "C20.HEX-AGREE", "hex2html %s" % tag, where(f_html), "HTML code = digits %s upper-cased" % want_chars, "hex2html(%s) is %s, expected the six digit positions %s upper-cased: the TeX colour differs from the SVG colour" % (tag, show(html), want_chars))
        s = ev.call_closure(Closure(f_str, None), [StrSym(code.chars)], {}, st)
        flat = _flat(s)
        want_s = "rgb(<%s>, <%s>, <%s>)" % tuple(want)
        R.check(flat == want_s, "C20.HEX-AGREE", "hex2rgbstr %s" % tag, where(f_str), "'rgb(r, g, b)' of the triple in order", "hex2rgbstr(%s) is %s, expected %s" % (tag, flat, want_s))


def _flat(t):
    if isinstance(t, Template):
        out = []
        for p in t.parts:
            if p[0] == "lit":
                out.append(p[1])
            else:
                v = p[1]
                out.append(_flat(v) if isinstance(v, Template) else "<%s>" % key(v))
        return "".join(out)
    if isinstance(t, Const):
        return str(t.v)
    return "<%s>" % key(t)


@rule("C20.STATE")
def state_rule(ctx, R):
    statepack.no_hidden_state(ctx, R, "C20.STATE", modules=["utils"], classes={})


def _kind(ctx, R):
    from .emit import kind_index_rule
    return kind_index_rule(ctx, R)


_kind.rule_id = "C20.KIND"

RULES = [numeration, hex_agree, state_rule, _kind]
