"""C09 — the SVG and TikZ back-ends draw the same picture."""
import ast
import re

from .util import *
from . import emit
from .emit import Pipe, flat, SVG, TEX, DIRECTIONS
from .c08 import box_of

EXPLANATION = (
    "Sibling cross-check of the two hand-written emitters.  For every direction (x showBorder x tickCross where the "
    "code branches on them) both exporters' add_* methods are value-numbered on the same symbolic pipeline and their "
    "output reduced to slot templates; required per slot: main-layer origin, axis end point, tick positions and tick "
    "texts (same expressions over separate/materialised tick sequences, zipped in order), label origin and size, dot "
    "coordinate and size (2r), per-datum colours (same <kind>Color accessor with the same datum and index on both "
    "sides; each \\definecolor{<kind>Color<name>} is used under the same <kind> and <name> = int2name(i)), label text "
    "source (node.data.text, through uni2tex on the TeX side), and the link: both consume renderer.generatePath(node), "
    "the step constructors write `M x y` / `L x y` / `C x1 y1 x2 y2 x y` with one letter and single spaces, the TeX "
    "side dispatches on exactly these letters, reads the coordinates in order and carries the current point forward, "
    "so the TikZ segments are the SVG path point for point (C09.STEPFORMAT, C09.LINK).  Precision classes may differ "
    "(%i vs %.16f) as the property allows.  Margins are excluded (documented limitation)."
    "  Also part of this check: the two colour formatters agree (C20.HEX-AGREE), TeX colour names are unique per datum (C20.NUMERATION), both exporters draw the axis iff showTicks (C07.EXPORT-CALLS), the caller's options reach both (GEN.OPTS-MERGE)."
)
ASSUMPTIONS = []


def _svg(p, meth):
    return p.run_svg(meth)


def _tex(p, meth):
    return p.run_tex(meth)


def _vals(h):
    return [key(x) for x, s in h]


@rule("C09.MAIN-AXIS")
def main_axis(ctx, R):
    P = ctx.P
    for d in DIRECTIONS:
        ps, pt = emit.pipe(ctx, SVG, d, n=2), emit.pipe(ctx, TEX, d, n=2)
        # main layer origin
        f, out, r = _svg(ps, "add_main")
        g, doc, r2 = _tex(pt, "add_main")
        R.saw(f, g)
        sv = None
        for e in out:
            if "transform" in e["attrib"]:
                t, h = flat(e["attrib"]["transform"])
                m = re.match(r"^translate\((.+), (.+)\)$", t)
                if m:
                    sv = [_fill(m.group(1), h), _fill(m.group(2), h)]
        tv = None
        for x in doc:
            t, h = flat(x)
            m = re.match(r"^\\begin\{scope\}\[shift=\{\((.+), (.+)\)\}\]$", t)
            if m:
                tv = [_fill(m.group(1), h), _fill(m.group(2), h)]
        R.check(sv is not None and sv == tv, "C09.MAIN", "%s|main-layer origin" % d, where(g), "both back-ends shift the main layer by %s" % sv, "main layer origin differs: SVG translate%s vs TikZ shift%s" % (sv, tv))
        # axis line
        f, out, r = _svg(ps, "add_timeline")
        g, doc, r2 = _tex(pt, "add_timeline")
        R.saw(f, g)
        lines = [e for e in out if e["tag"] == "line"]
        sx = sy = "0"
        if lines:
            a = lines[0]["attrib"]
            if "x2" in a:
                t, h = flat(a["x2"])
                sx = _fill(t, h)
            if "y2" in a:
                t, h = flat(a["y2"])
                sy = _fill(t, h)
        tv = None
        for x in doc:
            t, h = flat(x)
            m = re.match(r"^\\draw\[.*\] \(0, 0\) -- \((.+), (.+)\);$", t)
            if m:
                tv = [_fill(m.group(1), h), _fill(m.group(2), h)]
        R.check(len(lines) == 1 and tv == [sx, sy], "C09.AXIS", "%s|axis line" % d, where(g), "axis runs from (0,0) to %s in both" % tv, "axis line differs: SVG ends at (%s, %s), TikZ at %s" % (sx, sy, tv))


def _fill(text, holes):
    def rep(m):
        return key(holes[int(m.group(1))][0])

    return re.sub(r"<(\d+)>", rep, text)


@rule("C09.TICKS")
def ticks(ctx, R):
    P = ctx.P
    for d in DIRECTIONS:
        for cross in (False, True):
            ps, pt = emit.pipe(ctx, SVG, d, n=2), emit.pipe(ctx, TEX, d, n=2, tick_cross=cross)
            f, out, r = _svg(ps, "add_axis")
            g, doc, r2 = _tex(pt, "add_axis")
            R.saw(f, g)
            sv = []
            gs = [e for e in out if e["tag"] == "g" and key(e["attrib"].get("class", Const(""))) == "'tick'"]
            txts = [e for e in out if e["tag"] == "text"]
            for i, e in enumerate(gs):
                t, h = flat(e["attrib"]["transform"])
                m = re.match(r"^translate\((.+), (.+)\)$", t)
                tx = key(txts[i].get("text")) if i < len(txts) and txts[i].get("text") is not None else None
                sv.append((_fill(m.group(1), h), _fill(m.group(2), h), tx) if m else None)
            tv = []
            for x in doc:
                t, h = flat(x)
                m = re.match(r"^\\begin\{scope\}\[shift=\{\((.+?), (.+?)\)\}\]\n\\draw\[.*\] .*\nnode\[anchor=\w+\] \{(.+)\};$", t, re.S)
                if m:
                    tv.append((_fill(m.group(1), h), _fill(m.group(2), h), _fill(m.group(3), h)))
            R.check(len(sv) == 2 and sv == tv, "C09.TICKS", "%s tickCross=%s|positions and texts" % (d, cross), where(g), "ticks %s in both back-ends" % sv, "ticks differ: SVG %s vs TikZ %s" % (sv, tv))
            # each tick's text belongs to its own position
            okpair = all(s is not None and s[2] == "FMT(%s)" % ("TICK%d" % i) and ("SCALE(TICK%d)" % i) in (s[0], s[1]) for i, s in enumerate(sv))
            R.check(okpair, "C07.TICKTEXT", "%s tickCross=%s|tick i carries format(tick i) at scale(tick i)" % (d, cross), where(f), "position scale(t) and text format(t) of the same tick t", "tick positions and texts are not those of the same tick: %s" % sv)
    for backend in (SVG, TEX):
        p = Pipe(ctx, backend, "right", n=1)
        n0 = len(p.log)
        (p.run_svg if backend == SVG else p.run_tex)("add_axis")
        ta = [l[1] for l in p.log[n0:] if l[0] == "scale.ticks"]
        fa = [l[1] for l in p.log[n0:] if l[0] == "scale.tickFormat"]
        f = P.method(P.cls(backend), "add_axis")
        R.check(bool(ta) and bool(fa) and all(a == ta[0] for a in ta) and all(a == ta[0] for a in fa), "C07.TICKTEXT", "%s|ticks() and tickFormat() use the same count" % f.qual, where(f), "tick positions, and the formatter that labels them, are computed for the same tick count %s" % (ta[0] if ta else None),
                "tick positions come from ticks(%s) but the texts from tickFormat(%s): the label precision is chosen for a different tick step, so distinct ticks can get the same text" % (ta, fa))
    # one-shot iterables: scale.ticks() may be a generator; it must not be shared between the two maps
    for backend in (SVG, TEX):
        f = P.method(P.cls(backend), "add_axis")
        oneshot_rule(ctx, R, f)


ONESHOT_SOURCES = ("ticks", "drange")


def oneshot_rule(ctx, R, f):
    """A name bound to a possibly one-shot iterable (scale.ticks(), map/zip/generator) must be consumed at most once."""
    binds = {}
    for n in walk_local(f.node):
        if isinstance(n, ast.Assign) and len(n.targets) == 1 and isinstance(n.targets[0], ast.Name):
            v = n.value
            oneshot = (isinstance(v, ast.Call) and isinstance(v.func, ast.Attribute) and v.func.attr in ONESHOT_SOURCES) or (isinstance(v, ast.Call) and isinstance(v.func, ast.Name) and v.func.id in ("map", "zip", "filter", "iter", "reversed", "enumerate")) or isinstance(v, ast.GeneratorExp)
            if oneshot:
                binds[n.targets[0].id] = n
    for name, asg in binds.items():
        uses = [u for u in walk_local(f.node) if isinstance(u, ast.Name) and u.id == name and isinstance(u.ctx, ast.Load)]
        inloop = any(_in_loop(u, f.node) and not _in_loop(asg, f.node) for u in uses)
        ok = len(uses) <= 1 and not inloop
        R.check(ok, "C09.ONESHOT", "%s|%s" % (f.qual, name), where(f, asg), "one-shot iterable `%s` is consumed once" % name, "`%s` is bound to a possibly one-shot iterable (`%s`) and consumed %d times%s: with a LinearScale (generator) the second consumer sees the remaining ticks only" % (name, ntext(asg.value)[:40], len(uses), " inside a loop" if inloop else ""))


def _in_loop(n, stop):
    child = n
    p = getattr(n, "_parent", None)
    while p is not None and p is not stop:
        if isinstance(p, ast.For) and child is not p.iter:
            return True
        if isinstance(p, ast.While):
            return True
        child = p
        p = getattr(p, "_parent", None)
    return False


@rule("C09.LABELS")
def labels(ctx, R):
    P = ctx.P
    for d in DIRECTIONS:
        for border in (False, True):
            ps, pt = emit.pipe(ctx, SVG, d, n=2, show_border=border), emit.pipe(ctx, TEX, d, n=2, show_border=border)
            for i in range(len(ps.nodes)):
                f, bs = box_of(ps, i, SVG)
                g, bt = box_of(pt, i, TEX)
                R.saw(f, g)
                if bs is None or bt is None:
                    R.bad("C09.LABEL", "%s border=%s|node %d" % (d, border, i), where(g), "label box of node %d not found in %s" % (i, "SVG" if bs is None else "TikZ"))
                    continue
                same = all(key(bs[k][0]) == key(bt[k][0]) for k in ("ox", "oy", "w", "h"))
                R.check(same, "C09.LABEL", "%s border=%s|node %d origin and size" % (d, border, i), where(g), "same box origin and size expressions", "label box differs: SVG origin (%s, %s) size (%s, %s) vs TikZ origin (%s, %s) size (%s, %s)" % tuple(key(b[k][0]) for b in (bs, bt) for k in ("ox", "oy", "w", "h")))
                trunc = all(b[k][1] in ("%i", "%d") for b in (bs, bt) for k in ("ox", "oy")) or all(bs[k][1] == bt[k][1] for k in ("ox", "oy"))
                R.check(trunc, "C09.LABEL", "%s border=%s|node %d precision" % (d, border, i), where(g), "both truncate the origin to integers (or print alike)", "origin precision differs beyond the 1-unit truncation: %s vs %s" % ([bs[k][1] for k in ("ox", "oy")], [bt[k][1] for k in ("ox", "oy")]), nontrivial=False)
        # texts
        ps, pt = emit.pipe(ctx, SVG, d, n=2), emit.pipe(ctx, TEX, d, n=2)
        f, out, r = _svg(ps, "add_labels")
        st_ = [key(e.get("text")) for e in out if e["tag"] == "text"]
        g, doc, r2 = _tex(pt, "add_header_text")
        tt = []
        for x in doc:
            t, h = flat(x)
            m = re.match(r"^\\def\\text(.+)\{(.+)\}$", t)
            if m:
                tt.append((_fill(m.group(1), h), _fill(m.group(2), h)))
        ks = [pt.item_index(n) for n in pt.nodes]
        kss = [ps.item_index(n) for n in ps.nodes]
        want_t = [("int2name(%d)" % i, "uni2tex(TEXT%s)" % ks[i]) for i in range(len(ks))]
        R.check(st_ == ["TEXT%s" % k for k in kss], "C07.TEXT", "%s|svg text" % d, where(f), "SVG shows node.data.text verbatim", "SVG label texts are %s, expected the data's texts verbatim" % st_)
        R.check(tt == want_t, "C09.TEXT", "%s|tex text macros" % d, where(g), "\\text<name(i)> = uni2tex(text i)", "TeX text macros are %s, expected %s" % (tt, want_t))
        g2, doc2, r3 = _tex(pt, "add_labels")
        used = []
        for x in doc2:
            t, h = flat(x)
            m = re.search(r"\{\\strut (.*)\};$", t)
            if m:
                used.append(_fill(m.group(1), h))
        if d == "right":
            # a datum without text: the macro of label i is still named after i (its position among all nodes), in the
            # definitions and at the use
            for tl in (0, 1):
                ptl = emit.pipe(ctx, TEX, d, n=3, textless=(tl,))
                _g, doc_h, _r = _tex(ptl, "add_header_text")
                defs = []
                for x in doc_h:
                    t, h = flat(x)
                    m = re.match(r"^\\def\\text(.+)\{(.+)\}$", t)
                    if m:
                        defs.append((_fill(m.group(1), h), _fill(m.group(2), h)))
                kk = [ptl.item_index(n_) for n_ in ptl.nodes]
                want_defs = [("int2name(%d)" % i, "uni2tex(TEXT%s)" % kk[i]) for i in range(len(kk)) if kk[i] != tl]
                _g2, doc_l, _r = _tex(ptl, "add_labels")
                uses = []
                for x in doc_l:
                    t, h = flat(x)
                    m = re.search(r"\{\\strut (.*)\};$", t)
                    if m and m.group(1).strip():
                        uses.append(_fill(m.group(1), h))
                want_uses = ["\\textint2name(%d)" % i for i in range(len(kk)) if kk[i] != tl]
                R.check(defs == want_defs and uses == want_uses, "C09.TEXT", "tex text macros with datum %d unlabelled" % tl, where(_g), "macros and uses are both named after the node's index among all nodes", "with a datum without text the TeX text macros are %s and the labels use %s; expected %s and %s: a label shows another datum's text" % (defs, uses, want_defs, want_uses))
        R.check(used == ["\\textint2name(%d)" % i for i in range(len(ks))], "C09.TEXT", "%s|tex label uses its own macro" % d, where(g2), "label i shows \\text<name(i)>", "TikZ labels show %s" % used)


@rule("C09.DOTS")
def dots(ctx, R):
    P = ctx.P
    for d in DIRECTIONS:
        for chain in (False, True):
            ps, pt = emit.pipe(ctx, SVG, d, n=2, chain=chain), emit.pipe(ctx, TEX, d, n=2, chain=chain)
            f, out, r = _svg(ps, "add_dots")
            g, doc, r2 = _tex(pt, "add_dots")
            R.saw(f, g)
            sv = []
            for e in out:
                if e["tag"] == "circle":
                    a = e["attrib"]
                    cx = _fill(*flat(a["cx"])) if "cx" in a else "0"
                    cy = _fill(*flat(a["cy"])) if "cy" in a else "0"
                    sv.append((cx, cy, _fill(*flat(a["r"]))))
            tv = []
            for x in doc:
                t, h = flat(x)
                m = re.search(r"minimum size=(.+)bp, \nfill=dotColor(.+)\] at \((.+), (.+)\) \{\};$", t, re.S)
                if m:
                    tv.append((_fill(m.group(3), h), _fill(m.group(4), h), _fill(m.group(1), h)))
            ok = len(sv) == len(ps.nodes) and len(tv) == len(ps.nodes)
            for s_, t_ in zip(sv, tv):
                ok = ok and s_[0] == t_[0] and s_[1] == t_[1] and t_[2] == (A(s_[2]) * C(2)).key()
            R.check(ok, "C09.DOT", "%s chain=%s" % (d, chain), where(g), "same dot coordinate (root's data position), TikZ size = 2r", "dots differ: SVG (cx, cy, r) %s vs TikZ (x, y, size) %s" % (sv, tv))


KINDS = ("dot", "link", "labelBg", "labelText", "border")


def colour_slots(ctx, R, rule_id="C09.COLOUR"):
    P = ctx.P
    d = "right"
    ps, pt = emit.pipe(ctx, SVG, d, n=2, show_border=True), emit.pipe(ctx, TEX, d, n=2, show_border=True)
    # TeX definitions
    g, doc, r = _tex(pt, "add_header_colors")
    R.saw(g)
    defs = {}
    for x in doc:
        t, h = flat(x)
        m = re.match(r"^\\definecolor\{(\w+?)Color(.+)\}\{HTML\}\{(.+)\}$", t)
        if m:
            defs.setdefault(m.group(1), []).append((_fill(m.group(2), h), _fill(m.group(3), h)))
    kt = [pt.item_index(n) for n in pt.nodes]
    ksv = [ps.item_index(n) for n in ps.nodes]
    NN = len(pt.nodes)
    for k in KINDS:
        want = [("int2name(%d)" % i, "hex2html(COLOR('%sColor', DATUM%s, i=%d))" % (k, kt[i], i)) for i in range(NN)]
        R.check(defs.get(k) == want, rule_id, "definecolor %sColor" % k, where(g), "\\definecolor{%sColor<name(i)>} = hex2html(self.%sColor(datum i, i))" % (k, k), "TeX colour definitions for %s are %s, expected %s (own accessor, own datum, own index)" % (k, defs.get(k), want))
    # SVG uses
    svg_uses = {}
    for meth, tag, kind in (("add_dots", "circle", "dot"), ("add_links", "path", "link")):
        f, out, r = _svg(ps, meth)
        vals = []
        for e in out:
            if e["tag"] == tag:
                t, h = flat(e["attrib"]["style"])
                vals.append([v for v in _vals(h)])
        svg_uses[kind] = vals
    f, out, r = _svg(ps, "add_labels")
    rect = []
    txt = []
    for e in out:
        if e["tag"] == "rect":
            t, h = flat(e["attrib"]["style"])
            rect.append(_vals(h))
        if e["tag"] == "text":
            t, h = flat(e["attrib"]["style"])
            txt.append(_vals(h))
    want = lambda k, i: "hex2rgbstr(COLOR('%sColor', DATUM%s, i=%d))" % (k, ksv[i], i)
    R.check(svg_uses.get("dot") == [[want("dot", i)] for i in range(NN)], rule_id, "svg dot colour", where(f), "dot i filled with dotColor(datum i, i)", "SVG dot colours are %s" % svg_uses.get("dot"))
    R.check(svg_uses.get("link") == [[want("link", i)] for i in range(NN)], rule_id, "svg link colour", where(f), "link i stroked with linkColor(datum i, i)", "SVG link colours are %s" % svg_uses.get("link"))
    R.check(rect == [[want("labelBg", i), want("border", i)] for i in range(NN)], rule_id, "svg label colours", where(f), "label i: labelBgColor / borderColor of datum i", "SVG label background/border colours are %s" % rect)
    R.check(txt == [[want("labelText", i)] for i in range(NN)], rule_id, "svg text colour", where(f), "text i: labelTextColor of datum i", "SVG text colours are %s" % txt)
    # TeX uses name the kind they draw with the node's own name
    g, doc, r = _tex(pt, "add_labels")
    uses = []
    for x in doc:
        t, h = flat(x)
        m = re.search(r"borderColor(<\d+>), fill=labelBgColor(<\d+>).*text=labelTextColor(<\d+>)\] \{\\strut \\text(<\d+>)\}", t, re.S)
        if m:
            uses.append([_fill(m.group(j), h) for j in range(1, 5)])
    R.check(uses == [["int2name(%d)" % i] * 4 for i in range(NN)], rule_id, "tex label uses", where(g), "label i uses borderColor/labelBgColor/labelTextColor/text <name(i)>", "TikZ label i refers to colours/text named %s" % uses)
    g, doc, r = _tex(pt, "add_dots")
    uses = []
    for x in doc:
        t, h = flat(x)
        m = re.search(r"fill=dotColor(<\d+>)\]", t)
        if m:
            uses.append(_fill(m.group(1), h))
    R.check(uses == ["int2name(%d)" % i for i in range(NN)], rule_id, "tex dot uses", where(g), "dot i uses dotColor<name(i)>", "TikZ dots use dotColor%s" % uses)
    g, doc, r = _tex(pt, "add_links")
    uses = []
    for x in doc:
        t, h = flat(x)
        ms = re.findall(r"color=linkColor(<\d+>)", t)
        if ms:
            uses.append(sorted({_fill(m_, h) for m_ in ms}))
    R.check(uses == [["int2name(%d)" % i] for i in range(NN)], rule_id, "tex link uses", where(g), "link i uses linkColor<name(i)>", "TikZ links use linkColor%s" % uses)
    # without border: no border colour is defined or used
    pt2 = emit.pipe(ctx, TEX, d, n=2, show_border=False)
    g, doc, r = _tex(pt2, "add_labels")
    anyb = any("borderColor" in flat(x)[0] for x in doc)
    R.check(not anyb, rule_id, "no border colour without showBorder", where(g), "borderColor is used only with showBorder", "TikZ labels use borderColor although showBorder is off (the colour is not defined then)")
    # the colour accessors: evaluated down to the colour resolver (a function called colorFunc, wherever the class layout
    # puts it), each must hand over its own option name, the datum and the index
    for k in KINDS:
        m = P.func("timeline.Timeline.%sColor" % k)
        got = []

        def hook(fv, args, kwargs, node, st_):
            if isinstance(fv, Closure) and fv.func.name == "colorFunc" and fv.func.module.name == "timeline" and not got:
                b = dict(zip(fv.func.params[1:] if fv.func.cls is not None else fv.func.params, args))
                b.update(kwargs)
                pn = fv.func.params[1:] if fv.func.cls is not None else fv.func.params
                got.append([key(b[x]) if x in b else None for x in pn[:3]])
                if fv.func.qual == "timeline.Timeline.colorFunc":
                    return None  # may itself forward to the resolver proper: keep the first call seen, go on
                return Opaque("COLOR")
            return None

        ev = new_eval(P, on_call=hook)
        st = ev.new_state(m)
        sv = Opaque("self", cls=P.cls("timeline.Timeline"), kind="obj")
        st.heap[("self", "options")] = Opaque("OPTIONS", kind="obj")
        ev.call_closure(Closure(m, None, selfv=sv), [Opaque("D"), Opaque("I")], {}, st)
        ok = bool(got) and got[0] == ["'%sColor'" % k, "D", "I"]
        R.check(ok, rule_id, "accessor %sColor" % k, where(m), "%sColor(d, i) = colorFunc('%sColor', d, i=i)" % (k, k), "%sColor does not forward (its own option name, the datum, the index) to colorFunc: %s" % (k, got[0] if got else "no call"), nontrivial=False)


@rule("C09.COLOUR")
def colours(ctx, R):
    colour_slots(ctx, R, "C09.COLOUR")


def svg_path_points(p, i):
    f, out, r = p.run_svg("add_links")
    paths = [e for e in out if e["tag"] == "path"]
    if i >= len(paths):
        return f, None, None
    t, h = flat(paths[i]["attrib"]["d"])
    return f, t, h


@rule("C09.LINK")
def link(ctx, R):
    P = ctx.P
    for d in DIRECTIONS:
        for chain in ((False, True, 2) if getattr(ctx, "params", None) and ctx.params.get("big_instances") else (False, True)):
            ps, pt = emit.pipe(ctx, SVG, d, n=2, chain=chain), emit.pipe(ctx, TEX, d, n=2, chain=chain)
            g, doc, r2 = _tex(pt, "add_links")
            texs = [x for x in doc if "\\draw" in flat(x)[0]]
            for i in range(len(ps.nodes)):
                f, t, h = svg_path_points(ps, i)
                R.saw(f, g)
                tag = "%s chain=%s node %d" % (d, chain, i)
                if t is None or i >= len(texs):
                    R.bad("C09.LINK", tag, where(g), "link %d missing in %s" % (i, "SVG" if t is None else "TikZ"))
                    continue
                # SVG: sequence of commands with points
                toks = t.split(" ")
                pts = []
                cmds = []
                j = 0
                ok_fmt = True
                while j < len(toks):
                    c = toks[j]
                    n_ = {"M": 2, "L": 2, "C": 6}.get(c)
                    if n_ is None:
                        ok_fmt = False
                        break
                    vals = [_fill(x, h) for x in toks[j + 1: j + 1 + n_]]
                    cmds.append((c, vals))
                    j += 1 + n_
                R.check(ok_fmt and cmds and cmds[0][0] == "M", "C09.STEPFORMAT", tag + "|svg path grammar", where(f), "path is M/L/C commands with space-separated coordinates", "SVG path `%s` is not a sequence of `M x y` / `L x y` / `C x1 y1 x2 y2 x y`" % t[:80])
                if not ok_fmt:
                    continue
                # TikZ draws
                tt, th = flat(texs[i])
                draws = []
                for seg in tt.split(";"):
                    seg = seg.strip()
                    if not seg:
                        continue
                    m = re.match(r"^\\draw\[.*?\] \((.+?), (.+?)\) \.\. controls\n\((.+?), (.+?)\) and \((.+?), (.+?)\) \.\. \((.+?), (.+?)\)$", seg, re.S)
                    if m:
                        draws.append(("C", [_fill(m.group(k), th) for k in range(1, 9)]))
                        continue
                    m = re.match(r"^\\draw\[.*?\] \((.+?), (.+?)\) -- \((.+?), (.+?)\)$", seg, re.S)
                    if m:
                        draws.append(("L", [_fill(m.group(k), th) for k in range(1, 5)]))
                        continue
                    draws.append(("?", [seg[:40]]))
                # expected from the SVG commands
                cur = cmds[0][1]
                exp = []
                for c, v in cmds[1:]:
                    if c == "C":
                        exp.append(("C", cur + v))
                        cur = v[4:6]
                    elif c == "L":
                        exp.append(("L", cur + v))
                        cur = v
                    elif c == "M":
                        cur = v
                R.check(draws == exp, "C09.LINK", tag + "|point for point", where(g), "the TikZ segments are the SVG path: %d segments" % len(exp), "TikZ link differs from the SVG path: SVG %s vs TikZ %s (each segment must start where the previous ended and use the same control and end points)" % (exp, draws))
    # both consume renderer.generatePath(node)
    for backend, tikz in ((SVG, False), (TEX, True)):
        f = P.method(P.cls(backend), "add_links")
        # in add_links itself or in a method of the class it calls on self (a compute step split off the emit step)
        scope, todo = [f], [f]
        while todo:
            g_ = todo.pop()
            for c in calls_in(g_.node):
                if isinstance(c.func, ast.Attribute) and isinstance(c.func.value, ast.Name) and g_.params and c.func.value.id == g_.params[0]:
                    h_ = P.method(P.cls(backend), c.func.attr)
                    if h_ is not None and h_ not in scope and not h_.name.startswith("add_") and len(scope) < 6:
                        scope.append(h_)
                        todo.append(h_)
        cs = [c for g_ in scope for c in calls_in(g_.node) if isinstance(c.func, ast.Attribute) and c.func.attr == "generatePath"]
        ok = len(cs) == 1 and ntext(cs[0].func.value) == "self.renderer" and cs[0].args and isinstance(cs[0].args[0], ast.Name)
        if ok and tikz:
            ok = any(k.arg == "tikz" and const_value(k.value) is True for k in cs[0].keywords) or (len(cs[0].args) > 1 and const_value(cs[0].args[1]) is True)
        R.check(ok, "C09.LINK", "%s uses renderer.generatePath(node)" % f.qual, where(f), "shared path generator", "%s does not draw links from self.renderer.generatePath(node%s)" % (f.qual, ", tikz=True" if tikz else ""))


@rule("C09.STEPFORMAT")
def stepformat(ctx, R):
    P = ctx.P
    for name, letter, n in (("moveTo", "M", 1), ("lineTo", "L", 1), ("curveTo", "C", 3)):
        f = P.func("renderer." + name)
        R.saw(f)
        ev = new_eval(P)
        st = ev.new_state(f)
        args = [Seq("list", [Num.atom("x%d" % k), Num.atom("y%d" % k)]) for k in range(n)]
        r = ev.call_closure(Closure(f, None), args, {}, st)
        t, h = flat(r)
        want = letter + "".join(" <%d>" % k for k in range(2 * n))
        vals = _vals(h)
        wantv = []
        for k in range(n):
            wantv += ["x%d" % k, "y%d" % k]
        specs = {s for x, s in h}
        R.check(t == want and vals == wantv and all(s.startswith("%.") and s.endswith("f") for s in specs), "C09.STEPFORMAT", "renderer.%s" % name, where(f), "`%s` with all coordinates in order, fixed-point" % want, "renderer.%s writes `%s` with %s (%s): the TikZ reader splits on single spaces, dispatches on the first letter and reads the coordinates in order" % (name, t, vals, specs))
    # that the TeX reader dispatches on exactly these letters and reads the coordinates in order is decided by C09.LINK
    # (point-for-point equality of the TikZ segments with the SVG path, with and without stubs: M, C and L all occur)
    # curve helpers end at the second point
    for name in ("hCurveBetween", "vCurveBetween"):
        f = P.func("renderer." + name)
        ev = new_eval(P, inline_filter=lambda fn: fn.qual != "renderer.curveTo")
        st = ev.new_state(f)
        p1 = Seq("list", [Num.atom("ax"), Num.atom("ay")])
        p2 = Seq("list", [Num.atom("bx"), Num.atom("by")])
        r = ev.call_closure(Closure(f, None), [p1, p2], {}, st)
        k = key(r)
        R.check(k.startswith("renderer.curveTo(") and k.endswith(", [bx, by])"), "C09.STEPFORMAT", "renderer.%s" % name, where(f), "the curve ends at the second point", "renderer.%s returns %s: the curve must end at its second argument" % (name, k[:120]))


def _hex(ctx, R):
    from .c20 import hex_agree
    return hex_agree(ctx, R)


_hex.rule_id = "C20.HEX-AGREE"


def _lz(mod, fn, rid):
    def run(ctx, R):
        import importlib
        return getattr(importlib.import_module("sa.rules." + mod), fn)(ctx, R)

    run.rule_id = rid
    run.__name__ = fn
    return run

# both exporters draw the axis iff showTicks (C07.EXPORT-CALLS); TeX colour names must be unique per datum (C20.NUMERATION)
RULES = [main_axis, ticks, labels, dots, colours, link, stepformat, _hex, _lz("c07", "export_calls", "C07.EXPORT-CALLS"), _lz("c20", "numeration", "C20.NUMERATION"), _lz("c11", "timeline_opts", "GEN.OPTS-MERGE"), _lz("c19", "table", "C19.TABLE")]
