"""Rule registry: property id -> rules + evidence metadata."""
import importlib

_REG = None

PROPS = ["C%02d" % i for i in range(1, 21)]


def registry():
    global _REG
    if _REG is None:
        _REG = {}
        for p in PROPS:
            try:
                m = importlib.import_module("sa.rules.%s" % p.lower())
            except ModuleNotFoundError as e:
                if e.name == "sa.rules.%s" % p.lower():
                    continue
                raise
            _REG[p] = {
                "rules": list(m.RULES),
                "explanation": m.EXPLANATION,
                "assumptions": list(getattr(m, "ASSUMPTIONS", [])),
            }
    return _REG
