"""Rule registry: property id -> rules + evidence metadata."""
import importlib

_REG = None

PROPS = ["C%02d" % i for i in range(1, 21)]

# modules each property is anchored in: (modules, floor of functions examined, floor of self-attribute reads)
# floors (functions, attribute reads) guard against a rule that looks at nothing: well below today's counts
GEN_SCOPE = {
    "C01": (("removeOverlap", "force", "vpsc", "node"), 35, 60),
    "C02": (("removeOverlap", "force", "vpsc", "node"), 35, 60),
    "C03": (("removeOverlap", "force", "vpsc", "node"), 35, 60),
    "C04": (("distributor", "force", "node"), 17, 24),
    "C05": (("vpsc",), 22, 32),
    "C06": (("distributor", "force", "node", "removeOverlap"), 19, 24),
    "C07": (("timeline", "renderer", "utils", "node"), 35, 60),
    "C08": (("timeline", "renderer", "node"), 32, 60),
    "C09": (("timeline", "renderer", "utils"), 25, 56),
    "C10": (("timeline", "renderer", "utils"), 25, 56),
    "C12": (("scale",), 22, 20),
    "C13": (("scale",), 22, 20),
    "C14": (("scale", "d3_time"), 27, 20),
    "C15": (("scale", "d3_time"), 27, 20),
    "C16": (("scale", "d3_time"), 27, 20),
    "C17": (("d3_time",), 6, 4),
    "C19": (("tex",), 2, 0),
    "C20": (("utils",), 2, 0),
}
GEN_NOTE = (
    "  GEN.DEFINED / GEN.ATTRS over every function of the modules the property is anchored in: every local is definitely "
    "assigned on all paths before each use, every name resolves, every attribute read or method called through self exists "
    "with a matching signature; plus the source-level crash lints GEN.TYPED-ATTRS, GEN.SUPERINIT, GEN.STRARITH, GEN.BUILTIN-ARGS, "
    "GEN.DICTKEY, GEN.ATTR-ORDER (a NameError / AttributeError / TypeError there breaks the property for every input that reaches it)."
)


def registry():
    global _REG
    if _REG is None:
        _REG = {}
        for p in PROPS:
            try:
                m = importlib.import_module("sa.rules.%s" % p.lower())
            except ModuleNotFoundError as e:
                if e.name == "sa.rules.%s" % p.lower():
                    continue
                raise
            rules = list(m.RULES)
            expl = m.EXPLANATION
            if p in GEN_SCOPE and not any(getattr(r, "rule_id", "") == "GEN.DEFINED" for r in rules):
                from .c11 import gen_for

                rules.append(gen_for(*GEN_SCOPE[p]))
                expl = expl + GEN_NOTE
            _REG[p] = {
                "rules": rules,
                "explanation": expl,
                "assumptions": list(getattr(m, "ASSUMPTIONS", [])),
            }
    return _REG
