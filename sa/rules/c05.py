"""C05 — the separation-constraint solver returns a feasible, certified-optimal solution."""
from .util import *
from . import vpsc_pack
from . import state as statepack

EXPLANATION = (
    "Feasibility is decided through the chain of structural obligations that together are the textbook invariant "
    "argument for VPSC (VPSC.FEAS): the merge loop re-fetches the most violated constraint on every pass and after "
    "every block mutation (REFETCH), runs while 'v and (v.equality or slack < Z and not active)' with -1e-6<=Z<=0 "
    "(EXIT), mostViolated is an arg-min scan of the whole inactive list from a non-negative sentinel that can never "
    "return an unsatisfiable constraint (ARGMIN), a merge shifts all variables of the absorbed block by the distance "
    "that makes the merged constraint exactly tight, activates it, moves the variables and removes the absorbed "
    "block (MERGE-TIGHT, BLOCKLIST), split blocks are rebuilt with tight offsets (SPLIT-TIGHT), deactivated "
    "constraints are re-queued on every path (REQUEUE), the same-block branch flags or splits on every path and "
    "`unsatisfiable` is set nowhere else (CYCLE, UNSAT), block indices follow list positions and removal is "
    "swap-with-last (INDEX, REMOVE), position/slack are the defining formulas (POSITION).  Optimality only through "
    "necessary structure (VPSC.OPT): split-before-merge, multiplier tolerance in [-0.1,1e-3], dfdv a positive multiple "
    "of the cost's derivative, multiplier accumulation with the right scale and sign, multipliers recomputed before "
    "use, block position = stationary point of the very cost Block.cost reports (polynomial identity), convergence "
    "loop, every block refreshed.  COST: Block.cost/Blocks.cost are the full sums and solve() returns the cost "
    "computed after the last satisfy().  No solver state outside the Solver/Blocks/Block objects (STATE).  Not "
    "decided: that the multiplier-driven search reaches the optimum; termination on cyclic inputs beyond CYCLE."
    '  VPSC.ALLCS: Solver.__init__ keeps every constraint and variable it is given (no filter), registers each constraint with both ends unconditionally, resets cIn/cOut of every variable, and the inactive list is a private copy.  Blocks.split is decided on its value-numbered loop body: no block is passed over, both new blocks are inserted once, the split block (looked up before the split) is removed, the constraint is re-queued, and the multiplier bound is read from the path facts at the split call.  The merge loop is analysed after loop rotation (`while True: fetch; if not cond: break; ...` is the same loop).'
    '  VPSC.SPLIT-TIGHT also runs populateSplitBlock on a concrete five-variable tree (offsets O0+G01, O0+G01+G12, O0-G30, pre-order) and VPSC.INDEX runs Blocks.__init__ on three variables; VPSC.ARGMIN requires the slot index of mostViolated to be a position in the inactive list itself; VPSC.EXIT: the merge loop ends only through its test.'
)
ASSUMPTIONS = ["positive weights and scales (property domain)"]


@rule("C05.STATE")
def state_rule(ctx, R):
    statepack.no_hidden_state(ctx, R, "C05.STATE", modules=["vpsc"], classes={
        "vpsc.Solver": {"vs", "cs", "inactive", "bs"},
        "vpsc.Blocks": {"vs", "_list"},
        "vpsc.Block": {"vars", "ps", "posn", "blockInd"},
        "vpsc.PositionStats": {"scale", "AB", "AD", "A2"},
        "vpsc.Constraint": {"left", "right", "gap", "equality", "active", "unsatisfiable", "lm"},
        "vpsc.Variable": {"desiredPosition", "weight", "scale", "offset", "node", "block", "cIn", "cOut"},
    })


RULES = vpsc_pack.FEAS + vpsc_pack.OPT + vpsc_pack.COST + [state_rule]
