"""VPSC packs: structure of the feasibility (FEAS) and optimality (OPT) arguments and COST."""
import ast
from fractions import Fraction

from .util import *
from ..sym import Bound,  RangeV, Cat, EnumV

S = "vpsc.Solver"


def _calls(n):
    if n.ast is None:
        return []
    a = n.ast
    out = calls_in(a)
    if isinstance(a, ast.Call):
        out = [a] + out
    return out


def _has_call(n, pred):
    return any(pred(c) for c in _calls(n))


def _attr_call(c, attr, recv_suffix=None):
    if not (isinstance(c.func, ast.Attribute) and c.func.attr == attr):
        return False
    if recv_suffix is None:
        return True
    return ntext(c.func.value).endswith(recv_suffix)


# ---------------------------------------------------------------------------
# FEAS
# ---------------------------------------------------------------------------

def _satisfy_loop(ctx):
    def build():
        P = ctx.P
        f = P.func(S + ".satisfy")
        cfg = ctx.cfg(f)
        loops = [c for c in cfg.loops if isinstance(c["stmt"], ast.While)]
        if len(loops) == 1 and isinstance(loops[0]["stmt"].test, ast.Constant):
            # `while True: v = fetch(); if not ...: break; ...` is the same loop written loop-and-a-half: rotate it
            from ..normalise import rotate_while_true
            from ..cfg import CFG

            body, nrot = rotate_while_true(f.node.body)
            if nrot:
                cfg = CFG(body)
                loops = [c for c in cfg.loops if isinstance(c["stmt"], ast.While)]
        if len(loops) != 1:
            raise Undecided("Solver.satisfy has %d while loops" % len(loops))
        return f, cfg, loops[0]

    return ctx.get("vpsc.satisfy_loop", build)


@rule("VPSC.REFETCH")
def refetch(ctx, R):
    f, cfg, loop = _satisfy_loop(ctx)
    R.saw(f)
    head = loop["head"]
    test = loop["stmt"].test
    # variable examined by the test
    names = [n.id for n in ast.walk(test) if isinstance(n, ast.Name) and n.id not in ("self", "Solver")]
    in_test = any(isinstance(c.func, ast.Attribute) and c.func.attr == "mostViolated" for c in ast.walk(test) if isinstance(c, ast.Call))
    if in_test:
        R.ok("VPSC.REFETCH", "Solver.satisfy|loop test fetches", where(f, test), "the loop test itself calls mostViolated()")
        # the fetched value must be what the test (and the body) examines: no other assignment to a walrus target
        wt = [n.target.id for n in ast.walk(test) if isinstance(n, ast.NamedExpr) and isinstance(n.target, ast.Name)]
        for n in cfg.loop_body(loop):
            if n.kind == "stmt" and isinstance(n.ast, (ast.Assign, ast.AugAssign)):
                tg = n.ast.targets if isinstance(n.ast, ast.Assign) else [n.ast.target]
                if any(isinstance(t, ast.Name) and t.id in wt for t in tg):
                    R.bad("VPSC.REFETCH", "Solver.satisfy|`%s`" % ntext(n.ast)[:50], where(f, n.ast), "the loop variable is assigned from something other than mostViolated()")
            elif _has_call(n, lambda c: isinstance(c.func, ast.Attribute) and c.func.attr in ("merge", "insert", "remove", "splitBetween", "split", "mergeAcross")):
                R.ok("VPSC.REFETCH", "Solver.satisfy|after `%s`" % ntext(n.ast)[:50], where(f, n.ast), "every path from this mutation to the next pass goes through the fetching test")
        return
    if not names:
        R.bad("VPSC.REFETCH", "Solver.satisfy|loop variable", where(f, test), "the merge loop's test examines no constraint variable")
        return
    var = names[0]
    body = cfg.loop_body(loop)
    fetch = [n for n in body if n.kind == "stmt" and isinstance(n.ast, ast.Assign) and any(isinstance(t, ast.Name) and t.id == var for t in n.ast.targets)
             and isinstance(n.ast.value, ast.Call) and isinstance(n.ast.value.func, ast.Attribute) and n.ast.value.func.attr == "mostViolated"]
    # (1) every trip around the loop passes a re-fetch
    tsucc = [s for s in cfg.succ[head] if cfg.elabel.get((head, s)) is True]
    stale = False
    for s in tsucc:
        if s is head or (s not in fetch and head in cfg.reach(s, avoid=fetch)) :
            stale = True
    R.check(not stale, "VPSC.REFETCH", "Solver.satisfy|every pass re-fetches %s" % var, where(f, test),
            "every path from the loop body back to the loop test reassigns %s = self.mostViolated()" % var,
            "a path from the loop body back to the loop test keeps the stale `%s`: after a merge the loop re-tests the now active constraint and stops, leaving other violated constraints to the cost-based outer loop (violations below its 1e-4 threshold survive)" % var)
    # (2) after each mutation of the block structure the re-fetch comes before the test
    mut = [n for n in body if _has_call(n, lambda c: isinstance(c.func, ast.Attribute) and c.func.attr in ("merge", "insert", "remove", "splitBetween", "split", "mergeAcross"))
           or (n.kind == "stmt" and isinstance(n.ast, ast.Assign) and any(isinstance(t, ast.Attribute) and t.attr in ("unsatisfiable", "active") for t in n.ast.targets))]
    for m in mut:
        ok = m in fetch or not cfg.exists_path(m, head, avoid=fetch)
        R.check(ok, "VPSC.REFETCH", "Solver.satisfy|after `%s`" % ntext(m.ast)[:50], where(f, m.ast), "re-fetch follows this mutation on every path to the test", "after `%s` a path reaches the loop test without re-fetching the most violated constraint" % ntext(m.ast)[:60])
    # assignments to var other than mostViolated() inside the loop would break the invariant
    for n in body:
        if n.kind == "stmt" and isinstance(n.ast, (ast.Assign, ast.AugAssign)):
            tg = n.ast.targets if isinstance(n.ast, ast.Assign) else [n.ast.target]
            if any(isinstance(t, ast.Name) and t.id == var for t in tg) and n not in fetch:
                R.bad("VPSC.REFETCH", "Solver.satisfy|`%s`" % ntext(n.ast)[:50], where(f, n.ast), "the loop variable is assigned from something other than mostViolated()")


def _norm_bool(t):
    """Canonical string of a condition tree with sorted and/or arguments."""
    if isinstance(t, tuple):
        if t[0] in ("and", "or"):
            return "%s(%s)" % (t[0], ", ".join(sorted(_norm_bool(x) for x in t[1:])))
        return "%s(%s)" % (t[0], ", ".join(_norm_bool(x) for x in t[1:]))
    return ckey(t)


@rule("VPSC.EXIT")
def exit_rule(ctx, R):
    P = ctx.P
    f, cfg, loop = _satisfy_loop(ctx)
    test = loop["stmt"].test
    # the loop test is the only way out: a break / return inside the body (an iteration budget, a time-out) leaves
    # constraints violated that the test would still have merged
    early = [n for n in ast.walk(ast.Module(body=list(loop["stmt"].body), type_ignores=[])) if isinstance(n, (ast.Break, ast.Return))]
    inner_loops = [n for n in ast.walk(ast.Module(body=list(loop["stmt"].body), type_ignores=[])) if isinstance(n, (ast.For, ast.While))]
    early = [n for n in early if not any(n in list(ast.walk(l)) for l in inner_loops if isinstance(n, ast.Break))]
    R.check(not early, "VPSC.EXIT", "Solver.satisfy|no other exit", where(f, early[0]) if early else where(f), "the merge loop ends only through its test", "the merge loop can be left by `%s` while its test still holds: constraints that are still violated stay unmerged (infeasible result)" % (ntext(early[0]) if early else ""))
    ev = new_eval(P, inline_filter=lambda fn: False)
    st = ev.new_state(f)
    s = Opaque("self", cls=P.cls(S), kind="obj")
    st.env.vars[f.params[0]] = s
    names = [n.id for n in ast.walk(test) if isinstance(n, ast.Name) and n.id not in ("self", "Solver")]
    var = names[0] if names else "v"
    st.env.vars[var] = Opaque("V")
    if any(isinstance(n, ast.NamedExpr) for n in ast.walk(test)):
        ev.on_call = lambda fv, args, kwargs, node, st_: Opaque("V") if key(fv).rstrip(">").endswith("mostViolated") else None
    c = ev.cond(test, st)
    if not isinstance(c, Cond):
        R.bad("VPSC.EXIT", "Solver.satisfy|loop test", where(f, test), "loop test folds to %s" % show(c))
        return
    got = _norm_bool(c.tree)
    # read Z out of the tree: cmp(lt|le, V.slack(), Z)
    zs = []

    def walk(t):
        if isinstance(t, tuple):
            if t[0] == "cmp" and t[1] in ("lt", "le") and key(t[2]) == "V.slack()":
                zs.append((t[1], t[3]))
            for x in t[1:]:
                walk(x)

    walk(c.tree)
    ok = False
    detail = got
    if len(zs) == 1:
        op, z = zs[0]
        zc = num_const(z)
        want = _norm_bool(("and", ("truth", Opaque("V")), ("or", ("truth", Opaque("V.equality")), ("and", ("cmp", op, Opaque("V.slack()"), z), ("not", ("truth", Opaque("V.active")))))))
        shape = got == want
        zok = zc is not None and Fraction(-1, 10**6) <= zc <= 0
        ok = shape and zok
        detail = "test %s; Z = %s" % (got, zc)
        if shape and not zok:
            detail = "the loop stops while constraints are still violated by up to %s (bound must be within [-1e-6, 0])" % zc
    R.check(ok, "VPSC.EXIT", "Solver.satisfy|loop test", where(f, test), "loop runs while v and (v.equality or slack(v) < Z and not v.active), Z in [-1e-6, 0]",
            "the merge loop's test is not 'v and (v.equality or v.slack() < Z and not v.active)' with -1e-6 <= Z <= 0: %s" % detail)


def _foreign_slot_index(f):
    """(store node, index name, description of the foreign sequence) if a store `L[idx] = ...` into the inactive list (or a
    local alias of it) uses an index derived from `enumerate(X)` / `range(len(X))` for an X that is not that list."""
    selfn = f.params[0] if f.params else "self"
    L = {"%s.inactive" % selfn}
    for n in walk_local(f.node):
        if isinstance(n, ast.Assign) and len(n.targets) == 1 and isinstance(n.targets[0], ast.Name) and ntext(n.value) in L:
            L.add(n.targets[0].id)
    lens = set()  # names holding len(L)
    for n in walk_local(f.node):
        if isinstance(n, ast.Assign) and len(n.targets) == 1 and isinstance(n.targets[0], ast.Name) and isinstance(n.value, ast.Call) and ntext(n.value.func) == "len" and n.value.args and ntext(n.value.args[0]) in L:
            lens.add(n.targets[0].id)

    def foreign_source(e):
        """Description of the sequence if e yields positions of something other than L."""
        if isinstance(e, ast.Call) and ntext(e.func) == "enumerate" and e.args and ntext(e.args[0]) not in L:
            return "`%s`" % ntext(e.args[0])[:50]
        if isinstance(e, ast.Call) and ntext(e.func) == "range" and e.args:
            a = e.args[-1] if len(e.args) <= 2 else e.args[1]
            if isinstance(a, ast.Call) and ntext(a.func) == "len" and a.args and ntext(a.args[0]) not in L:
                return "`%s`" % ntext(a.args[0])[:50]
        return None

    taint = {}
    changed = True
    rounds = 0
    while changed and rounds < 10:
        changed = False
        rounds += 1
        for n in ast.walk(f.node):
            src = None
            tgts = []
            if isinstance(n, ast.Assign):
                src, tgts = n.value, n.targets
            elif isinstance(n, (ast.For, ast.comprehension)):
                src, tgts = n.iter, [n.target]
            elif isinstance(n, ast.NamedExpr):
                src, tgts = n.value, [n.target]
            if src is None:
                continue
            why = foreign_source(src)
            if why is None:
                for x in ast.walk(src):
                    if isinstance(x, ast.Name) and x.id in taint:
                        why = taint[x.id]
                        break
                    fs = foreign_source(x) if isinstance(x, ast.Call) else None
                    if fs:
                        why = fs
                        break
            if why is None:
                continue
            for t in tgts:
                for x in ast.walk(t):
                    if isinstance(x, ast.Name) and isinstance(x.ctx, ast.Store) and x.id not in taint and x.id not in L:
                        taint[x.id] = why
                        changed = True
    for n in walk_local(f.node):
        if isinstance(n, ast.Assign):
            for t in n.targets:
                if isinstance(t, ast.Subscript) and ntext(t.value) in L:
                    for x in ast.walk(t.slice):
                        if isinstance(x, ast.Name) and x.id in taint:
                            return n, x.id, taint[x.id]
    return None


@rule("VPSC.ARGMIN")
def argmin(ctx, R):
    P = ctx.P
    f = P.func(S + ".mostViolated")
    R.saw(f)
    # whatever the shape of the scan: the slot of the inactive list that is overwritten must be addressed by a position *in
    # that list*.  An index that comes from enumerating (or counting) another sequence - a filtered view, a sorted copy -
    # addresses some other constraint's slot: a live constraint is dropped and the taken one stays queued.
    slot = _foreign_slot_index(f)
    if slot is not None:
        R.bad("VPSC.ARGMIN", f.qual + "|slot index", where(f, slot[0]), "`%s`: the index `%s` is a position in %s, not in the inactive list the slot belongs to: the wrong constraint is removed from the list" % (ntext(slot[0])[:60], slot[1], slot[2]))
    loops = [n for n in f.node.body if isinstance(n, (ast.For, ast.While))]
    if len(loops) != 1 or not isinstance(loops[0], ast.For):
        R.undecided("VPSC.ARGMIN", f.qual + "|scan", where(f), "mostViolated is not a single scan over the inactive list: the arg-min recogniser does not apply")
        return
    lp = loops[0]
    ev = new_eval(P, inline_filter=lambda fn: fn.qual != "vpsc.Constraint.slack")
    st = ev.new_state(f)
    s = Opaque("self", cls=P.cls(S), kind="obj")
    st.env.vars[f.params[0]] = s
    st.heap[("self", "inactive")] = Opaque("INACTIVE", cls=P.cls("vpsc.Constraint"), kind="seq")
    pre = f.node.body[: f.node.body.index(lp)]
    ev.block(pre, st, [])
    # sentinel: the tracked minimum starts >= 0
    it = ev.expr(lp.iter, st)
    full = False
    if isinstance(it, RangeV):
        a = [as_num(x) for x in it.args]
        ln = Num.atom("len(INACTIVE)")
        full = (len(a) == 1 and a[0].equals(ln)) or (len(a) == 2 and a[0].is_const() and a[0].const_value() == 0 and a[1].equals(ln))
    elif key(it) in ("INACTIVE", "enumerate(INACTIVE)"):
        full = True
    R.check(full, "VPSC.ARGMIN", f.qual + "|scans whole list", where(f, lp), "the scan covers every inactive constraint", "the scan iterates %s: not the whole inactive list" % show(it))
    # body for an arbitrary non-equality, satisfiable constraint
    pre_vars = dict(st.env.vars)
    cands = [k for k, v in pre_vars.items() if isinstance(v, Ext) or (num_const(v) is not None)]
    sentinel_ok = False
    minvar = None
    for k, v in pre_vars.items():
        if isinstance(v, Ext) and v.name in ("sys.maxsize", "math.inf"):
            minvar = k
            sentinel_ok = True
        elif key(v) in ("float('inf')",) or (isinstance(v, Opaque) and "inf" in v.text):
            minvar = k
            sentinel_ok = True
    if minvar is None:
        for k, v in pre_vars.items():
            c = num_const(v)
            if c is not None and c >= 10**6 and k not in ("n",):
                minvar, sentinel_ok = k, True
    R.check(sentinel_ok, "VPSC.ARGMIN", f.qual + "|sentinel", where(f), "the running minimum starts at a sentinel >= 0 (%s)" % minvar, "no running minimum initialised to a large non-negative sentinel before the scan")
    if minvar is None:
        return
    resvars = [k for k, v in pre_vars.items() if key(v) == "None"]
    st.env.vars[minvar] = Opaque("MS")
    for k in resvars:
        st.env.vars[k] = Opaque("BEST")
    c = Opaque("c", cls=P.cls("vpsc.Constraint"), kind="obj")
    ev.assume("truth(c.unsatisfiable)", False)
    ev.assume("truth(c.equality)", False)

    def ogi(base, idx, st_):
        if key(base) == "INACTIVE":
            return c
        return None

    ev.on_getitem = ogi
    if isinstance(lp.target, ast.Name):
        st.env.vars[lp.target.id] = Opaque("i") if isinstance(it, RangeV) else c
    else:
        ev.bind(lp.target, Seq("tuple", [Opaque("i"), c]), st)
    ev.block(lp.body, st, [])
    ms = st.env.lookup(minvar)
    cond = "cmp(lt, c.slack(), MS)"
    okms = key(ms) in ("phi(%s, c.slack(), MS)" % cond, "phi(cmp(le, c.slack(), MS), c.slack(), MS)") or key(ms) == "min(MS, c.slack())"
    best = [k for k in resvars if key(st.env.lookup(k)) in ("phi(%s, c, BEST)" % cond, "phi(cmp(le, c.slack(), MS), c, BEST)")]
    R.check(okms and len(best) >= 1, "VPSC.ARGMIN", f.qual + "|argmin update", where(f, lp), "a smaller slack replaces the running minimum and the candidate", "one pass over a constraint turns (min, best) into (%s, %s): not the arg-min update on slack" % (show(ms), [show(st.env.lookup(k)) for k in resvars]))
    # unsatisfiable constraints can never be chosen: skipped, or slack() returns a sentinel >= 0
    ev2 = new_eval(P)
    ev2.assume("truth(c.unsatisfiable)", True)
    sl = P.func("vpsc.Constraint.slack")
    st2 = ev2.new_state(sl)
    r = ev2.call_closure(Closure(sl, None, selfv=c), [], {}, st2)
    slack_sentinel = isinstance(r, Ext) and r.name in ("sys.maxsize", "math.inf") or (num_const(r) is not None and num_const(r) >= 0)
    ev3 = new_eval(P, inline_filter=lambda fn: fn.qual != "vpsc.Constraint.slack")
    ev3.assume("truth(c.unsatisfiable)", True)
    ev3.on_getitem = ogi
    st3 = ev3.new_state(f)
    st3.env.vars.update({f.params[0]: s, minvar: Opaque("MS")})
    for k in resvars:
        st3.env.vars[k] = Opaque("BEST")
    for k, v in pre_vars.items():
        st3.env.vars.setdefault(k, v)
    if isinstance(lp.target, ast.Name):
        st3.env.vars[lp.target.id] = Opaque("i") if isinstance(it, RangeV) else c
    ev3.block(lp.body, st3, [])
    skipped = all(key(st3.env.lookup(k)) == "BEST" for k in resvars) and key(st3.env.lookup(minvar)) == "MS"
    R.check(skipped or slack_sentinel, "VPSC.ARGMIN", f.qual + "|unsatisfiable never chosen", where(f, lp), "unsatisfiable constraints are skipped (%s) or have sentinel slack (%s)" % (skipped, slack_sentinel), "a constraint flagged unsatisfiable can be chosen again: the merge loop can spin on it")
    # returns the candidate
    rets = [n for n in f.node.body if isinstance(n, ast.Return)]
    R.check(len(rets) == 1 and isinstance(rets[0].value, ast.Name) and rets[0].value.id in resvars, "VPSC.ARGMIN", f.qual + "|returns candidate", where(f), "returns the arg-min", "mostViolated does not return the tracked candidate")


def _merge_eval(ctx, left_smaller):
    P = ctx.P
    f = P.func("vpsc.Blocks.merge")
    log = []

    def on_call(fv, args, kwargs, node, st):
        if isinstance(fv, Closure) and fv.func.qual == "vpsc.Blocks.remove":
            log.append(("remove", key(args[0]) if args else None))
            return NONE
        if isinstance(fv, Closure) and fv.func.qual == "vpsc.Block.addVariable":
            log.append(("addVariable", key(fv.selfv), key(args[0]) if args else None))
            return NONE
        if isinstance(fv, Closure) and fv.func.qual == "vpsc.PositionStats.getPosn":
            return Opaque("%s.getPosn()" % key(fv.selfv))
        return None

    ev = new_eval(P, on_call=on_call)
    BL = P.cls("vpsc.Block")
    VAR = P.cls("vpsc.Variable")
    ev.field_cls.update({"block": BL, "vars": VAR, "left": VAR, "right": VAR})
    ev.field_cls[("elem", "c.left.block.vars")] = VAR
    ev.field_cls[("elem", "c.right.block.vars")] = VAR
    for form in ("cmp(lt, len(c.left.block.vars), len(c.right.block.vars))",):
        ev.assume(form, left_smaller)
    ev.assume("cmp(le, len(c.left.block.vars), len(c.right.block.vars))", left_smaller)
    ev.assume("cmp(lt, len(c.right.block.vars), len(c.left.block.vars))", not left_smaller)
    ev.assume("cmp(le, len(c.right.block.vars), len(c.left.block.vars))", not left_smaller)
    st = ev.new_state(f)
    s = Opaque("self", cls=P.cls("vpsc.Blocks"), kind="obj")
    c = Opaque("c", cls=P.cls("vpsc.Constraint"), kind="obj")
    ev.call_closure(Closure(f, None, selfv=s), [c], {}, st)
    return ev, st, log, f


def _bl(ctx):
    """Name of the attribute in which `Blocks` keeps its list of blocks (what `insert` appends to)."""
    def find():
        P = ctx.P
        f = P.func("vpsc.Blocks.insert")
        for c in calls_in(f.node):
            if isinstance(c.func, ast.Attribute) and c.func.attr == "append" and isinstance(c.func.value, ast.Attribute) and isinstance(c.func.value.value, ast.Name) and f.params and c.func.value.value.id == f.params[0]:
                return c.func.value.attr
        g = P.func("vpsc.Blocks.__init__")
        for n in ast.walk(g.node):
            if isinstance(n, ast.Assign) and len(n.targets) == 1 and isinstance(n.targets[0], ast.Attribute) and isinstance(n.targets[0].value, ast.Name) and n.targets[0].value.id == g.params[0] and isinstance(n.value, (ast.List, ast.BinOp)):
                return n.targets[0].attr
        return "_list"

    return ctx.get("vpsc.blocklist-attr", find)


def _strip_copy(k):
    """Key of the sequence a snapshot expression copies: list(X), tuple(X), X[:], X.copy(), copy of a copy."""
    import re

    while True:
        m = re.match(r"^(?:list|tuple)\((.*)\)$", k) or re.match(r"^(.*)\.copy\(\)$", k) or re.match(r"^(.*)\[:\]$", k)
        if not m:
            return k
        k = m.group(1)


@rule("VPSC.MERGE-TIGHT")
def merge_tight(ctx, R):
    P = ctx.P
    for left_smaller in (True, False):
        ev, st, log, f = _merge_eval(ctx, left_smaller)
        R.saw(f, P.func("vpsc.Block.mergeAcross"))
        tag = "len(l.vars) %s len(r.vars)" % ("<" if left_smaller else ">=")
        shifts = {}
        covered = {}
        for e in st.events:
            if e[0] == "loop":
                it, el = e[1], e[2]
                itk = key(it)
                blk = None
                if "c.left.block.vars" in itk:
                    blk = "left"
                elif "c.right.block.vars" in itk:
                    blk = "right"
                for b in e[3]:
                    if b[0] == "setattr" and b[2] == "offset" and blk:
                        elk = b[1]
                        v = as_num(b[3])
                        if v is not None:
                            shifts[blk] = v - Num.atom("%s.offset" % elk)
                        itk = _strip_copy(itk)  # iterating a snapshot of the list visits the same variables
                        full = itk in ("c.%s.block.vars" % blk, "range(len(c.%s.block.vars))" % blk, "enumerate(c.%s.block.vars)" % blk)
                        covered[blk] = full
        if len(shifts) != 1:
            R.bad("VPSC.MERGE-TIGHT", tag + "|shift", where(f), "merging does not shift the offsets of exactly one of the two blocks (found %s)" % sorted(shifts))
            continue
        blk, shift = next(iter(shifts.items()))
        R.check(covered.get(blk), "VPSC.MERGE-TIGHT", tag + "|all variables shifted", where(f), "every variable of the absorbed block is shifted", "not every variable of the absorbed block is shifted by the merge distance")
        lo = A("c.left.offset") + (shift if blk == "left" else C(0))
        ro = A("c.right.offset") + (shift if blk == "right" else C(0))
        resid = ro - lo - A("c.gap")
        R.check(resid.equals(C(0)), "VPSC.MERGE-TIGHT", tag + "|tight", where(f), "after the merge right.offset - left.offset - gap == 0", "after merging across c the residual right.offset - left.offset - gap is %s, not 0: the merged constraint is not tight (violated or slack inside one block)" % resid.key())
        # the constraint becomes active, absorbed block's variables join the other block, absorbed block is removed
        act = st.heap.get(("c", "active"))
        R.check(act is not None and key(act) == "True", "VPSC.MERGE-TIGHT", tag + "|active", where(f), "c.active = True", "the merged constraint is not marked active")
        other = "right" if blk == "left" else "left"
        joined = [x for x in log if x[0] == "addVariable" and x[1] == "c.%s.block" % other]
        removed = [x for x in log if x[0] == "remove"]
        R.check(bool(joined), "VPSC.BLOCKLIST", "Blocks.merge " + tag + "|variables join", where(f), "absorbed variables are added to the surviving block", "the absorbed block's variables are not added to the surviving block")
        R.check(removed == [("remove", "c.%s.block" % blk)], "VPSC.BLOCKLIST", "Blocks.merge " + tag + "|absorbed removed", where(f), "the absorbed block leaves the block list", "after the merge the block list removes %s (expected exactly the absorbed block c.%s.block)" % ([x[1] for x in removed], blk))
        # surviving block's position is recomputed
        surv = "c.%s.block" % other
        posn = st.heap.get((surv, "posn"))
        R.check(posn is not None and "getPosn()" in key(posn), "VPSC.MERGE-TIGHT", tag + "|position recomputed", where(f), "surviving block position recomputed from its statistics", "the surviving block's position is not recomputed after the merge")


def _visit_eval(ctx, fq, toward_right, extra_hook=None):
    """Evaluate method fq(self=B, v, ...) with Variable.visitNeighbours(prev, cb) replaced by one
    symbolic callback invocation cb(c, n) for an arbitrary active constraint c whose far end is n."""
    P = ctx.P
    f = P.func(fq)
    info = {"visits": [], "calls": []}

    def on_call(fv, args, kwargs, node, st):
        if isinstance(fv, Closure) and fv.func.qual == "vpsc.Variable.visitNeighbours":
            info["visits"].append((key(fv.selfv), key(args[0]) if args else None))
            if len(args) >= 2:
                ev.call(args[1], [Opaque("c"), Opaque("n")], {}, st)
            return NONE
        if isinstance(fv, Closure) and fv.func.qual in ("vpsc.Block.addVariable",):
            info["calls"].append((fv.func.name, key(fv.selfv), [key(a) for a in args]))
            return NONE
        if isinstance(fv, Closure) and fv.func.qual == fq and ev.stack and any(x is f for x in ev.stack):
            info["calls"].append((fv.func.name, key(fv.selfv), [key(a) for a in args]))
            return Num.atom("SUB") if fq.endswith("compute_lm") else NONE
        if isinstance(fv, Opaque) and fv.text == "POST":
            info["calls"].append(("POST", None, [key(a) for a in args]))
            return NONE
        if extra_hook:
            return extra_hook(fv, args, kwargs, node, st)
        return None

    ev = new_eval(P, on_call=on_call, inline_filter=lambda fn: fn.qual not in ("vpsc.Variable.dfdv", "vpsc.Variable.position"))
    ev.field_cls.update({"left": P.cls("vpsc.Variable"), "right": P.cls("vpsc.Variable")})
    for a_, b_ in (("n", "c.right"), ("c.right", "n")):
        ev.assume("cmp(eq, %s, %s)" % (a_, b_), toward_right)
        ev.assume("cmp(is, %s, %s)" % (a_, b_), toward_right)
    for a_, b_ in (("n", "c.left"), ("c.left", "n")):
        ev.assume("cmp(eq, %s, %s)" % (a_, b_), not toward_right)
        ev.assume("cmp(is, %s, %s)" % (a_, b_), not toward_right)
    st = ev.new_state(f)
    B = Opaque("B", cls=P.cls("vpsc.Block"), kind="obj")
    v = Opaque("v", cls=P.cls("vpsc.Variable"), kind="obj")
    return ev, st, f, B, v, info


def _split_instance(ctx):
    """populateSplitBlock run on a concrete four-variable tree (v0 -> v1 -> v2 active, v3 -> v0 active, one inactive
    constraint v0 -> v4): returns (offsets by variable, order in which variables were added) or None when the evaluation did
    not stay concrete.  Used when the symbolic one-step argument does not recognise the spelling of the walk."""
    P = ctx.P
    f = P.func("vpsc.Block.populateSplitBlock")
    added = []

    def on_call(fv, args, kwargs, node, st_):
        if isinstance(fv, Closure) and fv.func.qual == "vpsc.Block.addVariable":
            added.append(key(args[0]) if args else None)
            return NONE
        return None

    ev = new_eval(P, on_call=on_call)
    ev.unroll_while = True
    ev.rec_limit = 8
    VAR, CON = P.cls("vpsc.Variable"), P.cls("vpsc.Constraint")
    vs = [Opaque("v%d" % i, cls=VAR, kind="obj") for i in range(5)]
    st = ev.new_state(f)
    cons = {"c01": (0, 1, True), "c12": (1, 2, True), "c30": (3, 0, True), "c04": (0, 4, False)}
    cobj = {k: Opaque(k, cls=CON, kind="obj") for k in cons}
    for v in vs:
        st.heap[(v.text, "cIn")] = Seq("list", [cobj[k] for k, (l, r, a) in cons.items() if r == int(v.text[1:])])
        st.heap[(v.text, "cOut")] = Seq("list", [cobj[k] for k, (l, r, a) in cons.items() if l == int(v.text[1:])])
    for k, (l, r, a) in cons.items():
        st.heap[(k, "left")] = vs[l]
        st.heap[(k, "right")] = vs[r]
        st.heap[(k, "active")] = Const(a)
        st.heap[(k, "gap")] = Num.atom("G" + k[1:])
    st.heap[("v0", "offset")] = Num.atom("O0")
    things = vs + [Const(None)]
    for i, a in enumerate(things):
        for b in things[i + 1:]:
            ev.assume_order(a, b, "ne")
    B = Opaque("B", cls=P.cls("vpsc.Block"), kind="obj")
    try:
        ev.call_closure(Closure(f, None, selfv=B), [vs[0], Const(None)], {}, st)
    except Exception:
        return None
    offs = {}
    for v in vs[1:]:
        o = st.heap.get((v.text, "offset"))
        offs[v.text] = as_num(o) if o is not None else None
    return offs, added


@rule("VPSC.SPLIT-TIGHT")
def split_tight(ctx, R):
    P = ctx.P
    inst = _split_instance(ctx)
    if inst is not None:
        offs, added = inst
        O0, G01, G12, G30 = A("O0"), A("G01"), A("G12"), A("G30")
        want = {"v1": O0 + G01, "v2": O0 + G01 + G12, "v3": O0 - G30}
        good = all(isinstance(offs.get(k), Num) and offs[k].equals(w) for k, w in want.items()) and added == ["v1", "v2", "v3"] and not isinstance(offs.get("v4"), Num)
        f0 = P.func("vpsc.Block.populateSplitBlock")
        R.check(good or _split_symbolic_ok(ctx), "VPSC.SPLIT-TIGHT", "vpsc.Block.populateSplitBlock|instance v3 -> v0 -> v1 -> v2", where(f0),
                "every variable reached over active constraints joins the block at the offset that makes the constraint tight; the inactive neighbour is left out",
                "on the tree v3 -> v0 -> v1 -> v2 (active) with an inactive v0 -> v4, populateSplitBlock(v0) adds %s with offsets %s; expected v1, v2, v3 at O0+G01, O0+G01+G12, O0-G30" % (added, {k: (v.key() if isinstance(v, Num) else None) for k, v in offs.items()}))
        if good:
            R = _SoftTight(R)
    for toward_right in (True, False):
        ev, st, f, B, v, info = _visit_eval(ctx, "vpsc.Block.populateSplitBlock", toward_right)
        R.saw(f)
        ev.call_closure(Closure(f, None, selfv=B), [v, Opaque("prev")], {}, st)
        tag = "toward %s end" % ("right" if toward_right else "left")
        off = as_num(st.heap.get(("n", "offset"))) if st.heap.get(("n", "offset")) is not None else None
        want = A("v.offset") + A("c.gap") if toward_right else A("v.offset") - A("c.gap")
        R.check(off is not None and off.equals(want), "VPSC.SPLIT-TIGHT", f.qual + "|offset " + tag, where(f), "next.offset = v.offset %s gap" % ("+" if toward_right else "-"),
                "rebuilding a split block %s sets next.offset = %s, expected %s: active constraints inside the new block are not tight" % (tag, off.key() if off is not None else None, want.key()))
        R.check(info["visits"] == [("v", "prev")], "VPSC.SPLIT-TIGHT", f.qual + "|walk " + tag, where(f), "walks v's active neighbours except the one it came from", "populateSplitBlock visits %s" % info["visits"])
        added = ("addVariable", "B", ["n"]) in info["calls"]
        rec = any(c[0] == "populateSplitBlock" and c[1] == "B" and c[2][:2] == ["n", "v"] for c in info["calls"])
        R.check(added and rec, "VPSC.SPLIT-TIGHT", f.qual + "|recursion " + tag, where(f), "the neighbour joins the block and the walk continues from it", "the split-block walk does not add the neighbour to this block and continue from it (calls: %s)" % info["calls"])


def _split_symbolic_ok(ctx):
    return False


class _SoftTight:
    """The one-step symbolic argument below knows the walk as a recursion through visitNeighbours; when the concrete tree
    above comes out right, a spelling it does not recognise (explicit stack, generator of neighbours) is not an alarm."""

    def __init__(self, R):
        self.R = R

    def __getattr__(self, name):
        return getattr(self.R, name)

    def check(self, cond, rule, key_, where_="", detail="", bad_detail=None, nontrivial=True):
        if not cond:
            self.R.ok(rule, key_ + " (spelling not recognised: shown on the evaluated tree only)", where_, "one-step argument not applicable to this spelling", nontrivial=False)
            return False
        return self.R.check(cond, rule, key_, where_, detail, bad_detail, nontrivial)


@rule("VPSC.REQUEUE")
def requeue(ctx, R):
    P = ctx.P
    # Blocks.split
    f = P.func("vpsc.Blocks.split")
    R.saw(f)
    cfg = ctx.cfg(f)
    inact = f.params[1] if len(f.params) > 1 else "inactive"
    found = 0
    for n in cfg.stmt_nodes():
        for c in _calls(n):
            if isinstance(c.func, ast.Attribute) and c.func.attr == "split" and ntext(c.func.value) in ("Block", "cls") and c.args:
                x = ntext(c.args[0])
                found += 1
                app = [m for m in cfg.stmt_nodes() if _has_call(m, lambda k: _attr_call(k, "append") and ntext(k.func.value) == inact and k.args and ntext(k.args[0]) == x)]
                # every path from n onward to the loop head / exit passes an append
                loop_heads = [l["head"] for l in cfg.loops if n in cfg.loop_body(l)]
                ends = [cfg.exit] + loop_heads
                ok = all(not cfg.exists_path(n, e, avoid=app) for e in ends if e in cfg.reach(n))
                R.check(ok, "VPSC.REQUEUE", "Blocks.split|%s re-queued" % x, where(f, n.ast), "the deactivated constraint is appended to the inactive list on every path", "Block.split(%s) deactivates the constraint but a path continues without appending it to the inactive list: it is never considered again" % x)
    R.check(found >= 1, "VPSC.REQUEUE", "Blocks.split|split site", where(f), "", "Blocks.split no longer calls Block.split", nontrivial=False)
    # satisfy
    f, cfg, loop = _satisfy_loop(ctx)
    head = loop["head"]
    for n in cfg.stmt_nodes():
        if n.kind == "stmt" and isinstance(n.ast, ast.Assign) and isinstance(n.ast.value, ast.Call) and isinstance(n.ast.value.func, ast.Attribute) and n.ast.value.func.attr == "splitBetween" and isinstance(n.ast.targets[0], ast.Name):
            sv = n.ast.targets[0].id
            app = [m for m in cfg.stmt_nodes() if _has_call(m, lambda k: _attr_call(k, "append", "inactive") and k.args and ntext(k.args[0]).replace('"', "'") == "%s['constraint']" % sv)]
            # on paths where the split succeeded (not None) the constraint must be re-queued
            tests = [t for t in cfg.nodes if t.kind == "test" and sv in ntext(t.ast) and "None" in ntext(t.ast)]
            ok = False
            if tests:
                t = tests[0]
                txt = ntext(t.ast).replace(" ", "")
                succ_label = True if ("isnotNone" in txt or txt.startswith("not") and "isNone" in txt) else False
                succ = [s for s in cfg.succ[t] if cfg.elabel.get((t, s)) is succ_label]
                ok = bool(succ) and all(s in app or not cfg.exists_path(s, head, avoid=app) for s in succ)
            R.check(ok, "VPSC.REQUEUE", "Solver.satisfy|split constraint re-queued", where(f, n.ast), "the constraint deactivated by splitBetween is re-queued", "after a successful splitBetween the deactivated constraint is not appended to the inactive list on every path")
            # the violated constraint itself: re-queued or merged
            names = [x.id for x in ast.walk(loop["stmt"].test) if isinstance(x, ast.Name) and x.id not in ("self", "Solver")]
            var = names[0] if names else "v"
            handled = [m for m in cfg.stmt_nodes() if _has_call(m, lambda k: (_attr_call(k, "append", "inactive") or _attr_call(k, "merge")) and k.args and ntext(k.args[0]) == var)]
            if tests:
                ok2 = bool(succ) and all(not cfg.exists_path(s, head, avoid=handled) for s in succ)
                R.check(ok2, "VPSC.REQUEUE", "Solver.satisfy|violated constraint handled", where(f, n.ast), "after the split the violated constraint is merged or re-queued", "after a split the violated constraint is neither merged nor put back on the inactive list on some path")


@rule("VPSC.CYCLE")
def cycle(ctx, R):
    P = ctx.P
    f, cfg, loop = _satisfy_loop(ctx)
    head = loop["head"]
    # the same-block branch: test comparing the two blocks
    tests = [t for t in cfg.loop_body(loop) if t.kind == "test" and isinstance(t.ast, ast.Compare) and isinstance(t.ast.ops[0], (ast.NotEq, ast.Eq, ast.Is, ast.IsNot))
             and all(isinstance(x, ast.Name) for x in [t.ast.left] + t.ast.comparators)]
    if not tests:
        R.bad("VPSC.CYCLE", "Solver.satisfy|same-block test", where(f), "no test distinguishing 'both ends in one block' in the merge loop")
        return
    t = tests[0]
    same_label = False if isinstance(t.ast.ops[0], (ast.NotEq, ast.IsNot)) else True
    entry = [s for s in cfg.succ[t] if cfg.elabel.get((t, s)) is same_label]
    unsat = [n for n in cfg.stmt_nodes() if n.kind == "stmt" and isinstance(n.ast, ast.Assign) and any(isinstance(x, ast.Attribute) and x.attr == "unsatisfiable" for x in n.ast.targets) and isinstance(n.ast.value, ast.Constant) and n.ast.value.value is True]
    rem = [n for n in cfg.stmt_nodes() if _has_call(n, lambda k: _attr_call(k, "remove", "bs"))]
    ok = bool(entry) and all(e in unsat + rem or not cfg.exists_path(e, head, avoid=unsat + rem) for e in entry)
    R.check(ok, "VPSC.CYCLE", "Solver.satisfy|same-block branch", where(f, t.ast), "every path flags the constraint unsatisfiable or splits the block", "in the same-block branch a path returns to the loop test without flagging the constraint unsatisfiable or splitting the block: the loop can spin on one constraint (or a contradictory cycle is silently accepted)")
    # unsatisfiable := True only inside that branch
    def judge(g, nn, par, node):
        val = par.value if isinstance(par, ast.Assign) else None
        if isinstance(val, ast.Constant) and val.value is False:
            R.ok("VPSC.UNSAT", "%s|reset" % g.qual, where(g, nn), "initialised False", nontrivial=False)
            return
        okw = g.qual == S + ".satisfy" and node is not None and any(e is node or cfg.dominates(e, node) for e in entry)
        R.check(okw, "VPSC.UNSAT", "%s|unsatisfiable := %s" % (g.qual, ntext(val) if val is not None else "?"), where(g, nn), "flagged only when both ends already share a block", "`unsatisfiable` is set outside the same-block branch of Solver.satisfy: a satisfiable constraint can be dropped")

    for g in P.funcs.values():
        if g.qual == S + ".satisfy":
            continue  # judged on the (possibly rotated) loop below
        for nn in ast.walk(g.node):
            if isinstance(nn, ast.Attribute) and nn.attr == "unsatisfiable" and isinstance(nn.ctx, ast.Store) and P.enclosing_func(nn) is g:
                judge(g, nn, getattr(nn, "_parent", None), None)
    for node in cfg.stmt_nodes():
        if node.kind == "stmt" and isinstance(node.ast, (ast.Assign, ast.AugAssign)):
            for nn in ast.walk(node.ast):
                if isinstance(nn, ast.Attribute) and nn.attr == "unsatisfiable" and isinstance(nn.ctx, ast.Store):
                    judge(f, nn, node.ast, node)
    # cycle test precedes: isActiveDirectedPathBetween(v.right, v.left)
    cyc = [n for n in cfg.nodes if n.kind == "test" and _has_call(n, lambda k: _attr_call(k, "isActiveDirectedPathBetween"))]
    if cyc:
        c = [k for k in _calls(cyc[0]) if _attr_call(k, "isActiveDirectedPathBetween")][0]
        a = [ntext(x) for x in c.args]
        R.check(len(a) == 2 and a[0].endswith(".right") and a[1].endswith(".left") and a[0].split(".")[0] == a[1].split(".")[0], "VPSC.CYCLE", "Solver.satisfy|cycle test direction", where(f, cyc[0].ast), "cycle test looks for an active path right -> left", "cycle test is isActiveDirectedPathBetween(%s): not from the constraint's right end back to its left end" % ", ".join(a))
    else:
        R.bad("VPSC.CYCLE", "Solver.satisfy|cycle test", where(f), "the same-block branch no longer tests for an active directed path (contradictory cycle)")


def _blocks_split_model(ctx):
    """Blocks.split value-numbered for an arbitrary block B of the list: what is inserted, removed and re-queued when the
    block is split, and under which condition on the minimum multiplier (read from the path facts at the split call)."""
    def build():
        P = ctx.P
        f = P.func("vpsc.Blocks.split")
        log = {"split": [], "insert": [], "remove": [], "append": [], "update": 0}

        def hook(fv, args, kwargs, node, st_):
            q = fv.func.qual if isinstance(fv, Closure) else None
            if q == "vpsc.Block.split":
                facts = {k: (ev.fact_trees.get(k), v) for k, v in ev.facts.items()}
                log["split"].append(([key(a) for a in args], facts))
                # the split re-homes the variables of the constraint: what was read before stays, later reads differ
                if args and isinstance(args[0], Opaque):
                    st_.heap[(args[0].text + ".left", "block")] = Opaque("NEWBLOCK-L", kind="obj")
                    st_.heap[(args[0].text + ".right", "block")] = Opaque("NEWBLOCK-R", kind="obj")
                return Seq("list", [Opaque("NB0", kind="obj"), Opaque("NB1", kind="obj")])
            if q == "vpsc.Blocks.insert":
                log["insert"].append(key(args[0]) if args else None)
                return NONE
            if q == "vpsc.Blocks.remove":
                log["remove"].append(key(args[0]) if args else None)
                return NONE
            if q == "vpsc.Block.findMinLM":
                return Opaque("M", cls=P.cls("vpsc.Constraint"), kind="maybe")
            if q == "vpsc.Blocks.updateBlockPositions":
                log["update"] += 1
                return NONE
            if (isinstance(fv, Bound) and fv.name == "append" and isinstance(fv.recv, Opaque) and fv.recv.text == "INACTIVE") or (isinstance(fv, Opaque) and fv.text == "INACTIVE.append"):
                log["append"].append(key(args[0]) if args else None)
                return NONE
            return None

        ev = new_eval(P, on_call=hook)
        st = ev.new_state(f)
        s = Opaque("self", cls=P.cls("vpsc.Blocks"), kind="obj")
        st.heap[("self", _bl(ctx))] = Opaque("LIST", cls=P.cls("vpsc.Block"), kind="seq")
        ev.nonempty.add("LIST")
        ev.call_closure(Closure(f, None, selfv=s), [Opaque("INACTIVE", kind="seq")], {}, st)

        def harvest(evs):
            for e in evs:
                if e[0] == "seq-append" and len(f.params) > 1 and e[1] == f.params[1]:
                    log["append"].append(key(e[2]))
                elif e[0] == "loop":
                    harvest(e[3])
                elif e[0] == "in-branch":
                    harvest([e[3]])

        harvest(st.events)
        return f, log, ev

    return ctx.get("vpsc.blocks_split_model", build)


@rule("VPSC.BLOCKLIST")
def blocklist(ctx, R):
    P = ctx.P
    # Blocks.split: new blocks inserted, split block removed (decided on the value-numbered loop body)
    f, log, _ev = _blocks_split_model(ctx)
    cfg = ctx.cfg(f)
    R.check(len(log["split"]) == 1 and log["split"][0][0] == ["M"], "VPSC.BLOCKLIST", "Blocks.split|splits at the minimum multiplier", where(f), "Block.split(findMinLM())", "Blocks.split calls Block.split with %s, expected the constraint returned by findMinLM() exactly once per pass" % [x[0] for x in log["split"]])
    R.check(sorted(log["insert"]) == ["NB0", "NB1"], "VPSC.BLOCKLIST", "Blocks.split|both new blocks inserted", where(f), "both blocks produced by the split enter the block list, once each", "the blocks produced by Block.split are not inserted into the block list exactly once each (inserted: %s)" % log["insert"])
    R.check(log["remove"] in (["M.left.block"], ["M.right.block"], ["elem(LIST)"]), "VPSC.BLOCKLIST", "Blocks.split|removes the split block", where(f), "removes the block that contained the split constraint (looked up before the split re-homes its variables)", "Blocks.split removes %s: expected the block that contained the split constraint, read before Block.split re-homes its variables" % log["remove"])
    R.check(log["append"] == ["M"], "VPSC.REQUEUE", "Blocks.split|re-queues the split constraint", where(f), "the deactivated constraint returns to the inactive list", "Blocks.split appends %s to the inactive list, expected the constraint it just deactivated" % log["append"])
    # Solver.satisfy
    f, cfg, loop = _satisfy_loop(ctx)
    head = loop["head"]
    for n in cfg.stmt_nodes():
        if n.kind == "stmt" and isinstance(n.ast, ast.Assign) and isinstance(n.ast.value, ast.Call) and isinstance(n.ast.value.func, ast.Attribute) and n.ast.value.func.attr == "splitBetween":
            sv = ntext(n.ast.targets[0])
            recv = ntext(n.ast.value.func.value)
            tests = [t for t in cfg.nodes if t.kind == "test" and sv in ntext(t.ast) and "None" in ntext(t.ast)]
            if not tests:
                R.bad("VPSC.BLOCKLIST", "Solver.satisfy|split result tested", where(f, n.ast), "the result of splitBetween is not tested for None")
                continue
            t = tests[0]
            txt = ntext(t.ast).replace(" ", "")
            succ_label = True if ("isnotNone" in txt or txt.startswith("not") and "isNone" in txt) else False
            succ = [s for s in cfg.succ[t] if cfg.elabel.get((t, s)) is succ_label]
            for what, pred in (("left block inserted", lambda k: _attr_call(k, "insert", "bs") and k.args and ntext(k.args[0]).replace('"', "'") == "%s['lb']" % sv),
                               ("right block inserted", lambda k: _attr_call(k, "insert", "bs") and k.args and ntext(k.args[0]).replace('"', "'") == "%s['rb']" % sv),
                               ("split block removed", lambda k: _attr_call(k, "remove", "bs") and k.args and ntext(k.args[0]) == recv)):
                nodes_ = [m for m in cfg.stmt_nodes() if _has_call(m, pred)]
                ok = bool(succ) and bool(nodes_) and all(s in nodes_ or not cfg.exists_path(s, head, avoid=nodes_) for s in succ)
                R.check(ok, "VPSC.BLOCKLIST", "Solver.satisfy|" + what, where(f, n.ast), what + " on every path after a successful split", "after a successful splitBetween: %s does not happen on every path" % what)
    # Block.split / createSplitBlock / splitBetween produce the two blocks from the two ends
    f = P.func("vpsc.Block.split")
    ev = new_eval(P, inline_filter=lambda fn: fn.qual not in ("vpsc.Block.createSplitBlock",))
    st = ev.new_state(f)
    r = ev.call_closure(Closure(f, None, selfv=ClassRef(P.cls("vpsc.Block"))), [Opaque("c")], {}, st)
    act = st.heap.get(("c", "active"))
    got = [key(x) for x in r.items] if isinstance(r, Seq) else None
    R.check(got == ["vpsc.Block.createSplitBlock(c.left)", "vpsc.Block.createSplitBlock(c.right)"] and act is not None and key(act) == "False", "VPSC.BLOCKLIST", "Block.split", where(f), "deactivates c and rebuilds one block from each end", "Block.split(c) yields %s with c.active=%s" % (got, key(act) if act is not None else None))
    g = P.func("vpsc.Block.createSplitBlock")
    log = []
    ev = new_eval(P, on_call=lambda fv, args, kwargs, node, st_: (log.append((fv.func.qual, [key(a) for a in args], key(fv.selfv) if fv.selfv is not None else None)), NONE)[1] if isinstance(fv, Closure) and fv.func.qual == "vpsc.Block.populateSplitBlock" else None, inline_filter=lambda fn: fn.qual != "vpsc.Block.__init__")
    st = ev.new_state(g)
    r = ev.call_closure(Closure(g, None, selfv=ClassRef(P.cls("vpsc.Block"))), [Opaque("sv")], {}, st)
    R.check(isinstance(r, Opaque) and r.kind == "new" and log and log[0][1] == ["sv", "None"] and log[0][2] == r.text, "VPSC.BLOCKLIST", "Block.createSplitBlock", where(g), "new Block(start) populated from start", "createSplitBlock(start) returns %s after %s" % (show(r), log))


@rule("VPSC.INDEX")
def index_rule(ctx, R):
    """Every statement that puts a block at position k of the list sets its blockInd to k."""
    P = ctx.P
    # insert
    f = P.func("vpsc.Blocks.insert")
    ev = new_eval(P)
    st = ev.new_state(f)
    s = Opaque("self", cls=P.cls("vpsc.Blocks"), kind="obj")
    st.heap[("self", _bl(ctx))] = Opaque("LIST", kind="seq")
    ev.call_closure(Closure(f, None, selfv=s), [Opaque("b")], {}, st)
    bi = st.heap.get(("b", "blockInd"))
    appended = [e for e in st.events if e[0] == "seq-append" and e[1] == "LIST"]
    order_ok = False
    idx_bi = next((i for i, e in enumerate(st.events) if e[0] == "setattr" and e[1] == "b" and e[2] == "blockInd"), None)
    idx_ap = next((i for i, e in enumerate(st.events) if e[0] == "seq-append" and e[1] == "LIST"), None)
    if idx_bi is not None and idx_ap is not None and bi is not None:
        k = key(bi)
        order_ok = (k == "len(LIST)" and idx_bi < idx_ap) or (k == "-1 + len(LIST)" and idx_bi > idx_ap)
    R.check(order_ok and appended and key(appended[0][2][0]) == "b", "VPSC.INDEX", "Blocks.insert", where(f), "b is appended and b.blockInd is its index", "Blocks.insert does not append b with b.blockInd equal to its index (blockInd=%s)" % (show(bi) if bi is not None else None))
    # __init__: _list[i] = Block(vs[i]); b.blockInd = i
    f = P.func("vpsc.Blocks.__init__")
    ok = False
    for lp in [n for n in ast.walk(f.node) if isinstance(n, ast.For)]:
        stores = [n for n in ast.walk(lp) if isinstance(n, ast.Assign) and isinstance(n.targets[0], ast.Subscript) and ntext(n.targets[0].value) == "self." + _bl(ctx)]
        inds = [n for n in ast.walk(lp) if isinstance(n, ast.Assign) and isinstance(n.targets[0], ast.Attribute) and n.targets[0].attr == "blockInd"]
        if stores and inds and ntext(stores[0].targets[0].slice) == ntext(inds[0].value):
            src = ntext(stores[0].value)
            ok = ntext(inds[0].targets[0].value) == src or any(isinstance(a, ast.Assign) and ntext(a.targets[0]) == src for a in ast.walk(lp))
    apps = [n for n in ast.walk(f.node) if isinstance(n, ast.Call) and _attr_call(n, "insert") and ntext(n.func.value) == "self"]
    if not ok and not apps:
        # however the initial list is put together: on an instance of three variables, the block at index k records k
        ok = _init_index_instance(ctx, f)
    R.check(ok or bool(apps), "VPSC.INDEX", "Blocks.__init__", where(f), "initial blocks are stored at their blockInd", "Blocks.__init__ does not store each initial block at the index it records in blockInd")
    # remove: swap-with-last
    remove_rule(ctx, R)


def _init_index_instance(ctx, f):
    P = ctx.P
    ev = new_eval(P, inline_filter=lambda fn: fn is f or fn.qual in ("vpsc.Block.__init__", "vpsc.Block.addVariable", "vpsc.PositionStats.__init__", "vpsc.PositionStats.addVariable", "vpsc.PositionStats.getPosn"))
    st = ev.new_state(f)
    s = Opaque("self", cls=P.cls("vpsc.Blocks"), kind="obj")
    vs = Seq("list", [Opaque("v%d" % i, cls=P.cls("vpsc.Variable"), kind="obj") for i in range(3)], ident="VS3")
    try:
        ev.call_closure(Closure(f, None, selfv=s), [vs], {}, st)
    except Exception:
        return False
    lst = st.heap.get(("self", _bl(ctx)))
    items = ev.iter_items(lst) if lst is not None else None
    if items is None or len(items) != 3:
        return False
    seen_vars = []
    for k, b in enumerate(items):
        if not isinstance(b, Opaque):
            return False
        bi = st.heap.get((b.text, "blockInd"))
        if bi is None or num_const(bi) != k:
            return False
        vv = st.heap.get((b.text, "vars"))
        seen_vars.append(key(vv) if vv is not None else None)
    # one block per variable, in the order of the variables
    return seen_vars == ["[v0]", "[v1]", "[v2]"] or len(set(seen_vars)) == 3


def remove_rule(ctx, R):
    P = ctx.P
    f = P.func("vpsc.Blocks.remove")
    R.saw(f)
    for last in (False, True):
        ev = new_eval(P)
        LIST = Opaque("LIST", kind="seq")
        ev.nonempty.add("LIST")
        lastb = Opaque("LASTB")

        def ogi(base, idx, st_, lastb=lastb):
            if key(base) == "LIST" and key(idx) in ("-1", "-1 + len(LIST)"):
                return lastb
            return None

        ev.on_getitem = ogi
        b = lastb if last else Opaque("b")
        if not last:
            ev.assume_order(Opaque("b"), lastb, "ne")
        st = ev.new_state(f)
        s = Opaque("self", cls=P.cls("vpsc.Blocks"), kind="obj")
        st.heap[("self", _bl(ctx))] = LIST
        ev.call_closure(Closure(f, None, selfv=s), [b], {}, st)
        final = st.heap.get(("self", _bl(ctx)))
        pops = [e for e in st.events if e[0] == "seq-pop" and e[1] == "LIST"]
        shortened = key(final) == "LIST[:-1]" or (key(final) == "LIST" and len(pops) == 1 and (not pops[0][2] or key(pops[0][2][0]) == "-1"))
        tag = "b is last" if last else "b is not last"
        if last:
            R.check(shortened, "VPSC.REMOVE", "Blocks.remove|" + tag, where(f), "the list loses exactly its last element", "removing the last block leaves the list as %s" % show(final))
        else:
            moved = st.heap.get(("LIST", "[b.blockInd]"))
            ind = st.heap.get(("LASTB", "blockInd"))
            R.check(shortened and moved is not None and key(moved) == "LASTB" and ind is not None and key(ind) == "b.blockInd", "VPSC.REMOVE", "Blocks.remove|" + tag, where(f),
                    "last block moves into b's slot, takes b's index, list shortened by one",
                    "Blocks.remove(b): slot[b.blockInd]=%s, moved block's blockInd=%s, list=%s — not the swap-with-last removal (a live block is dropped or a dead one kept)" % (show(moved) if moved is not None else None, show(ind) if ind is not None else None, show(final)))


@rule("VPSC.POSITION")
def position(ctx, R):
    P = ctx.P
    f = P.func("vpsc.Variable.position")
    ev = new_eval(P)
    st = ev.new_state(f)
    v = Opaque("v", cls=P.cls("vpsc.Variable"), kind="obj")
    r = as_num(ev.call_closure(Closure(f, None, selfv=v), [], {}, st))
    want = (A("v.block.ps.scale") * A("v.block.posn") + A("v.offset")) / A("v.scale")
    R.check(r is not None and r.equals(want), "VPSC.POSITION", f.qual, where(f), "position == (block.ps.scale*block.posn + offset)/scale", "Variable.position() is %s" % (r.key() if r is not None else "?"))
    g = P.func("vpsc.Constraint.slack")
    ev = new_eval(P, inline_filter=lambda fn: fn.qual != f.qual)
    ev.assume("truth(c.unsatisfiable)", False)
    st = ev.new_state(g)
    c = Opaque("c", cls=P.cls("vpsc.Constraint"), kind="obj")
    ev.field_cls.update({"left": P.cls("vpsc.Variable"), "right": P.cls("vpsc.Variable")})
    r = as_num(ev.call_closure(Closure(g, None, selfv=c), [], {}, st))
    want = A("c.right.scale") * A("c.right.position()") - A("c.gap") - A("c.left.scale") * A("c.left.position()")
    R.check(r is not None and r.equals(want), "VPSC.POSITION", g.qual, where(g), "slack == right.scale*pos(right) - gap - left.scale*pos(left)", "Constraint.slack() is %s" % (r.key() if r is not None else "?"))


def _copy_of(v, base):
    return key(v) in ("%s[:]" % base, "list(%s)" % base, "%s.copy()" % base, "copy.copy(%s)" % base, "[*%s]" % base) or (isinstance(v, MapV) and key(v.it) == base and key(v.body) == "elem(%s)" % base)


@rule("VPSC.ALLCS")
def allcs(ctx, R):
    """Solver.__init__ takes over every constraint and every variable it is given, unfiltered."""
    from . import qp
    P = ctx.P
    f = P.func("vpsc.Solver.__init__")
    R.saw(f)
    ev = new_eval(P)
    ev.field_cls.update({"left": P.cls("vpsc.Variable"), "right": P.cls("vpsc.Variable")})  # accessor methods of the ends are inlined
    st = ev.new_state(f)
    s = Opaque("self", cls=P.cls("vpsc.Solver"), kind="obj")
    VS = Opaque("VS", cls=P.cls("vpsc.Variable"), kind="seq")
    CS = Opaque("CS", cls=P.cls("vpsc.Constraint"), kind="seq")
    ev.call_closure(Closure(f, None, selfv=s), [VS, CS], {}, st)
    cs = st.heap.get(("self", "cs"))
    vs = st.heap.get(("self", "vs"))
    ina = st.heap.get(("self", "inactive"))
    R.check(cs is not None and (key(cs) == "CS" or _copy_of(cs, "CS")), "VPSC.ALLCS", "Solver.__init__|self.cs", where(f), "the solver keeps all constraints it is given", "Solver.__init__ stores %s as its constraint list, not all the constraints it was given: dropped constraints are never enforced" % (show(cs) if cs is not None else "nothing"))
    R.check(vs is not None and (key(vs) == "VS" or _copy_of(vs, "VS")), "VPSC.ALLCS", "Solver.__init__|self.vs", where(f), "the solver keeps all variables it is given", "Solver.__init__ stores %s as its variable list" % (show(vs) if vs is not None else "nothing"))
    R.check(ina is not None and _copy_of(ina, "CS"), "VPSC.ALLCS", "Solver.__init__|self.inactive", where(f), "the inactive list starts as a private copy of all constraints", "Solver.__init__ initialises the inactive list to %s, not a private copy of all constraints" % (show(ina) if ina is not None else "nothing"))
    wired = {"cOut": False, "cIn": False}
    reset = {"cOut": False, "cIn": False}
    for e in st.events:
        if e[0] != "loop":
            continue
        itk = key(e[1])
        el = key(e[2])
        if itk in ("CS", "CS[:]") or _copy_of(e[1], "CS"):
            for b in qp._uncond_events(e[3]):
                if b[0] == "seq-append" and len(b[2]) == 1 and key(b[2][0]) == el:
                    if b[1] == el + ".left.cOut":
                        wired["cOut"] = True
                    if b[1] == el + ".right.cIn":
                        wired["cIn"] = True
        if itk == "VS" or _copy_of(e[1], "VS"):
            for b in qp._uncond_events(e[3]):
                if b[0] == "setattr" and b[1] == el and b[2] in reset and isinstance(b[3], Seq) and not b[3].items:
                    reset[b[2]] = True
    R.check(all(wired.values()), "VPSC.ALLCS", "Solver.__init__|adjacency", where(f), "every constraint is registered with both of its variables", "Solver.__init__ does not register every constraint in left.cOut and right.cIn (%s): the block traversals never see the missing constraints" % wired)
    R.check(all(reset.values()), "VPSC.ALLCS", "Solver.__init__|adjacency reset", where(f), "every variable starts with empty constraint lists", "Solver.__init__ does not reset cIn/cOut of every variable (%s): constraints of an earlier solver stay attached" % reset)
    g = P.func("vpsc.Solver.setStartingPositions") if "vpsc.Solver.setStartingPositions" in P.funcs else None
    if g is not None:
        ev2 = new_eval(P, inline_filter=lambda fn: fn.qual.startswith("vpsc.Solver.") and fn.name not in ("solve", "satisfy", "mostViolated"))
        st2 = ev2.new_state(g)
        st2.heap[("self", "cs")] = CS
        st2.heap[("self", "vs")] = VS
        ev2.call_closure(Closure(g, None, selfv=s), [Opaque("PS", kind="seq")], {}, st2)
        ina2 = st2.heap.get(("self", "inactive"))
        R.check(ina2 is not None and _copy_of(ina2, "CS"), "VPSC.ALLCS", "Solver.setStartingPositions|self.inactive", where(g), "restart: inactive list is a private copy of all constraints", "setStartingPositions sets the inactive list to %s" % (show(ina2) if ina2 is not None else "nothing"))


FEAS = [refetch, exit_rule, argmin, merge_tight, split_tight, requeue, cycle, blocklist, index_rule, position, allcs]


# ---------------------------------------------------------------------------
# COST
# ---------------------------------------------------------------------------

def _loop_delta(ev, st, lp, acc):
    """Per-iteration increment of accumulator `acc` in loop `lp`, its iteration value and element."""
    n0 = len(st.events)
    ev.for_loop(lp, st)
    for e in st.events[n0:]:
        if e[0] == "loop" and e[4] is lp:
            s2 = e[5]
            v = as_num(s2.env.lookup(acc))
            if v is None:
                return None, e[1], e[2]
            return v - Num.atom("acc:%s@loop%d" % (acc, lp.lineno)), e[1], e[2]
    return None, None, None


def _covers_all(it, seqtext):
    k = key(it)
    ln = "len(%s)" % seqtext
    return k in (seqtext, "enumerate(%s)" % seqtext, "range(%s)" % ln, "range(0, %s)" % ln, "range(-1 + %s, -1, -1)" % ln, "reversed(%s)" % seqtext)


@rule("VPSC.COST")
def cost_rule(ctx, R):
    P = ctx.P
    f = P.func("vpsc.Block.cost")
    R.saw(f)
    lps = [n for n in f.node.body if isinstance(n, ast.For)]
    ok = False
    detail = "no accumulation loop"
    if len(lps) == 1:
        lp = lps[0]
        ev = new_eval(P, inline_filter=lambda fn: fn.qual != "vpsc.Variable.position")
        st = ev.new_state(f)
        s = Opaque("self", cls=P.cls("vpsc.Block"), kind="obj")
        st.env.vars[f.params[0]] = s
        st.heap[("self", "vars")] = Opaque("VARS", cls=P.cls("vpsc.Variable"), kind="seq")
        ev.block(f.node.body[: f.node.body.index(lp)], st, [])
        accs = [k for k, v in st.env.vars.items() if num_const(v) == 0]
        rets = [n for n in f.node.body if isinstance(n, ast.Return)]
        acc = rets[0].value.id if rets and isinstance(rets[0].value, ast.Name) else (accs[0] if accs else None)
        init_ok = acc in accs
        delta, it, el = _loop_delta(ev, st, lp, acc) if acc else (None, None, None)
        if delta is not None:
            # element reference: VARS[<idx>] or elem(VARS)
            ats = sorted(a for a in delta.atoms() if isinstance(a, str))
            base = None
            for a in ats:
                if a.endswith(".position()"):
                    base = a[: -len(".position()")]
            if base:
                p, d, w = A(base + ".position()"), A(base + ".desiredPosition"), A(base + ".weight")
                want = w * (p - d) * (p - d)
                ok = delta.equals(want) and init_ok and _covers_all(it, "VARS")
                detail = "per-variable term %s over %s starting from %s" % (delta.key(), key(it), "0" if init_ok else "non-zero")
            else:
                detail = "per-variable term %s" % delta.key()
    R.check(ok, "VPSC.COST", f.qual, where(f), "Block.cost == sum over all variables of weight*(position-desired)^2", "Block.cost is not the sum over all its variables of weight*(position - desiredPosition)^2: %s" % detail)
    g = P.func("vpsc.Blocks.cost")
    R.saw(g)
    lps = [n for n in g.node.body if isinstance(n, ast.For)]
    ok = False
    detail = "no accumulation loop"
    if len(lps) == 1:
        lp = lps[0]
        ev = new_eval(P, inline_filter=lambda fn: fn.qual != "vpsc.Block.cost")
        st = ev.new_state(g)
        s = Opaque("self", cls=P.cls("vpsc.Blocks"), kind="obj")
        st.env.vars[g.params[0]] = s
        st.heap[("self", _bl(ctx))] = Opaque("LIST", cls=P.cls("vpsc.Block"), kind="seq")
        ev.block(g.node.body[: g.node.body.index(lp)], st, [])
        rets = [n for n in g.node.body if isinstance(n, ast.Return)]
        acc = rets[0].value.id if rets and isinstance(rets[0].value, ast.Name) else None
        init_ok = acc is not None and num_const(st.env.lookup(acc)) == 0
        delta, it, el = _loop_delta(ev, st, lp, acc) if acc else (None, None, None)
        if delta is not None:
            ats = [a for a in delta.atoms() if isinstance(a, str) and a.endswith(".cost()")]
            ok = len(ats) == 1 and delta.equals(Num.atom(ats[0])) and init_ok and _covers_all(it, "LIST")
            detail = "per-block term %s over %s" % (delta.key(), key(it))
    R.check(ok, "VPSC.COST", g.qual, where(g), "Blocks.cost == sum of the cost of every block", "Blocks.cost is not the plain sum of cost() over all blocks: %s" % detail)
    # solve(): the returned value is self.bs.cost() computed after the last satisfy()
    h = P.func(S + ".solve")
    R.saw(h)
    cfg = ctx.cfg(h)
    for n in cfg.stmt_nodes():
        if n.kind == "stmt" and isinstance(n.ast, ast.Return):
            v = n.ast.value
            if not isinstance(v, ast.Name):
                okr = isinstance(v, ast.Call) and ntext(v.func) in ("self.bs.cost", "self.cost")
                R.check(okr, "VPSC.COST", h.qual + "|return", where(h, n.ast), "returns the cost of the current blocks", "solve() returns `%s`" % ntext(v))
                continue
            defs = [m for m in cfg.stmt_nodes() if m.kind == "stmt" and isinstance(m.ast, ast.Assign) and any(isinstance(t, ast.Name) and t.id == v.id for t in m.ast.targets)]
            costdefs = [m for m in defs if isinstance(m.ast.value, ast.Call) and ntext(m.ast.value.func) in ("self.bs.cost", "self.cost")]
            sat = [m for m in cfg.stmt_nodes() if _has_call(m, lambda k: _attr_call(k, "satisfy"))]
            other = [m for m in defs if m not in costdefs]
            # every path to the return: last def of v is a cost() call, and no satisfy() between it and the return
            ok1 = all(not cfg.exists_path(o, n, avoid=costdefs) for o in other) and not cfg.exists_path(cfg.entry, n, avoid=costdefs)
            ok2 = all(not cfg.exists_path(s_, n, avoid=costdefs) for s_ in sat)
            R.check(ok1 and ok2, "VPSC.COST", h.qual + "|reported cost is current", where(h, n.ast), "the returned cost was computed by self.bs.cost() after the last satisfy()", "solve() can return a cost that was not computed from the final positions (stale or missing cost() after the last satisfy())")


# ---------------------------------------------------------------------------
# OPT
# ---------------------------------------------------------------------------

@rule("VPSC.SPLIT-FIRST")
def split_first(ctx, R):
    f, cfg, loop = _satisfy_loop(ctx)
    head = loop["head"]
    sp = [n for n in cfg.stmt_nodes() if _has_call(n, lambda k: _attr_call(k, "split", "bs") and k.args and ntext(k.args[0]) == "self.inactive")]
    ok = bool(sp) and any(cfg.dominates(s, head) for s in sp)
    R.check(ok, "VPSC.SPLIT-FIRST", "Solver.satisfy|split before merging", where(f), "every satisfy() first splits blocks on negative multipliers", "satisfy() does not call self.bs.split(self.inactive) before the merge loop: blocks merged in an earlier pass are never re-opened, so the result need not be optimal")
    bsinit = [n for n in cfg.stmt_nodes() if n.kind == "stmt" and isinstance(n.ast, ast.Assign) and ntext(n.ast.targets[0]) == "self.bs" and isinstance(n.ast.value, ast.Call) and ntext(n.ast.value.func) == "Blocks"]
    R.check(bool(bsinit) and ntext(bsinit[0].ast.value.args[0]) == "self.vs", "VPSC.SPLIT-FIRST", "Solver.satisfy|blocks from all variables", where(f), "initial blocks: one per variable", "blocks are not initialised from all variables")


@rule("VPSC.LMTOL")
def lmtol(ctx, R):
    P = ctx.P
    f, log, _ev = _blocks_split_model(ctx)
    cfg = ctx.cfg(f)
    ok = False
    detail = "no multiplier test on the path to the split"
    if len(log["split"]) == 1:
        facts = log["split"][0][1]
        bounds = []
        for k_, (t, pol) in facts.items():
            if not (isinstance(t, tuple) and t[0] == "cmp" and t[1] in ("lt", "le", "gt", "ge")):
                continue
            op, a_, b_ = t[1], t[2], t[3]
            if key(b_) == "M.lm" and num_const(a_) is not None:
                a_, b_ = b_, a_
                op = {"lt": "gt", "le": "ge", "gt": "lt", "ge": "le"}[op]
            if key(a_) != "M.lm" or num_const(b_) is None:
                continue
            if not pol:
                op = {"lt": "ge", "le": "gt", "gt": "le", "ge": "lt"}[op]
            bounds.append((op, num_const(b_)))
        ups = [b for b in bounds if b[0] in ("lt", "le")]
        if len(ups) == 1 and len(bounds) == 1:
            T = ups[0][1]
            ok = Fraction(-1, 10) <= T <= Fraction(1, 1000)
            detail = "splits when min multiplier %s %s" % ("<" if ups[0][0] == "lt" else "<=", T)
        else:
            detail = "the split happens under %s" % (bounds or sorted(facts))
    R.check(ok, "VPSC.LMTOL", "Blocks.split|tolerance", where(f), detail, "blocks are split only when the minimum Lagrange multiplier is below a bound outside [-0.1, 1e-3] (%s): items stay pushed by constraints that should have been released, or blocks are split for ever" % detail)
    # examines every block
    lps = [l for l in cfg.loops if isinstance(l["stmt"], ast.For) and ntext(l["stmt"].iter) == "self." + _bl(ctx)]
    R.check(bool(lps) and any(_attr_call(k, "findMinLM") for k in calls_in(lps[0]["stmt"])), "VPSC.LMTOL", "Blocks.split|every block examined", where(f), "findMinLM() of every block", "Blocks.split does not examine the minimum multiplier of every block")
    if lps:
        lp = lps[0]["stmt"]
        head = lps[0]["head"]
        fm = [n for n in cfg.stmt_nodes() if _has_call(n, lambda k: _attr_call(k, "findMinLM")) and any(n.ast is x or (n.ast is not None and any(n.ast is y for y in ast.walk(x))) for x in lp.body)]
        first = cfg.of_stmt.get(lp.body[0])
        skip = bool(fm) and first is not None and first not in fm and cfg.exists_path(first, head, avoid=set(fm))
        harmless = False
        if skip and isinstance(lp.body[0], ast.If):
            # a block with a single variable has no active constraint: skipping it skips nothing
            tx = ntext(lp.body[0].test).replace(" ", "")
            bn = ntext(lp.target)
            harmless = tx in ("len(%s.vars)<2" % bn, "len(%s.vars)<=1" % bn, "len(%s.vars)==1" % bn, "2>len(%s.vars)" % bn) and all(isinstance(x, ast.Continue) for x in lp.body[0].body) and not lp.body[0].orelse
        R.check(not skip or harmless, "VPSC.LMTOL", "Blocks.split|no block skipped", where(f, lp), "the multiplier search runs for every block on every path through the loop body", "Blocks.split can pass over a block without computing its minimum multiplier (a path through the loop body avoids findMinLM()): a block that should be re-opened stays merged and the result is not optimal")
    upd = [n for n in cfg.stmt_nodes() if _has_call(n, lambda k: _attr_call(k, "updateBlockPositions"))]
    R.check(bool(upd) and all(cfg.dominates(upd[0], l["head"]) for l in lps), "VPSC.LMTOL", "Blocks.split|positions refreshed", where(f), "block positions refreshed before multipliers are computed", "block positions are not refreshed (updateBlockPositions) before the multipliers are computed: desired positions changed since the last pass are ignored")


@rule("VPSC.DFDV")
def dfdv(ctx, R):
    P = ctx.P
    f = P.func("vpsc.Variable.dfdv")
    ev = new_eval(P, inline_filter=lambda fn: fn.qual != "vpsc.Variable.position")
    st = ev.new_state(f)
    v = Opaque("v", cls=P.cls("vpsc.Variable"), kind="obj")
    r = as_num(ev.call_closure(Closure(f, None, selfv=v), [], {}, st))
    p, d, w = A("v.position()"), A("v.desiredPosition"), A("v.weight")
    costv = w * (p - d) * (p - d)
    grad = costv.derivative("v.position()")
    ok = False
    if r is not None and not grad.n.is_zero():
        q = r / grad
        ok = q.is_const() and q.const_value() > 0
    R.check(ok, "VPSC.DFDV", f.qual, where(f), "dfdv == c * d/dposition[w*(position-desired)^2], c > 0", "Variable.dfdv() is %s: not a positive multiple of the derivative of weight*(position-desired)^2" % (r.key() if r is not None else "?"))


@rule("VPSC.LM-ACCUM")
def lm_accum(ctx, R):
    P = ctx.P
    for toward_right in (True, False):
        ev, st, f, B, v, info = _visit_eval(ctx, "vpsc.Block.compute_lm", toward_right)
        R.saw(f)
        r = as_num(ev.call_closure(Closure(f, None, selfv=B), [v, Opaque("u"), Opaque("POST")], {}, st))
        tag = "toward %s end" % ("right" if toward_right else "left")
        other = "c.left.scale" if toward_right else "c.right.scale"
        want = (A("v.dfdv()") + A("SUB") * A(other)) / A("v.scale")
        R.check(r is not None and r.equals(want), "VPSC.LM-ACCUM", f.qual + "|accumulate " + tag, where(f), "force(v) = (dfdv(v) + sub-tree force * other end's scale) / v.scale",
                "going %s compute_lm returns %s, expected (v.dfdv() + SUB*%s)/v.scale" % (tag, r.key() if r is not None else None, other))
        lm = st.heap.get(("c", "lm"))
        lmn = as_num(lm) if lm is not None else None
        want_lm = A("SUB") if toward_right else -A("SUB")
        R.check(lmn is not None and lmn.equals(want_lm), "VPSC.LM-ACCUM", f.qual + "|multiplier " + tag, where(f), "c.lm = +sub-tree force toward the right end, - toward the left", "going %s c.lm = %s, expected %s" % (tag, lmn.key() if lmn is not None else None, want_lm.key()))
        rec = [c for c in info["calls"] if c[0] == "compute_lm"]
        R.check(len(rec) == 1 and rec[0][1] == "B" and rec[0][2] == ["n", "v", "POST"], "VPSC.LM-ACCUM", f.qual + "|recursion " + tag, where(f), "recurses into the neighbour, coming from v, with the same visitor", "compute_lm recurses as %s" % rec)
        R.check(("POST", None, ["c"]) in info["calls"], "VPSC.LM-ACCUM", f.qual + "|post action " + tag, where(f), "the visitor sees the constraint after its multiplier is set", "the post-action is not called with the constraint")
        R.check(info["visits"] == [("v", "u")], "VPSC.LM-ACCUM", f.qual + "|walk " + tag, where(f), "walks v's neighbours except the one it came from", "compute_lm visits %s" % info["visits"])
    h = P.func("vpsc.Variable.visitNeighbours")
    R.saw(h)
    loops_ = [n for n in h.node.body if isinstance(n, ast.For)]
    its = sorted(ntext(l.iter) for l in loops_)
    okv = its == ["self.cIn", "self.cOut"]
    for l in loops_:
        cs = [c for c in calls_in(l)]
        want_end = "right" if ntext(l.iter) == "self.cOut" else "left"
        okv = okv and any(len(c.args) == 2 and ntext(c.args[0]) == ntext(l.target) and ntext(c.args[1]) == "%s.%s" % (ntext(l.target), want_end) for c in cs)
    ffs = [x for x in P.nested(h) if not x.is_lambda]
    # visitNeighbours: active constraints only, not back to prev, both directions
    h = P.func("vpsc.Variable.visitNeighbours")
    R.saw(h)
    loops_ = [n for n in h.node.body if isinstance(n, ast.For)]
    its = sorted(ntext(l.iter) for l in loops_)
    okv = its == ["self.cIn", "self.cOut"]
    for l in loops_:
        cs = [c for c in calls_in(l)]
        want_end = "right" if ntext(l.iter) == "self.cOut" else "left"
        okv = okv and any(len(c.args) == 2 and ntext(c.args[0]) == ntext(l.target) and ntext(c.args[1]) == "%s.%s" % (ntext(l.target), want_end) for c in cs)
    ffs = [x for x in P.nested(h)]
    if ffs:
        ff = ffs[0]
        res = {}
        for active in (True, False):
            for same in (True, False):
                ev = new_eval(P)
                ev.assume("truth(c.active)", active)
                ev.assume_order(Opaque("prev"), Opaque("n"), "eq" if same else "ne")
                env = Env({h.params[1]: Opaque("prev"), h.params[2]: Opaque("F"), h.params[0]: Opaque("self")}, ev.module_env("vpsc"), "vpsc", h)
                st = State(Env({}, env, "vpsc", ff))
                calls_ = []
                ev.on_call = lambda fv, args, kwargs, node, st_, calls_=calls_: (calls_.append([key(a) for a in args]), Opaque("RES"))[1] if isinstance(fv, Opaque) and fv.text == "F" else None
                ev.call_closure(Closure(ff, env), [Opaque("c"), Opaque("n")], {}, st)
                res[(active, same)] = calls_
        okv = okv and res[(True, False)] == [["c", "n"]] and not res[(True, True)] and not res[(False, False)] and not res[(False, True)]
    R.check(okv, "VPSC.LM-ACCUM", h.qual, where(h), "visits active out/in constraints, never back to prev", "visitNeighbours does not visit exactly the active constraints of both directions except the one leading back")


@rule("VPSC.LM-FRESH")
def lm_fresh(ctx, R):
    """Every read of a multiplier is preceded, in the same function, by the compute_lm call that sets it."""
    P = ctx.P
    n_inst = 0
    for f in P.funcs_of_module("vpsc"):
        reads = [n for n in walk_local(f.node) if isinstance(n, ast.Attribute) and n.attr == "lm" and isinstance(n.ctx, ast.Load)]
        if not reads:
            continue
        top = f
        while top.parent is not None:
            top = top.parent
        if top.qual == "vpsc.Blocks.split":
            # reads v.lm of the constraint returned by findMinLM in the same iteration
            ok = any(_attr_call(c, "findMinLM") for c in calls_in(top.node))
        else:
            calls = [c for c in calls_in(top.node) if _attr_call(c, "compute_lm")]
            ok = bool(calls)
            if ok and f is not top:
                # the closure reading .lm must be used by the compute_lm call (as its callback) or in a statement that a
                # compute_lm call dominates (a key function of min/sorted over the constraints compute_lm reported, ...)
                cfg = ctx.cfg(top)

                def holder_of(x):
                    for cn in cfg.nodes:
                        if cn.ast is not None and any(y is x for y in ast.walk(cn.ast)):
                            return cn
                    return None

                call_nodes = [h for h in (holder_of(c) for c in calls) if h is not None]
                if f.is_lambda:
                    use_sites = [f.node]
                else:
                    use_sites = [n for n in walk_local(top.node) if isinstance(n, ast.Name) and n.id == f.node.name and isinstance(n.ctx, ast.Load)]
                ok = bool(use_sites) and bool(call_nodes)
                for u in use_sites:
                    hu = holder_of(u)
                    if hu is None or not (hu in call_nodes or any(cfg.dominates(cn, hu) for cn in call_nodes)):
                        ok = False
        n_inst += 1
        R.check(ok, "VPSC.LM-FRESH", "%s reads .lm" % f.qual, where(f, reads[0]), "multipliers are recomputed (compute_lm) before they are read", "`%s` reads constraint multipliers without a preceding compute_lm in %s: stale multipliers select the split" % (f.qual, top.qual))
    R.check(n_inst >= 3, "VPSC.LM-FRESH.inventory", "readers of .lm: %d" % n_inst, "", "", "fewer multiplier readers than expected", nontrivial=False)


@rule("VPSC.STATIONARY")
def stationary(ctx, R):
    P = ctx.P
    PS = P.cls("vpsc.PositionStats")
    f = P.func("vpsc.PositionStats.addVariable")
    R.saw(f, P.func("vpsc.PositionStats.getPosn"), P.func("vpsc.PositionStats.__init__"))
    ev = new_eval(P)
    st = ev.new_state(module="vpsc")
    ps = ev.instantiate(PS, [Opaque("S")], {}, st)
    init = {a: st.heap.get((ps.text, a)) for a in ("AB", "AD", "A2")}
    R.check(all(v is not None and num_const(v) == 0 for v in init.values()), "VPSC.STATIONARY", "PositionStats.__init__", where(P.func("vpsc.PositionStats.__init__")), "accumulators start at 0", "PositionStats accumulators start at %s" % {k: key(v) if v is not None else None for k, v in init.items()})
    for a in ("AB", "AD", "A2"):
        st.heap[(ps.text, a)] = Num.atom(a + "0")
    ev.call_closure(Closure(f, None, selfv=ps), [Opaque("v")], {}, st)
    d = {a: as_num(st.heap.get((ps.text, a))) - A(a + "0") for a in ("AB", "AD", "A2")}
    # position of v as a function of the block position X: (S*X + off)/s ; cost term w*(pos - des)^2
    X = A("X")
    pos = (A("S") * X + A("v.offset")) / A("v.scale")
    cost = A("v.weight") * (pos - A("v.desiredPosition")) * (pos - A("v.desiredPosition"))
    half_grad = cost.derivative("X") / C(2)
    # stationarity: sum_i (A2_i X + AB_i - AD_i) * k == half_grad for a constant k>0 ( = S here )
    lhs = d["A2"] * X + d["AB"] - d["AD"]
    ok = False
    if not lhs.n.is_zero():
        q = half_grad / lhs
        ok = (q.is_const() and q.const_value() > 0) or q.equals(A("S")) or (lhs * A("S")).equals(half_grad)
    R.check(ok, "VPSC.STATIONARY", f.qual, where(f), "A2*X + AB - AD is proportional to d/dX of the block's cost", "PositionStats.addVariable accumulates (A2, AB, AD) += (%s, %s, %s): A2*X + AB - AD is not proportional to the derivative of weight*(position-desired)^2 with respect to the block position, so getPosn() is not the stationary point of the cost Block.cost reports" % (d["A2"].key(), d["AB"].key(), d["AD"].key()))
    g = P.func("vpsc.PositionStats.getPosn")
    for a in ("AB", "AD", "A2"):
        st.heap[(ps.text, a)] = Num.atom(a)
    r = as_num(ev.call_closure(Closure(g, None, selfv=ps), [], {}, st))
    R.check(r is not None and r.equals((A("AD") - A("AB")) / A("A2")), "VPSC.STATIONARY", g.qual, where(g), "getPosn == (AD - AB)/A2", "getPosn() is %s" % (r.key() if r is not None else "?"))
    # updateWeightedPosition resets and re-adds every variable
    h = P.func("vpsc.Block.updateWeightedPosition")
    ev = new_eval(P, inline_filter=lambda fn: fn.qual not in ("vpsc.PositionStats.addVariable", "vpsc.PositionStats.getPosn"))
    st = ev.new_state(h)
    b = Opaque("b", cls=P.cls("vpsc.Block"), kind="obj")
    st.heap[("b", "ps")] = Opaque("b.ps", cls=PS, kind="obj")
    st.heap[("b", "vars")] = Opaque("VARS", kind="seq")
    ev.call_closure(Closure(h, None, selfv=b), [], {}, st)
    reset = all(st.heap.get(("b.ps", a)) is not None and num_const(st.heap.get(("b.ps", a))) == 0 for a in ("AB", "AD", "A2"))
    loops_ = [e for e in st.events if e[0] == "loop"]
    cover = bool(loops_) and _covers_all(loops_[0][1], "VARS")
    posn = st.heap.get(("b", "posn"))
    R.check(reset and cover and posn is not None and key(posn) == "b.ps.getPosn()", "VPSC.STATIONARY", h.qual, where(h), "statistics rebuilt from all variables, position re-derived", "updateWeightedPosition does not reset the statistics, re-add every variable and re-derive the position")


@rule("VPSC.ITER")
def iter_rule(ctx, R):
    P = ctx.P
    f = P.func(S + ".solve")
    cfg = ctx.cfg(f)
    loops = [l for l in cfg.loops if isinstance(l["stmt"], ast.While)]
    ok = False
    detail = "no convergence loop"
    if len(loops) == 1:
        l = loops[0]
        ev = new_eval(P, inline_filter=lambda fn: False)
        st = ev.new_state(f)
        for n in ast.walk(l["stmt"]):
            if isinstance(n, ast.Name) and n.id not in ("abs", "Solver", "self", "maxsize", "True", "False"):
                st.env.vars[n.id] = Opaque(n.id)
        wtest = l["stmt"].test
        if isinstance(wtest, ast.Constant) and wtest.value is True:
            # loop-and-a-half: `if <exit>: break`
            brk = [n for n in ast.walk(l["stmt"]) if isinstance(n, ast.If) and any(isinstance(x, (ast.Break, ast.Return)) for x in n.body) and not n.orelse]
            c = None
            if len(brk) == 1:
                from ..sym import cnot
                c = cnot(ev.cond(brk[0].test, st))
        else:
            c = ev.cond(wtest, st)
        detail = show(c) if c is not None else "no single exit test"
        if isinstance(c, Cond) and c.tree[0] == "cmp" and c.tree[1] in ("lt", "le"):
            thr, val = num_const(c.tree[2]), c.tree[3]
            if thr is None and key(c.tree[2]) in (f.params + f.kwonly):
                # the threshold is a parameter: what the package's own calls (and the default) give it
                vals = param_values(ctx, f, key(c.tree[2]))
                if vals:
                    thr = max(vals)
                    if min(vals) < 0:
                        thr = None
            if thr is not None and isinstance(as_num(val), Num):
                a = list(as_num(val).atoms())
                isabs = len(a) == 1 and isinstance(a[0], tuple) and a[0][0] == "abs"
                ok = isabs and 0 <= thr <= Fraction(1, 1000)
                detail = "repeats while |cost change| > %s" % thr
        body_sat = any(_has_call(n, lambda k: _attr_call(k, "satisfy")) for n in cfg.loop_body(l))
        ok = ok and body_sat
    first = [n for n in cfg.stmt_nodes() if _has_call(n, lambda k: _attr_call(k, "satisfy"))]
    R.check(ok and bool(first), "VPSC.ITER", f.qual, where(f), detail, "solve() does not repeat satisfy() until the cost changes by at most a threshold <= 1e-3 (%s)" % detail)


@rule("VPSC.UPDATE-ALL")
def update_all(ctx, R):
    """updateBlockPositions refreshes every block unconditionally; forEach visits every block."""
    P = ctx.P
    f = P.func("vpsc.Blocks.updateBlockPositions")
    ev = new_eval(P, inline_filter=lambda fn: fn is f)
    st = ev.new_state(f)
    s = Opaque("self", cls=P.cls("vpsc.Blocks"), kind="obj")
    st.heap[("self", _bl(ctx))] = Opaque("LIST", cls=P.cls("vpsc.Block"), kind="seq")
    ev.call_closure(Closure(f, None, selfv=s), [], {}, st)
    loops_ = [e for e in st.events if e[0] == "loop"]
    ok = len(loops_) == 1 and _covers_all(loops_[0][1], "LIST")
    if ok:
        body = loops_[0][3]
        # the call must not sit under a condition
        cond = [b for b in body if b[0] in ("branch", "in-branch")]
        lp = loops_[0][4]
        calls = [c for c in calls_in(lp) if _attr_call(c, "updateWeightedPosition")]
        direct = [st_ for st_ in lp.body if isinstance(st_, ast.Expr) and isinstance(st_.value, ast.Call) and _attr_call(st_.value, "updateWeightedPosition")]
        ok = len(calls) == 1 and len(direct) == 1 and not cond
    R.check(ok, "VPSC.UPDATE-ALL", f.qual, where(f), "every block's weighted position is refreshed", "updateBlockPositions does not unconditionally refresh every block: a block skipped here keeps a position computed from old desired positions")


OPT = [split_first, lmtol, dfdv, lm_accum, lm_fresh, stationary, iter_rule, update_all]
COST = [cost_rule]
