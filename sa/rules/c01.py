"""C01 — items sharing a layer never overlap and keep the order of their targets."""
import ast

from .util import *
from . import qp
from . import vpsc_pack
from . import state as statepack

EXPLANATION = (
    "removeOverlap is value-numbered for the four present/absent combinations of the two bounds with a symbolic "
    "non-empty layer and symbolic caller options (QP-SETUP model).  Decided: the node list is (stably) sorted by "
    "targetPos after the targets are assigned and before variables/constraints are built (C01.SORT); the constraint "
    "loop ranges over all adjacent pairs and creates exactly one hard Constraint(left=earlier, right=later) per pair "
    "(C01.CHAIN); its gap is w(L)/2 + w(R)/2 + S with S the line spacing iff both are stubs, the node spacing "
    "otherwise, each read from DEFAULT_OPTIONS overridden by the caller's dict (C01.GAP, C01.OPTS, C01.LINESP); the "
    "stub predicate is 'has a child' and `child` is written only by createStub/removeStub (C01.STUBPRED); a Solver is "
    "built from exactly those variables and constraints and solve() is passed on every path to a normal return "
    "(C01.SOLVE); afterwards every variable carrying a node writes node.currentPos = rho(position()) with rho in "
    "{round, floor(x+.5), floor, ceil, identity} and nothing else (C01.WRITEBACK); the writers of currentPos are "
    "exactly the five known ones and none runs after a layer's solve (C01.LASTWRITER); Force.compute hands every "
    "layer of the distributor's result to removeOverlap once, with the bounds/spacing projected from its options "
    "(C01.ALLLAYERS); plus the feasibility structure of the solver (VPSC.FEAS pack).  Not decided: the solver's "
    "arithmetic beyond that structure and the numeric <=1-unit rounding account."
    '  Also part of this check: complete stub chains (C04.STUBCHAIN: a stub in the wrong layer is an extra item of that layer), no option or layout caches (C01.STATE), and that the solver takes over every constraint it is given (VPSC.ALLCS).'
)
ASSUMPTIONS = ["list.sort / sorted are stable", "options passed by callers are dicts"]


def _spacing_ok(v, name, default):
    k = key(v)
    return k in ("override(options[%r], %s)" % (name, default), "options.get(%r, %s)" % (name, default))


@rule("C01.SORT")
def sort_rule(ctx, R):
    P = ctx.P
    f = P.func(qp.RO)
    R.saw(f)
    M = qp.models(ctx)[(False, False)]
    for hint, msg, node in M.problems:
        if hint == "C01.SORT":
            R.bad("C01.SORT", "problem", where(f, node), msg)
    phases = [o[0] for o in M.order]
    sorts = [s for s in M.sorts if s["seq"] in ("nodes",) or s["seq"].startswith("nodes")]
    ok = False
    detail = "no sort of the node list"
    if sorts:
        s = sorts[-1]
        okkey = s["key"] == "k.targetPos" and s["reverse"] in (None, "False")
        i_sort = max(i for i, p in enumerate(phases) if p == "sort")
        first_use = min([i for i, p in enumerate(phases) if p in ("vars", "chain", "wall")] or [len(phases)])
        last_target = max([i for i, p in enumerate(phases) if p == "target"] or [-1])
        ok = okkey and last_target < i_sort < first_use
        detail = "sort key %s reverse=%s; phases %s" % (s["key"], s["reverse"], phases)
    R.check(ok, "C01.SORT", qp.RO + "|sort by targetPos", where(f), "nodes sorted ascending by targetPos after targets are set and before variables/constraints: " + detail,
            "the layer is not sorted by targetPos between target assignment and constraint building (%s): adjacent constraints would tie the wrong neighbours" % detail)
    # the variable list must be built from the sorted node list, one variable per node carrying that node
    okv = M.var_node is not None and key(M.var_node) == "elem(nodes)"
    R.check(okv, "C01.SORT", qp.RO + "|variables follow the sorted nodes", where(f), "variables[j].node is nodes[j] of the sorted list", "the variable list is not built as one variable per node of the sorted list")


@rule("C01.CHAIN")
def chain_rule(ctx, R):
    P = ctx.P
    f = P.func(qp.RO)
    M = qp.models(ctx)[(False, False)]
    for hint, msg, node in M.problems:
        if hint == "C01.CHAIN":
            R.bad("C01.CHAIN", "problem|" + msg[:60], where(f, node), msg)
    c = M.chain
    if c is None:
        R.bad("C01.CHAIN", qp.RO + "|adjacent pairs", where(f), "no loop creating one separation constraint per adjacent pair of the sorted variables was found")
        return
    R.check(c["full"], "C01.CHAIN", qp.RO + "|iteration space", where(f, c["node"]), "iteration space %s = all adjacent pairs" % c["space"], "iteration space %s does not cover all adjacent pairs: some neighbours stay unconstrained" % c["space"])
    lk, rk = key(c["left"]), key(c["right"])
    R.check(lk == "L" and rk == "R", "C01.CHAIN", qp.RO + "|roles", where(f, c["node"]), "Constraint(left=earlier, right=later)", "the pair constraint is built as Constraint(left=%s, right=%s): not earlier -> later" % (lk, rk))
    R.check(key(c["equality"]) in ("False", "None"), "C01.CHAIN", qp.RO + "|inequality", where(f, c["node"]), "separation is an inequality", "pair constraint created with equality=%s" % key(c["equality"]))
    R.check(len(M.other_constraints) == 0, "C01.CHAIN", qp.RO + "|no other constraints", where(f), "only the chain and the walls are constrained", "%d further constraints are created" % len(M.other_constraints))


@rule("C01.GAP")
def gap_rule(ctx, R):
    P = ctx.P
    f = P.func(qp.RO)
    M = qp.models(ctx)[(False, False)]
    c = M.chain
    if c is None:
        R.bad("C01.GAP", qp.RO + "|gap", where(f), "no pair constraint to examine")
        return
    g = c["gap"]
    wl, wr = A("NL.width"), A("NR.width")
    half = (wl + wr) / C(2)
    stubs_and = "and(truth(NL.child), truth(NR.child))"
    ok = False
    detail = show(g, 400)
    if isinstance(g, Phi):
        ck_ = key(g.cond)
        a, b = g.a, g.b
        if ck_ in ("or(not(truth(NL.child)), not(truth(NR.child)))",):
            a, b = b, a
            ck_ = stubs_and
        if ck_ in (stubs_and, "and(truth(NR.child), truth(NL.child))"):
            na, nb = as_num(a), as_num(b)
            if na is not None and nb is not None:
                sa_, sb_ = na - half, nb - half
                oka = len(sa_.atoms()) == 1 and _spacing_atom(sa_, "lineSpacing")
                okb = len(sb_.atoms()) == 1 and _spacing_atom(sb_, "nodeSpacing")
                ok = oka and okb
                detail = "stub/stub gap %s, otherwise %s" % (na.key(), nb.key())
        else:
            detail = "the spacing is selected by `%s`, not by 'both items are stubs'" % ck_
    R.check(ok, "C01.GAP", qp.RO + "|gap formula", where(f, c["node"]),
            "gap == (w(L)+w(R))/2 + (lineSpacing if both stubs else nodeSpacing)",
            "gap is not (w(L)+w(R))/2 + (lineSpacing if both are stubs else nodeSpacing): %s" % detail)


def _spacing_atom(n, name):
    ats = list(n.atoms())
    if len(ats) != 1 or not n.equals(Num.atom(ats[0])):
        return False
    a = ats[0]
    return isinstance(a, str) and (a.startswith("override(options[%r]," % name) or a.startswith("options.get(%r," % name))


@rule("C01.OPTS")
def opts_rule(ctx, R):
    """options = DEFAULT_OPTIONS overridden by the caller's dict; lineSpacing default 2."""
    P = ctx.P
    f = P.func(qp.RO)
    M = qp.models(ctx)[(False, False)]
    ov = M.state.env.lookup(f.params[1]) if len(f.params) > 1 else None
    dflt = M.ev.resolve_global("removeOverlap", "DEFAULT_OPTIONS")
    ok = isinstance(dflt, DictV) and ov is not None and ov is not dflt and (not isinstance(ov, DictV) or set(dflt.items) <= set(ov.items))
    if ok:
        # whatever holds the effective options (a merged dict, a small mapping object): reading a default's key gives the
        # caller's value when supplied, the default otherwise
        for k_, dv in dflt.items.items():
            try:
                v = ov.items[k_] if isinstance(ov, DictV) else M.ev.getitem(ov, Const(k_), M.state)
            except Exception:
                v = None
            if not (isinstance(v, OverrideV) and key(v.o) == "options" and key(v.old) == key(dv)):
                ok = False
    R.check(ok, "C01.OPTS", qp.RO + "|options merge", where(f), "effective options = copy of DEFAULT_OPTIONS updated with the caller's dict", "the effective options are not 'DEFAULT_OPTIONS overridden by the caller's dict' (got %s): a missing key raises KeyError at the first adjacent stub pair, or defaults win over the caller" % show(ov, 200))
    mod = P.module("removeOverlap")
    d = dflt.items.get("lineSpacing") if isinstance(dflt, DictV) else None
    R.check(d is not None and num_const(d) == 2, "C01.LINESP", "removeOverlap.DEFAULT_OPTIONS['lineSpacing']", mod.path, "line spacing default is the fixed 2 units", "default lineSpacing is %s, the property's fixed line spacing is 2" % (key(d) if d is not None else "missing"), nontrivial=False)
    d = dflt.items.get("nodeSpacing") if isinstance(dflt, DictV) else None
    R.check(d is not None and num_const(d) == 3, "C01.LINESP", "removeOverlap.DEFAULT_OPTIONS['nodeSpacing']", mod.path, "label spacing default 3", "default nodeSpacing is %s (documented default 3)" % (key(d) if d is not None else "missing"), nontrivial=False)


@rule("C01.STUBPRED")
def stubpred(ctx, R):
    P = ctx.P
    f = P.func("node.Node.isStub")
    R.saw(f)
    ev = new_eval(P)
    st = ev.new_state(f)
    n = Opaque("n", cls=P.cls("node.Node"), kind="obj")
    r = ev.truth(ev.call_closure(Closure(f, None, selfv=n), [], {}, st))
    R.check(key(r) == "truth(n.child)", "C01.STUBPRED", f.qual, where(f), "isStub() <=> child is set", "isStub() is %s, not 'child is set'" % show(r))
    # writers of .child
    allowed = {"node.Node.__init__", "node.Node.createStub", "node.Node.removeStub"}
    for g in P.funcs.values():
        for nn in ast.walk(g.node):
            if isinstance(nn, ast.Attribute) and nn.attr == "child" and isinstance(nn.ctx, ast.Store):
                R.check(g.qual in allowed, "C01.STUBPRED", "writer of .child: %s" % g.qual, where(g, nn), "known writer of Node.child", "`%s` writes Node.child outside createStub/removeStub: the stub predicate no longer means 'stands in for a label'" % g.qual)


@rule("C01.SOLVE")
def solve_rule(ctx, R):
    P = ctx.P
    f = P.func(qp.RO)
    for cfgk, M in sorted(qp.models(ctx).items()):
        tag = "minPos %s, maxPos %s" % ("absent" if cfgk[0] else "present", "absent" if cfgk[1] else "present")
        for hint, msg, node in M.problems:
            if hint == "C01.SOLVE":
                R.bad("C01.SOLVE", tag + "|" + msg[:50], where(f, node), msg)
        if M.solver_args is None or not M.solve_called:
            R.bad("C01.SOLVE", tag + "|solver", where(f), "no vpsc.Solver(...).solve() on the path for this configuration: positions are never separated")
            continue
        args = M.solver_args[0]
        okv = len(args) >= 2 and _vars_shape(M, args[0])
        cons = args[1] if len(args) >= 2 else None
        want = ([M.chain["obj"]] if M.chain else []) + [w["obj"] for w in M.walls]
        got = [key(x) for x in cons.items] if isinstance(cons, Seq) else None
        R.check(okv and got is not None and sorted(got) == sorted(want), "C01.SOLVE", tag + "|solver input", where(f, M.solver_args[2]),
                "Solver(all variables, chain + wall constraints)", "the solver is not given exactly the assembled variables and constraints: variables %s constraints %s (assembled: %s)" % (show(args[0], 120) if args else None, got, want))
        phases = [o[0] for o in M.order]
        i_solve = phases.index("solve") if "solve" in phases else -1
        ok = i_solve > max([i for i, p in enumerate(phases) if p in ("chain", "wall", "solver")] or [-1]) and all(i > i_solve for i, p in enumerate(phases) if p == "writeback")
        R.check(ok, "C01.SOLVE", tag + "|order", where(f), "build -> solve -> write back", "phases out of order: %s" % phases)
    # CFG: every normal return is dominated by the solve call, except the empty-layer guard
    cfg = ctx.cfg(f)
    solve_nodes = [n for n in cfg.stmt_nodes() if n.ast is not None and any(isinstance(c.func, ast.Attribute) and c.func.attr == "solve" for c in calls_in(n.ast) + ([n.ast] if isinstance(n.ast, ast.Call) else []))]
    for n in cfg.stmt_nodes():
        if n.kind == "stmt" and isinstance(n.ast, ast.Return):
            dominated = any(cfg.dominates(s, n) for s in solve_nodes)
            if dominated:
                R.ok("C01.SOLVE", "return@%s dominated by solve" % ntext(n.ast)[:30], where(f, n.ast), "return after solve()")
                continue
            guard = _empty_guard(cfg, n, f.params[0])
            R.check(guard, "C03.EARLY" if False else "C01.SOLVE", "early return `%s`" % ntext(n.ast)[:40], where(f, n.ast), "the only return before solve() is the empty-layer guard",
                    "`%s` leaves removeOverlap without solving although the layer is not empty: items keep unseparated positions (and bounds are not applied)" % ntext(n.ast)[:60])


def _vars_shape(M, v):
    """[left wall]? ++ [one variable per sorted node] ++ [right wall]?"""
    from ..sym import Cat
    parts = v.parts if isinstance(v, Cat) else [v]
    want = []
    lw = [w for w in M.walls if w["wall_side"] == "left"]
    rw = [w for w in M.walls if w["wall_side"] == "right"]
    got = []
    for p in parts:
        if isinstance(p, Seq):
            got.extend(key(x) for x in p.items)
        elif isinstance(p, MapV):
            got.append("VARS" if (key(p.body) == getattr(M, "var_obj", None) and key(p.it) in ("nodes",) or key(p.it).startswith("sorted(nodes")) and not p.conds else "?" + key(p)[:40])
        else:
            got.append("?" + key(p)[:40])
    want = [key(w["wall"]) for w in lw] + ["VARS"] + [key(w["wall"]) for w in rw]
    return got == want or sorted(got) == sorted(want) and got.index("VARS") >= 0 and all(x in got for x in want)


def _empty_guard(cfg, ret, nodes_param):
    """Is `ret` reachable only through the True edge of a test that means 'the node list is empty'?"""
    for t in cfg.nodes:
        if t.kind != "test":
            continue
        tx = ntext(t.ast).replace(" ", "")
        empties = {"len(%s)==0" % nodes_param, "not%s" % nodes_param, "len(%s)<1" % nodes_param, "0==len(%s)" % nodes_param, "notlen(%s)" % nodes_param, "len(%s)<=0" % nodes_param,
                   "not%sorlen(%s)==0" % (nodes_param, nodes_param), "%sisNoneorlen(%s)==0" % (nodes_param, nodes_param)}
        if tx in empties:
            tsucc = [s for s in cfg.succ[t] if cfg.elabel.get((t, s)) is True]
            if tsucc and (ret is tsucc[0] or cfg.dominates(tsucc[0], ret)) and not any(cfg.elabel.get((t, s)) is False and cfg.exists_path(s, ret) for s in cfg.succ[t]):
                return True
    return False


RHO_C01 = {"round", "floor+half", "identity", "floor", "ceil"}
RHO_C02 = {"round", "floor+half", "identity"}


def rho_of(value, elkey):
    """Classify value as rho(<el>.position()); returns name or None."""
    n = as_num(value)
    pos = "%s.position()" % elkey
    if n is None:
        return None
    if n.equals(Num.atom(pos)):
        return "identity"
    ats = list(n.atoms())
    if len(ats) == 1 and n.equals(Num.atom(ats[0])) and isinstance(ats[0], tuple):
        a = ats[0]
        if a[0] == "round" and a[1] == pos:
            return "round"
        if a[0] == "floor" and a[1] == (Num.atom(pos) + C("1/2")).key():
            return "floor+half"
        if a[0] in ("floor", "ceil") and a[1] == pos:
            return a[0]
        if a[0] in ("int", "trunc"):
            return "int"
    return None


@rule("C01.WRITEBACK")
def writeback(ctx, R):
    P = ctx.P
    f = P.func(qp.RO)
    for cfgk, M in sorted(qp.models(ctx).items()):
        tag = "minPos %s, maxPos %s" % ("absent" if cfgk[0] else "present", "absent" if cfgk[1] else "present")
        for hint, msg, node in M.problems:
            if hint == "C01.WRITEBACK":
                R.bad("C01.WRITEBACK", tag + "|" + msg[:50], where(f, node), msg)
        w = M.writeback
        if w is None:
            R.bad("C01.WRITEBACK", tag, where(f), "no loop writes node.currentPos from the solved variables: the layout keeps the unseparated positions")
            continue
        el = w["el"]
        elk = key(el)
        # target must be the element's own node
        tgt_ok = w["target"] == "%s.node" % elk or (isinstance(el, Opaque) and M.state.heap.get((el.text, "node")) is not None and key(M.state.heap.get((el.text, "node"))) == w["target"])
        rho = rho_of(w["value"], elk)
        R.check(tgt_ok and rho in RHO_C01, "C01.WRITEBACK", tag + "|value", where(f, w["node"]),
                "node.currentPos = %s(variable.position())" % rho,
                "write-back is `%s.currentPos = %s`: not rho(position()) of the same variable with rho losing < 1 on a difference (int()/trunc() move a negative and a positive neighbour toward each other; any clamp or offset absorbs infeasible layers as overlap)" % (w["target"], show(w["value"], 160)))
        # coverage: iterates the variables given to the solver (optionally filtered on .node)
        it = w["it"]
        solver_vars = M.solver_args[0][0] if M.solver_args and M.solver_args[0] else None
        direct = solver_vars is not None and (it is solver_vars or key(it) == key(solver_vars))
        if direct:
            cov = True  # iterates the solver's variable list itself (a guard on .node inside the loop is the element's own)
        else:
            src = it.it if isinstance(it, MapV) else it
            cov = solver_vars is not None and (src is solver_vars or key(src) == key(solver_vars))
            if isinstance(it, MapV):
                nd = key(M.ev.getattr(it.el, "node", M.state))
                cov = cov and key(it.body) == key(it.el) and all(c in ("truth(%s)" % nd, nd, "cmp(isnot, %s, None)" % nd) for c in it.conds)
        R.check(cov, "C01.WRITEBACK", tag + "|coverage", where(f, w["node"]), "every solved variable that carries a node is written back", "write-back iterates %s: not all node-carrying variables handed to the solver" % show(it, 160))
        # nothing after write-back touches currentPos / no return of something else
        R.check(key(M.ret) in ("nodes", "None") or key(M.ret).startswith("sorted(nodes"), "C01.WRITEBACK", tag + "|return", where(f), "returns the layer", "returns %s" % show(M.ret), nontrivial=False)


CUR_WRITERS = {"node.Node.__init__", "node.Node.createStub", "node.Node.clone", "node.Node.moveToIdealPosition", qp.RO}


def _cur_writer_ok(g):
    """Known writers of Node.currentPos: the four Node methods and the write-back inside removeOverlap.py
    (any function of that module, so that extracting a helper there is not an alarm)."""
    t = g
    while t.parent is not None:
        t = t.parent
    return t.qual in CUR_WRITERS or t.module.name == "removeOverlap"


@rule("C01.LASTWRITER")
def lastwriter(ctx, R):
    P = ctx.P
    cg = ctx.cg
    writers = set()
    for g in P.funcs.values():
        for nn in ast.walk(g.node):
            if isinstance(nn, ast.Attribute) and nn.attr == "currentPos" and isinstance(nn.ctx, ast.Store):
                if P.enclosing_func(nn) is g:
                    writers.add(g.qual)
                    okw = _cur_writer_ok(g)
                    if not okw:
                        # a helper (alternative constructor, private method) that writes on behalf of known writers only: every
                        # function of the package that calls it is itself a known writer
                        def via_known(h, depth=0):
                            t = h
                            while t.parent is not None:
                                t = t.parent
                            cs = [P.funcs[c] for c in cg.inn.get(t.qual, ()) if c in P.funcs]
                            return bool(cs) and depth < 3 and all(_cur_writer_ok(c) or via_known(c, depth + 1) for c in cs)

                        okw = via_known(g)
                    R.check(okw, "C01.LASTWRITER", "writer of .currentPos: %s" % g.qual, where(g, nn), "known writer of Node.currentPos",
                            "`%s` writes Node.currentPos: a position written outside removeOverlap's write-back can undo the separation the solver established" % g.qual)
            if isinstance(nn, ast.Call) and isinstance(nn.func, ast.Name) and nn.func.id == "setattr" and len(nn.args) >= 2 and isinstance(nn.args[1], ast.Constant) and nn.args[1].value == "currentPos":
                R.bad("C01.LASTWRITER", "setattr currentPos in %s" % g.qual, where(g, nn), "setattr(..., 'currentPos', ...) outside the known writers")
    R.check(len(writers) >= 5, "C01.LASTWRITER.inventory", "writers found: %d" % len(writers), "", "", "expected the five known writers, found %s" % sorted(writers), nontrivial=False)
    # no writer other than removeOverlap is reachable after a layer's removeOverlap call in Force.compute,
    # nor between force.compute() and the emitters in Timeline.compute / export
    bad_writers = {w for w in writers if P.funcs[w].module.name != "removeOverlap"}

    def reaches(c, target):
        return any(target in cg.reachable([g.qual]) for g, _ in ctx.types.resolve(c))

    for fq, anchor_pred, what in (
        ("force.Force.compute", lambda c: reaches(c, qp.RO), "after the layer's removeOverlap()"),
        ("timeline.Timeline.compute", lambda c: reaches(c, "force.Force.compute"), "after force.compute()"),
    ):
        f = P.func(fq)
        R.saw(f)
        cfg = ctx.cfg(f)
        anchors = [n for n in cfg.stmt_nodes() if n.ast is not None and any(anchor_pred(c) for c in calls_in(n.ast) + ([n.ast] if isinstance(n.ast, ast.Call) else []))]
        if not anchors:
            R.bad("C01.LASTWRITER", fq + "|anchor", where(f), "%s does not call the solve step" % fq)
            continue
        later = set()
        for a in anchors:
            later |= cfg.reach(a)
        offenders = []
        for n in later:
            if n.ast is None:
                continue
            for c in calls_in(n.ast) + ([n.ast] if isinstance(n.ast, ast.Call) else []):
                if n in anchors and anchor_pred(c):
                    continue
                for g, _ in ctx.types.resolve(c):
                    reach = cg.reachable([g.qual])
                    hit = reach & bad_writers
                    if hit and not anchor_pred(c):
                        offenders.append((n, c, sorted(hit)))
        # removeOverlap itself is re-entered for later layers: only writers that touch *other* layers' nodes matter;
        # createStub is reached from distribute, which must not be after the anchor
        R.check(not offenders, "C01.LASTWRITER", fq + "|" + what, where(f), "no other writer of currentPos runs %s" % what,
                "; ".join("`%s` reaches %s %s" % (ntext(c)[:50], h, what) for n, c, h in offenders[:3]))


@rule("C01.ALLLAYERS")
def alllayers(ctx, R):
    P = ctx.P
    F = qp.force_model(ctx)
    f = F.func
    R.saw(f)
    ro = [c for c in F.calls if c[0] == "removeOverlap"]
    ds = [c for c in F.calls if c[0] == "distribute"]
    R.check(len(ds) == 1 and ds[0][1] and key(ds[0][1][0]) == "self._nodes", "C01.ALLLAYERS", "distribute(self._nodes)", where(f), "the engine's labels are layered once", "distribute is called %d times / with %s" % (len(ds), [key(a) for a in ds[0][1]] if ds else None))
    # the loop event containing the removeOverlap mark
    loops = [e for e in F.st.events if e[0] == "loop" and any(b[0] == "mark" and b[1] == "removeOverlap" for b in qp._flat_events(e[3]))]
    ok = len(ro) == 1 and len(loops) == 1
    detail = "removeOverlap call sites evaluated: %d, enclosing loops: %d" % (len(ro), len(loops))
    if ok:
        it = loops[0][1]
        itk = key(it)
        layer_arg = ro[0][1][0] if ro[0][1] else None
        # iteration over all layers in ascending order
        asc = itk in ("enumerate(LAYERS)", "LAYERS")
        ok = asc and layer_arg is not None and key(layer_arg) in ("elem(LAYERS)",)
        detail = "iterates %s, passes %s" % (itk, show(layer_arg) if layer_arg is not None else None)
        if not ok and itk.startswith("range("):
            ok = itk == "range(len(LAYERS))" and key(layer_arg).startswith("LAYERS[")
    if ok:
        # ... and unconditionally: a layer that is skipped (say, because it holds a single label) never gets its bounds,
        # its stub targets or its write-back.  Only "the layer is empty" may guard the call (removeOverlap returns at once then).
        def guards(evs, path):
            for e in evs:
                if e[0] == "in-branch":
                    yield from guards([e[3]], path + [(e[1], e[2])])
                elif e[0] == "loop":
                    yield from guards(e[3], path)
                elif e[0] == "mark" and e[1] == "removeOverlap":
                    yield path

        el = "elem(LAYERS)"
        harmless = {("truth(%s)" % el, True), ("truth(len(%s))" % el, True), ("cmp(lt, 0, len(%s))" % el, True), ("cmp(eq, len(%s), 0)" % el, False),
                    ("cmp(le, len(%s), 0)" % el, False), ("cmp(le, 1, len(%s))" % el, True), ("cmp(lt, len(%s), 1)" % el, False), ("cmp(ne, len(%s), 0)" % el, True)}
        for path in guards(loops[0][3], []):
            badg = [(c, pol) for c, pol in path if (key(c), pol) not in harmless]
            if badg:
                ok = False
                detail = "the call is made only when %s: layers for which that fails are never laid out (no bounds, no stub targets)" % " and ".join(("" if pol else "not ") + key(c) for c, pol in badg)
    R.check(ok, "C01.ALLLAYERS", "every layer solved once, nearest first", where(f), detail, "Force.compute does not hand every layer of the distributor's result to removeOverlap exactly once in ascending order: %s" % detail)
    if ro and len(ro[0][1]) >= 2:
        so = ro[0][1][1]
        rd = F.ro_defaults
        good = isinstance(so, DictV) and isinstance(rd, DictV)
        if good:
            for k_ in rd.items:
                if k_ in F.opts.items:
                    if k_ not in so.items or so.items[k_] is not F.opts.items[k_]:
                        good = False
            for k_ in so.items:
                if k_ in rd.items and key(so.items[k_]) != "opt:%s" % k_:
                    good = False
        R.check(good, "C01.ALLLAYERS", "options projection", where(f, ro[0][3]), "removeOverlap gets nodeSpacing/minPos/maxPos/lineSpacing from the engine's current options",
                "the options handed to removeOverlap are %s: not the engine's current values for the keys of removeOverlap.DEFAULT_OPTIONS (stale or missing bounds/spacing)" % show(so, 200))
    else:
        R.bad("C01.ALLLAYERS", "options projection", where(f), "removeOverlap is called without the engine's options")


@rule("C01.STATE")
def state_rule(ctx, R):
    statepack.no_hidden_state(ctx, R, "C01.STATE", modules=["removeOverlap", "vpsc", "force", "node", "distributor"], classes={
        "force.Force": {"force", "options", "distributor", "_nodes", "layers"},
        "distributor.Distributor": {"options"},
    })


def _target(ctx, R):
    from .c02 import target
    return target(ctx, R)


_target.rule_id = "C02.TARGET"

def _reset(ctx, R):
    from .c04 import reset
    return reset(ctx, R)


_reset.rule_id = "C06.RESET"


def _lz(mod, fn, rid):
    def run(ctx, R):
        import importlib
        return getattr(importlib.import_module("sa.rules." + mod), fn)(ctx, R)

    run.rule_id = rid
    run.__name__ = fn
    return run

# a stub in the wrong layer is a second item of that layer at the label's own position: the chain rules of C04 are part of C01
# each engine starts from a private copy of the defaults and hands the caller's options on: spacing and bounds set on one
# engine must not leak into the module defaults / other engines (C04.OPTFLOW)
RULES = [sort_rule, chain_rule, gap_rule, opts_rule, stubpred, solve_rule, writeback, lastwriter, alllayers, _target, _reset, state_rule] + vpsc_pack.FEAS + [_lz("c04", "stubchain_instance", "C04.STUBCHAIN"), _lz("c04", "stubchain", "C04.STUBCHAIN-ALL-N"), _lz("c03", "layerwidth", "C03.LAYERWIDTH"), _lz("c04", "optflow", "C04.OPTFLOW")]
