"""C16 — time ticks never fail, increase, stay in the domain, sit on calendar boundaries."""
import ast
from fractions import Fraction

from .util import *
from . import state as statepack
from .c17 import registry_closures, unittable, monthstep, range_rule, calfield, UNIT_MS
from .c14 import ceil_rule
from .c18 import tzapi_time
from ..sym import RangeV, Ext

EXPLANATION = (
    "C16.TABLES: d3_time_scaleSteps and d3_time_scaleLocalMethods have equal length, steps strictly increase and "
    "steps[i] == unit_ms(methods[i].unit) * count within 1% (unit table of the checker, cross-checked with the floors "
    "of C17.UNITTABLE).  C16.RATIO: adjacent step ratios <= 2.4^2.  C16.CHOICE: tickMethod bisects the table with "
    "target = span/count, takes years with the linear step above the table, the millisecond interval with the linear "
    "step below it, otherwise the geometrically nearer neighbour (target/steps[i-1] < steps[i]/target); d3_bisect is "
    "bisect-right.  C16.SUBMS: ticks() enumerates interval.range(milli2dt(lo), milli2dt(hi+1), 1 if step < 1 else "
    "step).  C16.RANGEINT: every argument of builtin range() is provably an int (kind domain).  C16.MONOTONE/CALFIELD/"
    "UNITTABLE/MONTHSTEP/CEIL: the interval rules of C17.  C16.NORAISE: no raise statement and no unguarded division on "
    "the ticks call graph.  C16.ARGSHAPE: tickMethod receives (extent list, count).  Gap ratios and count bounds "
    "themselves are calendar arithmetic and not decided."
)
ASSUMPTIONS = ["nominal unit durations: 1e3, 6e4, 36e5, 864e5, 7 d, 30 d, 365 d (d3 convention)"]

UNIT_NOMINAL = {"second": 1e3, "minute": 6e4, "hour": 36e5, "day": 864e5, "week": 6048e5, "month": 2592e6, "year": 31536e6}
TS = "scale.TimeScale"


@rule("C16.TABLES")
def tables(ctx, R):
    P = ctx.P
    ev, st, reg, cl = registry_closures(ctx)
    mod = P.module("scale")
    steps = ev.resolve_global("scale", "d3_time_scaleSteps")
    meths = ev.resolve_global("scale", "d3_time_scaleLocalMethods")
    if not isinstance(steps, Seq) or not isinstance(meths, Seq):
        R.bad("C16.TABLES", "tables", mod.path, "tick step / method tables are not literal lists")
        return
    R.check(len(steps.items) == len(meths.items) and len(steps.items) >= 10, "C16.TABLES", "lengths", mod.path, "%d steps, %d methods" % (len(steps.items), len(meths.items)), "the step table has %d entries but the method table %d: bisecting one indexes the other" % (len(steps.items), len(meths.items)))
    unit_of = {key(cl[u]["obj"]): u for u in cl}
    vals = []
    for i, sv in enumerate(steps.items):
        c = num_const(sv)
        if c is None:
            R.bad("C16.TABLES", "step %d" % i, mod.path, "step %d is not a constant: %s" % (i, show(sv)))
            return
        vals.append(c)
    for i in range(1, len(vals)):
        R.check(vals[i] > vals[i - 1], "C16.TABLES", "steps[%d] > steps[%d]" % (i, i - 1), mod.path, "strictly increasing", "step table not strictly increasing at index %d (%s then %s): bisect assumes a sorted table" % (i, float(vals[i - 1]), float(vals[i])), nontrivial=False)
        ratio = vals[i] / vals[i - 1]
        R.check(ratio <= Fraction(576, 100), "C16.RATIO", "steps[%d]/steps[%d]" % (i, i - 1), mod.path, "ratio %.3g <= 2.4^2" % float(ratio), "adjacent tick steps %s and %s differ by a factor %.3g > 5.76: some tick counts leave [m/2.4 - 1, 2.4m + 1]" % (float(vals[i - 1]), float(vals[i]), float(ratio)))
    for i, mv in enumerate(meths.items[: len(vals)]):
        if not isinstance(mv, Seq) or len(mv.items) != 2:
            R.bad("C16.TABLES", "method %d" % i, mod.path, "method %d is not an [interval, count] pair" % i)
            continue
        u = unit_of.get(key(mv.items[0]))
        cnt = num_const(mv.items[1])
        if u is None or cnt is None:
            R.bad("C16.TABLES", "method %d" % i, mod.path, "method %d is %s: not a registry interval with a constant count" % (i, show(mv)))
            continue
        eff = max(cnt, 1)
        want = Fraction(UNIT_NOMINAL[u]) * eff
        rel = abs(vals[i] - want) / want
        R.check(rel <= Fraction(1, 100) and cnt >= 0, "C16.TABLES", "entry %d: %s x %s" % (i, cnt, u), mod.path, "steps[%d] = %s ms matches %s x %s" % (i, float(vals[i]), cnt, u), "table entry %d pairs a step of %s ms with %s x %s (= %s ms): the spacing chosen by duration and the interval used to enumerate disagree" % (i, float(vals[i]), cnt, u, float(want)))
    # the checker's unit table agrees with the epoch-form floors (C17.UNITTABLE constants)
    for u, U in UNIT_MS.items():
        R.check(UNIT_NOMINAL[u] == U, "C16.TABLES", "unit table %s" % u, "", "", "checker tables disagree", nontrivial=False)


@rule("C16.CHOICE")
def choice(ctx, R):
    P = ctx.P
    f = P.func(TS + ".tickMethod")
    R.saw(f)
    steps = new_eval(P).resolve_global("scale", "d3_time_scaleSteps")
    n = len(steps.items) if isinstance(steps, Seq) else 0
    for case in ("above", "below", "inside"):
        log = []

        def hook(fv, args, kwargs, node, st_):
            if (isinstance(fv, Closure) and fv.func.qual == "scale.d3_bisect") or (isinstance(fv, Ext) and fv.name in ("bisect.bisect_right", "bisect.bisect") and len(args) == 2 and not kwargs):
                # the library's own bisect-right (checked below) or the standard library's, which is bisect-right by definition
                log.append(("bisect", [key(a) for a in args]))
                return Num.atom("I")
            if isinstance(fv, Closure) and fv.func.qual == "scale.d3_scale_linearTickRange":
                log.append(("ltr", [key(a) for a in args]))
                return Seq("list", [Opaque("lo"), Opaque("hi"), Opaque("LSTEP")])
            return None

        ev = new_eval(P, on_call=hook)
        I = Num.atom("I")
        if case == "above":
            ev.assume_order(I, C(n), "eq")
        elif case == "below":
            ev.assume_order(I, C(n), "lt")
            ev.assume_order(I, C(0), "eq")
            ev.assume("truth(I)", False)
        else:
            ev.assume_order(I, C(n), "lt")
            ev.assume_order(I, C(0), "gt")
            ev.assume("truth(I)", True)
        st = ev.new_state(f)
        s = Opaque("self", cls=P.cls(TS), kind="obj")
        st.heap[("self", "_methods")] = Opaque("METHODS", kind="seq")
        ext = Seq("list", [Num.atom("E0"), Num.atom("E1")])
        r = ev.call_closure(Closure(f, None, selfv=s), [ext, Num.atom("COUNT")], {}, st)
        bis = [l for l in log if l[0] == "bisect"]
        target = "(-E0 + E1)/(COUNT)"
        okb = len(bis) == 1 and bis[0][1][1] == target and bis[0][1][0] == key(steps)
        R.check(okb, "C16.CHOICE", "%s|bisect" % case, where(f), "i = bisect(steps, span/count)", "tickMethod bisects %s" % (bis[0][1] if bis else None))
        if case == "above":
            ltr = [l for l in log if l[0] == "ltr"]
            ok = isinstance(r, Seq) and len(r.items) == 2 and key(r.items[0]) in ("METHODS[-1][0]",) and key(r.items[1]) == "LSTEP" and ltr and ltr[0][1][1] == "COUNT"
            if ok:
                yr = Fraction(31536 * 10**6)
                ok = ltr[0][1][0] in ("[1/%d*E0, 1/%d*E1]" % (yr, yr),)
            R.check(ok, "C16.CHOICE", "above the table", where(f), "beyond the largest step: years with the linear 1-2-5 step of the extent in years", "above the table tickMethod returns %s (linear range of %s)" % (show(r), ltr[0][1] if ltr else None))
        elif case == "below":
            ltr = [l for l in log if l[0] == "ltr"]
            ms = new_eval(P).resolve_global("scale", "d3_time_scaleMilliseconds")
            ok = isinstance(r, Seq) and len(r.items) == 2 and key(r.items[1]) == "LSTEP" and ltr and ltr[0][1] == ["[E0, E1]", "COUNT"]
            ok = ok and isinstance(r.items[0], Opaque) and r.items[0].cls is not None and r.items[0].cls is P.cls("scale.d3TimeScaleMilliseconds")
            R.check(ok, "C16.CHOICE", "below the table", where(f), "below one second: the millisecond interval with the linear 1-2-5 step", "below the table tickMethod returns %s (linear range of %s)" % (show(r), ltr[0][1] if ltr else None))
        else:
            st2 = ev.new_state(module="scale")
            st2.env.vars.update({"T": Num.atom("E1") - Num.atom("E0"), "COUNT": Num.atom("COUNT"), "I": I, "METHODS": Opaque("METHODS", kind="seq")})
            want = pexpr(ev, st2, "METHODS[I - 1] if (T / COUNT) / d3_time_scaleSteps[I - 1] < d3_time_scaleSteps[I] / (T / COUNT) else METHODS[I]")
            R.check(key(r) == key(want), "C16.CHOICE", "inside the table", where(f), "the geometrically nearer neighbouring step is chosen", "inside the table tickMethod returns %s, expected %s (ratio test target/steps[i-1] < steps[i]/target)" % (show(r, 260), show(want, 260)))
    # d3_bisect is bisect-right on an ascending list
    g = P.func("scale.d3_bisect")
    R.saw(g)
    ws = [n_ for n_ in g.node.body if isinstance(n_, ast.While)]
    ok = False
    detail = "no single while loop"
    if len(ws) == 1:
        w = ws[0]
        ev = new_eval(P)
        st = ev.new_state(g, {g.params[0]: Opaque("a", kind="seq"), g.params[1]: Num.atom("x")})
        lo_p, hi_p = g.params[2], g.params[3]
        st.env.vars[lo_p] = C(0)
        st.env.vars[hi_p] = NONE
        ev.block(g.node.body[: g.node.body.index(w)], st, [])
        init_ok = num_const(st.env.lookup(lo_p)) == 0 and key(st.env.lookup(hi_p)) == "len(a)"
        c = ev.cond(w.test, st)
        st.env.vars[lo_p] = Num.atom("LO")
        st.env.vars[hi_p] = Num.atom("HI")
        c = ev.cond(w.test, st)
        ev.block(w.body, st, [])
        lo2, hi2 = st.env.lookup(lo_p), st.env.lookup(hi_p)
        mids = [v for k_, v in st.env.vars.items() if k_ not in (lo_p, hi_p, g.params[0], g.params[1])]
        mid = key(mids[0]) if mids else "?"
        midok = mid in ("rshift(bitand(HI + LO, 4294967295), 1)", "floordiv(HI + LO, 2)")
        cond = "cmp(lt, x, a[%s])" % mid
        ok = init_ok and key(c) == "cmp(lt, LO, HI)" and midok and key(hi2) == "phi(%s, %s, HI)" % (cond, mid) and key(lo2) == "phi(%s, LO, 1 + %s)" % (cond, mid)
        rets = [n_ for n_ in g.node.body if isinstance(n_, ast.Return)]
        ok = ok and len(rets) == 1 and ntext(rets[0].value) == lo_p
        detail = "init=%s test=%s mid=%s hi'=%s lo'=%s" % (init_ok, key(c), mid, show(hi2, 80), show(lo2, 80))
    R.check(ok, "C16.CHOICE", g.qual, where(g), "bisect-right: first index whose step exceeds the target", "d3_bisect is not bisect-right over [0, len(a)) (%s)" % detail)


@rule("C16.SUBMS")
def subms(ctx, R):
    P = ctx.P
    f = P.func(TS + ".ticks")
    R.saw(f)
    tlog = []

    def hook(fv, args, kwargs, node, st_):
        if isinstance(fv, Closure) and fv.func.qual == TS + ".tickMethod":
            tlog.append([key(a) for a in args])
            return Seq("list", [Opaque("INTERVAL", kind="obj"), Num.atom("SKIP")])
        if isinstance(fv, Closure) and fv.func.qual == TS + ".domain" and not args:
            return Seq("list", [Opaque("D0"), Opaque("D1")])
        return None

    for order in ("lt", "gt"):
        ev = new_eval(P, on_call=hook, opaque=["scale.dt2milli", "scale.milli2dt"])
        ev.assume_order(Opaque("D0"), Opaque("D1"), order)
        st = ev.new_state(f)
        s = Opaque("self", cls=P.cls(TS), kind="obj")
        r = ev.call_closure(Closure(f, None, selfv=s), [Num.atom("M")], {}, st)
        lo, hi = ("D0", "D1") if order == "lt" else ("D1", "D0")
        a = "scale.milli2dt(scale.dt2milli(%s))" % lo
        b = "scale.milli2dt(1 + scale.dt2milli(%s))" % hi
        forms = {
            "phi(cmp(lt, SKIP, 1), INTERVAL.range(%s, %s, 1), INTERVAL.range(%s, %s, SKIP))" % (a, b, a, b),
            "phi(cmp(le, 1, SKIP), INTERVAL.range(%s, %s, SKIP), INTERVAL.range(%s, %s, 1))" % (a, b, a, b),
            "INTERVAL.range(%s, %s, max(1, SKIP))" % (a, b),
            "INTERVAL.range(%s, %s, phi(cmp(lt, SKIP, 1), 1, SKIP))" % (a, b),
        }
        R.check(key(r) in forms, "C16.SUBMS", "ticks D0 %s D1" % order, where(f), "ticks = interval.range(lo, hi + 1ms, 1 if step < 1 else step)", "ticks() is %s: expected interval.range(milli2dt(lo), milli2dt(hi + 1), 1 if step < 1 else step) over the ascending extent (a fractional sub-millisecond step must become 1)" % show(r, 300))
    ok = tlog and tlog[0] == ["[scale.dt2milli(D0), scale.dt2milli(D1)]", "M"]
    R.check(ok, "C16.ARGSHAPE", "ticks -> tickMethod", where(f), "tickMethod(extent in ms, count)", "ticks(m) calls tickMethod with %s: expected (ascending extent in ms, m)" % (tlog[0] if tlog else None))
    # default count
    tlog.clear()
    ev = new_eval(P, on_call=hook, opaque=["scale.dt2milli", "scale.milli2dt"])
    ev.assume_order(Opaque("D0"), Opaque("D1"), "lt")
    st = ev.new_state(f)
    s = Opaque("self", cls=P.cls(TS), kind="obj")
    ev.call_closure(Closure(f, None, selfv=s), [NONE], {}, st)
    R.check(tlog and tlog[0][1] == "10", "C16.ARGSHAPE", "ticks default count", where(f), "default count 10", "ticks() default count is %s" % (tlog[0][1] if tlog else None))


INT_FUNCS = {"int", "len", "round", "ord", "math.floor", "math.ceil", "math.trunc", "floor", "ceil"}


class Kinds:
    """int / float / unknown for expressions (flow-insensitive, all definitions of a local must agree)."""

    def __init__(self, ctx):
        self.ctx = ctx
        self.P = ctx.P
        self.memo = {}

    def of(self, e, f, depth=0):
        if depth > 6:
            return "unknown"
        if isinstance(e, ast.Constant):
            if isinstance(e.value, bool):
                return "int"
            if isinstance(e.value, int):
                return "int"
            if isinstance(e.value, float):
                return "float"
            return "unknown"
        if isinstance(e, ast.UnaryOp) and isinstance(e.op, (ast.USub, ast.UAdd)):
            return self.of(e.operand, f, depth)
        if isinstance(e, ast.BinOp):
            a, b = self.of(e.left, f, depth), self.of(e.right, f, depth)
            if isinstance(e.op, ast.Div):
                return "float"
            if isinstance(e.op, (ast.Add, ast.Sub, ast.Mult, ast.FloorDiv, ast.Mod)):
                if a == "int" and b == "int":
                    return "int"
                if "float" in (a, b):
                    return "float"
                return "unknown"
            if isinstance(e.op, ast.Pow):
                if a == "int" and isinstance(e.right, ast.Constant) and isinstance(e.right.value, int) and e.right.value >= 0:
                    return "int"
                return "unknown"
            if isinstance(e.op, (ast.BitAnd, ast.BitOr, ast.RShift, ast.LShift, ast.BitXor)):
                return "int" if a == "int" and b == "int" else "unknown"
            return "unknown"
        if isinstance(e, ast.Call):
            fn = ntext(e.func)
            if fn in INT_FUNCS and not (fn == "round" and len(e.args) > 1):
                return "int"
            if fn == "float":
                return "float"
            if fn in ("max", "min") and e.args:
                ks = {self.of(a, f, depth) for a in e.args}
                return ks.pop() if len(ks) == 1 else ("float" if "float" in ks else "unknown")
            if fn in ("pow", "math.pow"):
                return "float" if fn == "math.pow" else "unknown"
            # package function: join of its returns
            res = self.ctx.types.resolve(e)
            if res:
                ks = set()
                for g, _ in res:
                    ks.add(self.ret_kind(g, depth + 1))
                return ks.pop() if len(ks) == 1 else "unknown"
            return "unknown"
        if isinstance(e, ast.IfExp):
            ks = {self.of(e.body, f, depth), self.of(e.orelse, f, depth)}
            return ks.pop() if len(ks) == 1 else ("float" if "float" in ks else "unknown")
        if isinstance(e, ast.Name) and f is not None:
            defs = []
            if e.id in f.params:
                # a parameter that is re-bound before this use (straight-line prelude) takes the kind of that binding
                pre = [n for n in f.node.body if isinstance(n, ast.Assign) and any(isinstance(t, ast.Name) and t.id == e.id for t in n.targets) and n.lineno < getattr(e, "lineno", 0)]
                others = [n for n in walk_local(f.node) if isinstance(n, (ast.Assign, ast.AugAssign)) and n not in pre and any(isinstance(t, ast.Name) and t.id == e.id for t in (n.targets if isinstance(n, ast.Assign) else [n.target]))]
                if len(pre) == 1 and not others:
                    v = pre[0].value
                    # `step = int(step)`: the right-hand side may mention the parameter itself
                    if isinstance(v, ast.Call) and ntext(v.func) in INT_FUNCS:
                        return "int"
                    return self.of(v, f, depth + 1) if not any(isinstance(x, ast.Name) and x.id == e.id for x in ast.walk(v)) else "unknown"
                return "unknown"
            for n in walk_local(f.node):
                if isinstance(n, ast.Assign) and any(isinstance(t, ast.Name) and t.id == e.id for t in n.targets):
                    defs.append(("expr", n.value))
                elif isinstance(n, ast.AugAssign) and isinstance(n.target, ast.Name) and n.target.id == e.id:
                    defs.append(("expr", n.value))
                elif isinstance(n, (ast.For, ast.comprehension)):
                    tg = n.target
                    if isinstance(tg, ast.Name) and tg.id == e.id:
                        defs.append(("iter", n.iter))
                    elif isinstance(tg, ast.Tuple) and tg.elts and isinstance(tg.elts[0], ast.Name) and tg.elts[0].id == e.id and isinstance(n.iter, ast.Call) and ntext(n.iter.func) == "enumerate":
                        defs.append(("int", None))
            if not defs:
                return "unknown"
            ks = set()
            for kind, v in defs:
                if kind == "int":
                    ks.add("int")
                elif kind == "iter":
                    ks.add("int" if isinstance(v, ast.Call) and ntext(v.func) == "range" else "unknown")
                else:
                    ks.add(self.of(v, f, depth + 1))
            return ks.pop() if len(ks) == 1 else ("float" if "float" in ks else "unknown")
        return "unknown"

    def ret_kind(self, g, depth):
        if g.qual in self.memo:
            return self.memo[g.qual]
        self.memo[g.qual] = "unknown"
        ks = set()
        if g.is_lambda:
            ks.add(self.of(g.node.body, g, depth))
        else:
            for n in walk_local(g.node):
                if isinstance(n, ast.Return) and n.value is not None:
                    ks.add(self.of(n.value, g, depth))
        k = ks.pop() if len(ks) == 1 else ("float" if "float" in ks else "unknown")
        self.memo[g.qual] = k
        return k


@rule("C16.RANGEINT")
def rangeint(ctx, R):
    P = ctx.P
    K = Kinds(ctx)
    n = 0
    for f in P.funcs.values():
        for c in calls_in(f.node):
            if isinstance(c.func, ast.Name) and c.func.id == "range" and "range" not in ctx.types.locals.get(f.qual, ()) and not ctx.types.resolve(c):
                for i, a in enumerate(c.args):
                    n += 1
                    k = K.of(a, f)
                    strict = f.module.name in ("scale", "d3_time")
                    if k == "int":
                        R.ok("C16.RANGEINT", "%s|range arg %d `%s`" % (f.qual, i, ntext(a)[:40]), where(f, c), "provably int")
                    elif k == "float" or strict:
                        R.bad("C16.RANGEINT", "%s|range arg %d `%s`" % (f.qual, i, ntext(a)[:40]), where(f, c), "argument `%s` of range() is %s: range() raises TypeError for a float (a linear tick step of 1.0 reaches here for 7-9 ms domains)" % (ntext(a)[:60], "a float" if k == "float" else "not provably an int"))
                    else:
                        R.ok("C16.RANGEINT", "%s|range arg %d `%s`" % (f.qual, i, ntext(a)[:40]), where(f, c), "not classified (outside the tick modules)", nontrivial=False)
    R.check(n >= 10, "C16.RANGEINT.inventory", "range() arguments examined: %d" % n, "", "", "too few range() calls found", nontrivial=False)
    # the millisecond interval's range: aligned start, exclusive stop, same integer step
    f = P.func("scale.d3TimeScaleMilliseconds.range")
    R.saw(f)
    ev = new_eval(P, opaque=["scale.dt2milli", "scale.milli2dt"])
    st = ev.new_state(f)
    s = Opaque("self", kind="obj")
    r = ev.call_closure(Closure(f, None, selfv=s), [Opaque("A"), Opaque("B"), Num.atom("S")], {}, st)
    ok = False
    src = r
    if isinstance(r, Opaque) and r.text.startswith("list("):
        pass
    m = None
    for e_ in st.events:
        pass
    # result is list(map(milli2dt, range(...))) -> MapV over RangeV
    mv = r if isinstance(r, MapV) else None
    if mv is not None and isinstance(mv.it, RangeV) and len(mv.it.args) == 3:
        a0, a1, a2 = (as_num(x) for x in mv.it.args)
        si = Num.atom(("int", "S"))
        ms_a = Num.atom(("int", "scale.dt2milli(A)"))
        ms_b = Num.atom(("int", "scale.dt2milli(B)"))
        ok = a2 is not None and a2.equals(si) and a0 is not None and a0.equals(Num.atom(("ceil", (ms_a / si).key())) * si) and a1 is not None and a1.equals(ms_b) and key(mv.body).startswith("scale.milli2dt(")
    R.check(ok, "C16.RANGEINT", f.qual + "|millisecond range", where(f), "ms ticks: range(ceil(ms(start)/s)*s, ms(stop), s) with s = int(step), mapped back with milli2dt", "the millisecond interval's range is %s" % show(r, 300))
    for meth in ("floor", "ceil"):
        g = P.func("scale.d3TimeScaleMilliseconds." + meth)
        r = ev.call_closure(Closure(g, None, selfv=s), [Opaque("A")], {}, st)
        R.check(key(r) == "A", "C16.RANGEINT", g.qual, where(g), "millisecond %s is the identity" % meth, "millisecond %s(x) is %s" % (meth, show(r)), nontrivial=False)


@rule("C16.NORAISE")
def noraise(ctx, R):
    P = ctx.P
    cg = ctx.cg
    reach = cg.reachable([TS + ".ticks", TS + ".tickFormat", TS + ".nice"])
    for f in list(P.funcs.values()):
        t = f
        while t.parent is not None:
            t = t.parent
        if t.qual in reach:
            reach.add(f.qual)
    R.note("functions on the ticks/nice call graph: %d" % len(reach))
    n = 0
    for q in sorted(reach):
        f = P.funcs.get(q)
        if f is None:
            continue
        R.saw(f)
        for nd in walk_local(f.node):
            if isinstance(nd, ast.Raise):
                R.bad("C16.NORAISE", "%s|raise" % q, where(f, nd), "`%s` on the ticks call graph" % ntext(nd)[:60])
            if isinstance(nd, ast.Assert):
                R.bad("C16.NORAISE", "%s|assert" % q, where(f, nd), "`%s` on the ticks call graph" % ntext(nd)[:60])
            n += 1
    R.ok("C16.NORAISE", "no raise/assert on the ticks call graph (%d functions)" % len(reach), "", "", nontrivial=True)
    from .c11 import divzero_sites
    divzero_sites(ctx, R, "C16.NORAISE", reach)


@rule("C16.STATE")
def state_rule(ctx, R):
    statepack.no_hidden_state(ctx, R, "C16.STATE", modules=["scale", "d3_time"], classes={
        "scale.TimeScale": {"_linear", "_methods", "_format"},
        "d3_time.d3_time_interval": {"_local", "_step", "_number"},
        "scale.d3TimeScaleMilliseconds": set(),
    })


RULES = [tables, choice, subms, rangeint, unittable, monthstep, ceil_rule, range_rule, calfield, noraise, tzapi_time, state_rule]
