"""QP-SETUP: what removeOverlap hands to the solver and takes back.

removeOverlap is value-numbered once per configuration of the two bounds
(present / absent) with a symbolic non-empty node list and a symbolic caller
options dict.  The adjacent-pairs loop is recognised by its iteration space and
its body evaluated for an arbitrary pair (roles L, R); walls see the first and
last node variable as roles FIRST, LAST.  The result is a model consumed by the
rules of C01, C02, C03.
"""
import ast

from .util import *
from ..sym import Cat, RangeV, ZipV, Bound

RO = "removeOverlap.removeOverlap"


class QPModel:
    def __init__(self):
        self.problems = []  # (rule hint, message, node)
        self.target = None
        self.sorts = []  # (order index, seq text, key value text)
        self.var_desired = None
        self.var_weight = None
        self.var_node = None
        self.chain = None  # dict(space=..., left=, right=, gap=, count=)
        self.walls = []  # dict(side=, wall=, left=, right=, gap=, desired=, weight=)
        self.solver_args = None
        self.solve_called = False
        self.writeback = None  # dict(target=, value=, it=)
        self.order = []  # sequence of phases for ordering checks
        self.options_value = None
        self.ret = None
        self.events = []
        self.other_constraints = []


def _isseqval(v):
    return isinstance(v, (MapV, Cat, Seq)) or (isinstance(v, Opaque) and v.kind in ("seq", "copy"))


def analyse(ctx, min_none, max_none, zero=False):
    # zero=True: the bounds that are present have the value 0 (falsy, but a bound all the same)
    P = ctx.P
    f = P.func(RO)
    M = QPModel()
    VAR = P.cls("vpsc.Variable")
    CON = P.cls("vpsc.Constraint")
    NODE = P.cls("node.Node")

    state = {"vars_val": None, "phase": 0}
    roles = {}

    def role(name, cls):
        if name not in roles:
            roles[name] = Opaque(name, cls=cls, kind="obj")
        return roles[name]

    def on_call(fv, args, kwargs, node, st):
        if isinstance(fv, ClassRef) and fv.cls.qual == "vpsc.Solver":
            M.solver_args = (list(args), dict(kwargs), node)
            st.events.append(("mark", "solver", node))
            return Opaque("SOLVER", cls=fv.cls, kind="obj")
        if isinstance(fv, Closure) and fv.func.qual == "vpsc.Solver.solve":
            M.solve_called = True
            st.events.append(("mark", "solve", node))
            return Opaque("COST")
        if isinstance(fv, Closure) and fv.func.qual.startswith("vpsc.Solver."):
            M.problems.append(("C01.SOLVE", "calls %s on the solver" % fv.func.qual, node))
            return Opaque("%s()" % fv.func.qual)
        return None

    def is_vars(base):
        vv = state["vars_val"]
        if vv is None:
            return False
        if base is vv:
            return True
        if isinstance(vv, Cat):
            return False
        return key(base) == key(vv)

    def on_getitem(base, idx, st):
        k = key(idx)
        n_it = None
        if isinstance(base, MapV):
            n_it = "len(%s)" % key(base.it)
        elif isinstance(base, Opaque):
            n_it = "len(%s)" % base.text
        lastkeys = {"-1"} | ({"-1 + %s" % n_it} if n_it else set())
        varseq = isinstance(base, MapV) and getattr(base.body, "cls", None) is VAR
        if varseq and not is_vars(base) and k in ({"0"} | lastkeys):
            if state["vars_val"] is None:
                state.setdefault("pending_ends", []).append(base)
            else:
                # an end of a different sequence than the one the chain orders
                return role(("FIRST" if k == "0" else "LAST") + "-of-" + key(base)[:60], VAR)
        if is_vars(base) or varseq:
            if k == "0":
                return role("FIRST", VAR)
            if k in lastkeys:
                return role("LAST", VAR)
            if k in state.get("idxroles", {}):
                return role(state["idxroles"][k], VAR)
        if isinstance(base, Opaque) and base.text in ("nodes",) or (isinstance(base, Opaque) and base.kind in ("seq", "copy") and base.cls is NODE):
            if k == "0":
                return role("NFIRST", NODE)
            if k in lastkeys:
                return role("NLAST", NODE)
            if k in state.get("idxroles", {}):
                return role("N" + state["idxroles"][k], NODE)
        return None

    def recognise_pairs(s, it, st):
        """Return mapping describing the adjacent-pairs iteration or None."""
        tgt = s.target
        # for i in range(1, len(X))  /  range(len(X) - 1)
        if isinstance(it, RangeV) and isinstance(tgt, ast.Name):
            args = [as_num(a) for a in it.args]
            if any(a is None for a in args):
                return None
            ivar = tgt.id
            seqs = set()
            for n in ast.walk(s):
                if isinstance(n, ast.Subscript) and isinstance(n.value, ast.Name) and ivar in {x.id for x in ast.walk(n.slice) if isinstance(x, ast.Name)}:
                    seqs.add(n.value.id)
            for X in sorted(seqs):
                xv = st.env.lookup(X)
                if xv is None or not _isseqval(xv):
                    continue
                ln = as_num(ev.call_ext("len", [xv], {}, st, None))
                if len(args) == 2 and (len(it.args) == 2) and args[0].is_const() and args[1].equals(ln) and args[0].const_value() == 1:
                    return {"ivar": ivar, "roles": {"i": "R", "-1 + i": "L"}, "space": "range(1, len(%s))" % X, "seq": X, "full": True}
                if len(args) == 2 and args[0].is_const() and args[1].equals(ln) and args[0].const_value() != 1:
                    return {"ivar": ivar, "roles": {"i": "R", "-1 + i": "L"}, "space": "range(%s, len(%s))" % (args[0].const_value(), X), "seq": X, "full": False}
                if len(args) == 1 and args[0].equals(ln - C(1)):
                    return {"ivar": ivar, "roles": {"i": "L", "1 + i": "R"}, "space": "range(len(%s) - 1)" % X, "seq": X, "full": True}
                if len(args) == 2 and args[0].is_const() and args[0].const_value() == 0 and args[1].equals(ln - C(1)):
                    return {"ivar": ivar, "roles": {"i": "L", "1 + i": "R"}, "space": "range(0, len(%s) - 1)" % X, "seq": X, "full": True}
                if len(args) >= 1:
                    return {"ivar": ivar, "roles": {"i": "R", "-1 + i": "L"}, "space": "range(%s) over %s" % (", ".join(a.key() for a in args), X), "seq": X, "full": False}
            return None
        # for a, b in zip(X, X[1:])
        if isinstance(it, ZipV) and len(it.parts) == 2 and isinstance(tgt, (ast.Tuple, ast.List)) and len(tgt.elts) == 2 and all(isinstance(e, ast.Name) for e in tgt.elts):
            a, b = it.parts
            if _isseqval(a) and key(b) == "%s[1:]" % key(a):
                return {"pair": (tgt.elts[0].id, tgt.elts[1].id), "space": "zip(X, X[1:])", "seqval": a, "full": True}
        if isinstance(it, Opaque) and it.text.startswith("itertools.pairwise(") and isinstance(tgt, (ast.Tuple, ast.List)) and len(tgt.elts) == 2:
            return {"pair": (tgt.elts[0].id, tgt.elts[1].id), "space": "pairwise(X)", "seqval": None, "full": True}
        return None

    def on_loop(s, it, st):
        # only loops that create constraints are of interest
        makes_constraint = any(isinstance(n, ast.Call) and ntext(n.func).split(".")[-1] == "Constraint" for n in ast.walk(s))
        if not makes_constraint:
            return False
        rec = recognise_pairs(s, it, st)
        if rec is None:
            M.problems.append(("C01.CHAIN", "the constraint-building loop `for %s in %s` does not range over all adjacent pairs of one sequence" % (ntext(s.target), ntext(s.iter)), s))
            return False
        if "ivar" in rec:
            xv = st.env.lookup(rec["seq"])
            elemcls = getattr(getattr(xv, "body", None), "cls", None) if isinstance(xv, MapV) else getattr(xv, "cls", None)
            if elemcls is NODE:
                # pairs over the node list itself
                state["idxroles"] = rec["roles"]
            else:
                state["vars_val"] = xv
                state["idxroles"] = rec["roles"]
            st.env.assign(rec["ivar"], Opaque("i"))
        else:
            a, b = rec["pair"]
            sv = rec["seqval"]
            elemcls = getattr(getattr(sv, "body", None), "cls", None) if isinstance(sv, MapV) else getattr(sv, "cls", None)
            if elemcls is NODE:
                st.env.assign(a, role("NL", NODE))
                st.env.assign(b, role("NR", NODE))
            else:
                st.env.assign(a, role("L", VAR))
                st.env.assign(b, role("R", VAR))
                if sv is not None:
                    state["vars_val"] = sv
        # role objects: variables carry their node
        for r_, n_ in (("L", "NL"), ("R", "NR")):
            st.heap[(r_, "node")] = role(n_, NODE)
        n0 = len(st.events)
        ev.block(s.body, st, [])
        news = [e for e in st.events[n0:] if e[0] == "new" and e[1] == "vpsc.Constraint"]
        st.events.append(("mark", "chain", s))
        if len(news) != 1:
            M.problems.append(("C01.CHAIN", "one pass of the adjacent-pairs loop creates %d constraints (expected exactly 1)" % len(news), s))
        for e in news:
            name = e[2]
            M.chain = {
                "space": rec["space"], "full": rec["full"], "obj": name, "node": s,
                "left": st.heap.get((name, "left")), "right": st.heap.get((name, "right")), "gap": st.heap.get((name, "gap")),
                "equality": st.heap.get((name, "equality")),
            }
        state.pop("idxroles", None)
        return True

    ev = Evaluator(P, on_call=on_call, inline_filter=lambda fn: not fn.qual.startswith("vpsc.Solver") and not fn.qual.startswith("vpsc.Block") and fn.qual not in ("vpsc.Variable.position", "vpsc.Variable.dfdv"))
    ev.on_getitem = on_getitem
    ev.on_loop = on_loop
    ev.nonempty.add("nodes")
    ev.assume("cmp(eq, len(nodes), 0)", False)
    ev.assume("cmp(le, len(nodes), 0)", False)
    ev.assume("cmp(lt, len(nodes), 1)", False)
    ev.assume("truth(len(nodes))", True)
    nodes = Opaque("nodes", cls=NODE, kind="seq")
    options = Opaque("options", kind="obj")
    # bounds present / absent
    dflt = ev.resolve_global("removeOverlap", "DEFAULT_OPTIONS")
    for kname, isnone in (("minPos", min_none), ("maxPos", max_none)):
        dv = dflt.items.get(kname) if isinstance(dflt, DictV) else None
        for form in (
            "override(options[%r], %s)" % (kname, key(dv) if dv is not None else "None"),
            "options[%r]" % kname,
        ):
            ev.assume("cmp(is, %s, None)" % form, isnone)
            ev.assume("cmp(eq, %s, None)" % form, isnone)
            ev.assume("truth(%s)" % form, not isnone and not zero)  # `if options["minPos"]:` would be a defect (0 is a bound): see C03.WALLS
            if zero and not isnone:
                ev.assume("cmp(eq, %s, 0)" % form, True)
                ev.assume("cmp(ne, %s, 0)" % form, False)
    st = ev.new_state(f, {f.params[0]: nodes, f.params[1]: options} if len(f.params) >= 2 else {})
    r = ev.block(f.node.body, st, [])
    M.ret = r.value if r is not None else NONE
    for b in state.get("pending_ends", []):
        if state["vars_val"] is not None and not is_vars(b):
            M.problems.append(("C03.WALLS", "a wall is anchored on an end of %s but the chain orders %s" % (key(b)[:60], key(state["vars_val"])[:60]), f.node))
    M.events = st.events
    M.state = st
    M.ev = ev
    M.roles = roles
    # collect facts from events / heap -------------------------------------------------
    el = "elem(nodes)"
    M.target = st.heap.get((el, "targetPos"))
    for i, e in enumerate(_flat_events(st.events)):
        if e[0] in ("seq-sort", "sorted"):
            seq = e[1] if e[0] == "seq-sort" else key(e[1])
            kw = e[3] if e[0] == "seq-sort" else e[2]
            kf = kw.get("key")
            rev = kw.get("reverse")
            keytext = None
            if isinstance(kf, Closure):
                keytext = key(ev.call(kf, [Opaque("k", cls=NODE, kind="obj")], {}, State(Env({}, ev.module_env("removeOverlap"), "removeOverlap", None))))
            elif kf is not None:
                keytext = key(kf)
            M.sorts.append({"seq": seq, "key": keytext, "reverse": key(rev) if rev is not None else None, "node": e[-1]})
        if e[0] == "new" and e[1] == "vpsc.Variable":
            pass
    # node variables: the MapV body or generic variable created per node
    for e in _flat_events(st.events):
        if e[0] == "new" and e[1] == "vpsc.Variable":
            name = e[2]
            nd = st.heap.get((name, "node"))
            if nd is not None and key(nd) == el:
                M.var_desired = st.heap.get((name, "desiredPosition"))
                M.var_weight = st.heap.get((name, "weight"))
                M.var_scale = st.heap.get((name, "scale"))
                M.var_node = nd
                M.var_obj = name
    # walls: constraints other than the chain
    for e in _flat_events(st.events):
        if e[0] == "new" and e[1] == "vpsc.Constraint":
            name = e[2]
            if M.chain is not None and name == M.chain["obj"]:
                continue
            left, right, gap = st.heap.get((name, "left")), st.heap.get((name, "right")), st.heap.get((name, "gap"))
            rec = {"obj": name, "left": left, "right": right, "gap": gap, "node": e[-1], "equality": st.heap.get((name, "equality"))}
            for side, w in (("left", left), ("right", right)):
                if isinstance(w, Opaque) and w.kind == "new" and w.cls is VAR and st.heap.get((w.text, "node")) is not None and key(st.heap.get((w.text, "node"))) == "None":
                    rec["wall_side"] = side
                    rec["desired"] = st.heap.get((w.text, "desiredPosition"))
                    rec["weight"] = st.heap.get((w.text, "weight"))
                    rec["wall"] = w
            if "wall_side" in rec:
                M.walls.append(rec)
            else:
                M.other_constraints.append(rec)
    # write-back: loops after solve that set currentPos
    for e in st.events:
        if e[0] == "loop":
            for b in _flat_events(e[3]):
                if b[0] == "setattr" and b[2] == "currentPos":
                    M.writeback = {"target": b[1], "value": b[3], "it": e[1], "el": e[2], "node": e[4], "cond": None}
        if e[0] == "setattr" and e[2] == "currentPos":
            M.problems.append(("C01.WRITEBACK", "currentPos of %s written outside a loop over the solved variables" % e[1], e[-1]))
    M.final_vars = st.env.lookup("variables")
    # program order of the phases
    for e in _flat_events(st.events):
        if e[0] == "mark":
            M.order.append((e[1], e[2]))
        elif e[0] in ("seq-sort", "sorted"):
            M.order.append(("sort", e[-1]))
        elif e[0] == "new" and e[1] == "vpsc.Variable" and getattr(M, "var_obj", None) == e[2]:
            M.order.append(("vars", e[-1]))
        elif e[0] == "setattr" and e[2] == "targetPos":
            M.order.append(("target", e[-1]))
        elif e[0] == "setattr" and e[2] == "currentPos":
            M.order.append(("writeback", e[-1]))
        elif e[0] == "new" and e[1] == "vpsc.Constraint" and any(w["obj"] == e[2] for w in M.walls):
            M.order.append(("wall", e[-1]))
    return M


def _flat_events(evs):
    for e in evs:
        if e[0] == "in-branch":
            yield from _flat_events([e[3]])
        elif e[0] == "loop":
            yield e
            yield from _flat_events(e[3])
        elif e[0] == "while":
            yield e
            yield from _flat_events(e[2])
        else:
            yield e


def _uncond_events(evs):
    """Like _flat_events but without descending into conditional branches."""
    for e in evs:
        if e[0] == "in-branch":
            continue
        elif e[0] == "loop":
            yield e
            yield from _uncond_events(e[3])
        else:
            yield e


def models(ctx):
    def build():
        out = {}
        for mn in (False, True):
            for mx in (False, True):
                out[(mn, mx)] = analyse(ctx, mn, mx)
        return out

    return ctx.get("qpmodels", build)


def zero_model(ctx):
    """Both bounds present and equal to 0."""
    return ctx.get("qpmodel-zero", lambda: analyse(ctx, False, False, zero=True))


# ---------------------------------------------------------------------------
# Force.compute / Force.set_options
# ---------------------------------------------------------------------------

class ForceModel:
    pass


def force_model(ctx):
    return ctx.get("forcemodel", lambda: _force_model(ctx))


def _force_model(ctx):
    P = ctx.P
    F = ForceModel()
    f = P.func("force.Force.compute")
    FORCE = P.cls("force.Force")
    NODE = P.cls("node.Node")
    dflt = None
    calls = []

    def on_call(fv, args, kwargs, node, st):
        if isinstance(fv, Closure) and fv.func.qual == RO:
            calls.append(("removeOverlap", list(args), dict(kwargs), node))
            st.events.append(("mark", "removeOverlap", node, list(args)))
            return args[0] if args else NONE
        if isinstance(fv, Closure) and fv.func.qual == "distributor.Distributor.distribute":
            calls.append(("distribute", list(args), dict(kwargs), node))
            st.events.append(("mark", "distribute", node, list(args)))
            return Opaque("LAYERS", cls=NODE, kind="seq")
        return None

    ev = Evaluator(P, on_call=on_call)
    fd = ev.resolve_global("force", "DEFAULT_OPTIONS")
    rd = ev.resolve_global("removeOverlap", "DEFAULT_OPTIONS")
    F.force_defaults = fd
    F.ro_defaults = rd
    keys = set(fd.items) if isinstance(fd, DictV) else set()
    keys |= set(rd.items) if isinstance(rd, DictV) else set()
    keys |= {"someOtherOption"}
    opts = DictV({k: Opaque("opt:%s" % k) for k in sorted(keys)}, ident="P:self.options")
    st = ev.new_state(f)
    s = Opaque("self", cls=FORCE, kind="obj")
    st.heap[("self", "options")] = opts
    st.heap[("self", "_nodes")] = Opaque("self._nodes", cls=NODE, kind="seq")
    st.heap[("self", "distributor")] = Opaque("self.distributor", cls=P.cls("distributor.Distributor"), kind="obj")
    st.heap[("self", "layers")] = Opaque("STALE-LAYERS")
    ev.nonempty.add("self._nodes")
    r = ev.call_closure(Closure(f, None, selfv=s), [], {}, st)
    F.ev, F.st, F.calls, F.ret, F.opts = ev, st, calls, r, opts
    F.func = f
    return F
