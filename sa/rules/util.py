"""Helpers shared by the rule modules."""
import ast

from ..core import acopy, ntext, walk_local, AnchorMissing, Undecided, FUNC_NODES
from ..sym import (
    Evaluator, Opaque, Seq, DictV, Const, Closure, Phi, Cond, Template, key, ckey, as_num, num_const,
    State, Env, NONE, TRUE, FALSE, MapV, ClassRef, Ext, StrSym, OverrideV, EnumV, JoinV,
)
from ..poly import Num, C, A


def rule(rule_id):
    def deco(fn):
        fn.rule_id = rule_id
        return fn

    return deco


def where(f, node=None):
    ln = getattr(node, "lineno", None) if node is not None else None
    if ln is None:
        ln = f.node.lineno
    return "%s:%s (%s)" % (f.module.path, ln, f.qual)


def mwhere(mod, node):
    return "%s:%s" % (mod.path, getattr(node, "lineno", "?"))


def leaves(v, path=()):
    """Yield (path, leaf) of a Phi tree; path = tuple of (Cond, taken)."""
    if isinstance(v, Phi):
        yield from leaves(v.a, path + ((v.cond, True),))
        yield from leaves(v.b, path + ((v.cond, False),))
    else:
        yield path, v


def pexpr(ev, st, src):
    """Evaluate an expected expression (Python source) in state st."""
    return ev.expr(ast.parse(src, mode="eval").body, st)


def same(a, b):
    if isinstance(a, Num) and isinstance(b, Num):
        return a.equals(b)
    na, nb = as_num(a), as_num(b)
    if isinstance(a, (Num,)) or isinstance(b, (Num,)):
        if na is not None and nb is not None:
            return na.equals(nb)
    return key(a) == key(b)


def calls_in(node, local=True):
    it = walk_local(node) if local else ast.walk(node)
    return [n for n in it if isinstance(n, ast.Call)]


def call_name(c):
    """Dotted textual name of the callee expression."""
    return ntext(c.func)


def is_self_attr(n, attr=None, selfname="self"):
    return isinstance(n, ast.Attribute) and isinstance(n.value, ast.Name) and n.value.id == selfname and (attr is None or n.attr == attr)


def const_value(n):
    """Numeric/str value of a constant expression AST (handles unary minus), else None."""
    if isinstance(n, ast.Constant):
        return n.value
    if isinstance(n, ast.UnaryOp) and isinstance(n.op, ast.USub) and isinstance(n.operand, ast.Constant) and isinstance(n.operand.value, (int, float)):
        return -n.operand.value
    return None


def stmts_of(f):
    return list(f.node.body) if not f.is_lambda else []


def show(v, limit=300):
    s = key(v)
    return s if len(s) <= limit else s[: limit - 3] + "..."


def obj(name, P=None, cls=None):
    c = P.cls(cls) if (P is not None and cls is not None) else None
    return Opaque(name, cls=c, kind="obj")


def new_eval(P, **kw):
    """Evaluator; `opaque=[quals]` keeps those functions un-inlined and names their applications by the given qualnames
    wherever they are defined today (`scale.dt2milli` may live in d3_time.py and be imported)."""
    opaque = kw.pop("opaque", None)
    if opaque:
        resolved = {}
        for q in opaque:
            try:
                resolved[P.func(q).qual] = q
            except AnchorMissing:
                pass
        user = kw.get("inline_filter")
        kw["inline_filter"] = (lambda fn, _r=resolved, _u=user: fn.qual not in _r and (_u is None or _u(fn)))
        ev = Evaluator(P, **kw)
        ev.qual_alias.update(resolved)
        return ev
    return Evaluator(P, **kw)


def ext_name(e, mod, f=None, types=None):
    """Dotted external name of an expression such as `datetime.datetime.fromtimestamp`
    (resolving import aliases of module `mod`), or None."""
    parts = []
    n = e
    while isinstance(n, ast.Attribute):
        parts.append(n.attr)
        n = n.value
    if not isinstance(n, ast.Name):
        return None
    # a local variable shadows the import
    if f is not None and types is not None and n.id in types.locals.get(f.qual, ()):
        return None
    imp = mod.imports.get(n.id)
    if imp is None:
        return None
    if imp[0] == "module":
        base = imp[1]
    else:
        base = imp[1] + "." + imp[2]
    return ".".join([base] + list(reversed(parts)))


def lift(v, limit=64):
    """Lift Phi nodes out of sequences: [Phi(c,a,b), x] -> Phi(c, [a,x], [b,x])."""
    if isinstance(v, Phi):
        return Phi(v.cond, lift(v.a, limit), lift(v.b, limit))
    if isinstance(v, Seq):
        for i, x in enumerate(v.items):
            if isinstance(x, Phi):
                ck_ = key(x.cond)
                ia = [y.a if isinstance(y, Phi) and key(y.cond) == ck_ else y for y in v.items]
                ib = [y.b if isinstance(y, Phi) and key(y.cond) == ck_ else y for y in v.items]
                return Phi(x.cond, lift(Seq(v.kind, ia), limit), lift(Seq(v.kind, ib), limit))
    return v


def _alias_like(v):
    if isinstance(v, (ast.Name, ast.Attribute, ast.Subscript, ast.Compare)):
        return True
    if isinstance(v, ast.Call) and ntext(v.func) in ("int", "len", "float", "abs") and len(v.args) == 1:
        return True
    if isinstance(v, ast.Call) and isinstance(v.func, ast.Attribute) and not v.args and not v.keywords:
        return True  # zero-argument accessor such as self.maxWidthPerLayer()
    return False


def resolve_local(f, e, depth=0):
    """Text of expression e with local names that have exactly one assignment in f replaced by
    their defining expression (recursively, small depth): makes table look-ups robust against
    hoisting a sub-expression into a local."""
    import copy

    if depth > 3 or f is None or f.is_lambda:
        return ntext(e)
    if not any(isinstance(x, ast.Name) for x in ast.walk(e)):
        return ntext(e)
    memo = _RL_DEFS.get(id(f.node))
    if memo is not None and memo[0] is f.node:
        defs = memo[1]
    else:
        defs = _local_defs(f)
        if len(_RL_DEFS) > 4000:
            _RL_DEFS.clear()
        _RL_DEFS[id(f.node)] = (f.node, defs)
    return _resolve_with(f, e, defs, depth)


_RL_DEFS = {}


def _local_defs(f):
    import copy

    defs = {}
    for n in walk_local(f.node):
        if isinstance(n, ast.Assign) and len(n.targets) == 1 and isinstance(n.targets[0], ast.Name):
            defs.setdefault(n.targets[0].id, []).append(n.value)
        elif isinstance(n, (ast.AugAssign, ast.For, ast.comprehension, ast.NamedExpr, ast.With)):
            for t in ast.walk(n.target if hasattr(n, "target") else n):
                if isinstance(t, ast.Name) and isinstance(getattr(t, "ctx", None), ast.Store):
                    defs.setdefault(t.id, []).append(None)
        elif isinstance(n, ast.Assign) and len(n.targets) == 1 and isinstance(n.targets[0], (ast.Tuple, ast.List)) and all(isinstance(x, ast.Name) for x in n.targets[0].elts) and isinstance(n.value, (ast.Name, ast.Tuple, ast.List)):
            # a, b = pair  ->  a is pair[0], b is pair[1];   a, b = x, y  ->  a is x, b is y
            for i_, x in enumerate(n.targets[0].elts):
                if isinstance(n.value, ast.Name):
                    defs.setdefault(x.id, []).append(ast.Subscript(value=ast.Name(id=n.value.id, ctx=ast.Load()), slice=ast.Constant(value=i_), ctx=ast.Load()))
                elif len(n.value.elts) == len(n.targets[0].elts):
                    defs.setdefault(x.id, []).append(n.value.elts[i_])
                else:
                    defs.setdefault(x.id, []).append(None)
        elif isinstance(n, ast.Assign):
            for t in n.targets:
                for x in ast.walk(t):
                    if isinstance(x, ast.Name) and isinstance(x.ctx, ast.Store):
                        defs.setdefault(x.id, []).append(None)
    return defs


def _resolve_with(f, e, defs, depth):
    import copy

    class Sub(ast.NodeTransformer):
        def visit_Name(self, node):
            if isinstance(node.ctx, ast.Load) and node.id in defs and len(defs[node.id]) == 1 and defs[node.id][0] is not None and _alias_like(defs[node.id][0]):
                v = defs[node.id][0]
                # do not expand self-referential definitions such as `step = int(step)` more than once
                inner = acopy(v)
                if any(isinstance(x, ast.Name) and x.id == node.id for x in ast.walk(inner)):
                    return inner
                return ast.parse(resolve_local(f, inner, depth + 1), mode="eval").body
            return node

    try:
        return ntext(Sub().visit(acopy(e)))
    except Exception:
        return ntext(e)


def analysis_units(ctx, reach):
    """Functions of `reach` as analysis units for local (intra-procedural) rules: a private helper (`_name`) whose every
    call in the package is a plain call that the source-level inliner can expand is analysed *inside* its callers (where
    the guards and the facts about its arguments are) and not on its own; callers are returned as views with those
    helpers inlined.  Returns a list of Func-like objects (qual unchanged; .node holds the possibly rewritten body)."""
    def build():
        import copy as _copy
        from ..normalise import inline_helpers

        P = ctx.P
        views = {}
        inlined_callees = set()
        for q in sorted(reach):
            f = P.funcs.get(q)
            if f is None or f.is_lambda or f.parent is not None:
                continue
            has_private_call = any(isinstance(c, ast.Call) and ((isinstance(c.func, ast.Attribute) and c.func.attr.startswith("_") and not c.func.attr.startswith("__")) or (isinstance(c.func, ast.Name) and c.func.id.startswith("_") and not c.func.id.startswith("__"))) for c in walk_local(f.node))
            if not has_private_call:
                continue
            body, n = inline_helpers(P, f)
            if not n:
                continue
            view = _copy.copy(f)
            node = _copy.copy(f.node)
            node.body = body
            for st_ in body:
                st_._parent = node
            view.node = node
            views[q] = view
            # which helpers disappeared from this caller?
            before = {ntext(c.func) for c in walk_local(f.node) if isinstance(c, ast.Call)}
            after = {ntext(c.func) for c in ast.walk(ast.Module(body=body, type_ignores=[])) if isinstance(c, ast.Call)}
            for name in before - after:
                short = name.split(".")[-1]
                g = P.method(f.cls, short) if f.cls is not None and "." in name else P.funcs.get("%s.%s" % (f.module.name, short))
                if g is not None:
                    inlined_callees.add(g.qual)
        # a helper is dropped as a unit only if every call site of it was expanded
        drop = set()
        for gq in inlined_callees:
            ok = True
            for caller, lst in ctx.cg.sites.items():
                for call, quals in lst:
                    if gq in quals:
                        if caller not in views:
                            ok = False
                        else:
                            short = gq.split(".")[-1]
                            still = any(isinstance(c, ast.Call) and ntext(c.func).split(".")[-1] == short for c in ast.walk(views[caller].node))
                            if still:
                                ok = False
            if ok:
                drop.add(gq)
        out = []
        for q in sorted(reach):
            f = P.funcs.get(q)
            if f is None:
                continue
            top = f
            while top.parent is not None:
                top = top.parent
            if top.qual in drop:
                continue
            out.append(views.get(q, f))
        return out

    return ctx.get(("analysis_units", tuple(sorted(reach))[:3], len(reach)), build)


def param_values(ctx, f, pname, depth=0, seen=None):
    """The numeric constants a parameter of f can hold given the package's own call sites (and its default): for each call
    of f in the package the argument expression, a parameter of the caller being resolved the same way.  Returns a set of
    Fractions, or None when some call passes something that is not traced to a constant.  Callers outside the package are
    not considered: the rule using this states so."""
    from fractions import Fraction

    seen = seen or set()
    if (f.qual, pname) in seen or depth > 4:
        return None
    seen = seen | {(f.qual, pname)}
    P = ctx.P
    out = set()

    def const_of(e, g):
        v = const_value(e) if isinstance(e, ast.Constant) else None
        if isinstance(v, (int, float)) and not isinstance(v, bool):
            return {Fraction(str(v))}
        if isinstance(e, ast.Name) and g is not None and (e.id in g.params or e.id in g.kwonly):
            return param_values(ctx, g, e.id, depth + 1, seen)
        if isinstance(e, ast.Name) and g is not None:
            m = g.module
            ga = m.global_assigns(e.id) if hasattr(m, "global_assigns") else []
            if len(ga) == 1 and isinstance(ga[0].value, ast.Constant) and isinstance(ga[0].value.value, (int, float)):
                return {Fraction(str(ga[0].value.value))}
        return None

    positional = list(f.params[1:]) if (f.cls is not None and not f.is_staticmethod and f.params) else list(f.params)
    n_sites = 0
    for caller, sites in ctx.cg.sites.items():
        g = P.funcs.get(caller)
        for call, quals in sites:
            if f.qual not in quals:
                continue
            n_sites += 1
            e = None
            for kw in call.keywords:
                if kw.arg == pname:
                    e = kw.value
                elif kw.arg is None:
                    return None
            if e is None and pname in positional:
                i = positional.index(pname)
                if i < len(call.args) and not any(isinstance(a, ast.Starred) for a in call.args[: i + 1]):
                    e = call.args[i]
            if e is None:
                if pname in f.defaults:
                    vs = const_of(f.defaults[pname], None)
                else:
                    return None
            else:
                vs = const_of(e, g)
            if vs is None:
                return None
            out |= vs
    if not n_sites:
        if pname in f.defaults:
            return const_of(f.defaults[pname], None)
        return None
    return out


class FuncView:
    """A function seen through a normalised body (same name, parameters, module and position as the original)."""

    def __init__(self, f, body):
        import copy

        self._f = f
        node = copy.copy(f.node)
        node.body = body
        for st_ in body:
            st_._parent = node
        self.node = node

    def __getattr__(self, k):
        return getattr(self._f, k)
