"""Helpers shared by the rule modules."""
import ast

from ..core import ntext, walk_local, AnchorMissing, Undecided, FUNC_NODES
from ..sym import (
    Evaluator, Opaque, Seq, DictV, Const, Closure, Phi, Cond, Template, key, ckey, as_num, num_const,
    State, Env, NONE, TRUE, FALSE, MapV, ClassRef, Ext, StrSym, OverrideV, EnumV, JoinV,
)
from ..poly import Num, C, A


def rule(rule_id):
    def deco(fn):
        fn.rule_id = rule_id
        return fn

    return deco


def where(f, node=None):
    ln = getattr(node, "lineno", None) if node is not None else None
    if ln is None:
        ln = f.node.lineno
    return "%s:%s (%s)" % (f.module.path, ln, f.qual)


def mwhere(mod, node):
    return "%s:%s" % (mod.path, getattr(node, "lineno", "?"))


def leaves(v, path=()):
    """Yield (path, leaf) of a Phi tree; path = tuple of (Cond, taken)."""
    if isinstance(v, Phi):
        yield from leaves(v.a, path + ((v.cond, True),))
        yield from leaves(v.b, path + ((v.cond, False),))
    else:
        yield path, v


def pexpr(ev, st, src):
    """Evaluate an expected expression (Python source) in state st."""
    return ev.expr(ast.parse(src, mode="eval").body, st)


def same(a, b):
    if isinstance(a, Num) and isinstance(b, Num):
        return a.equals(b)
    na, nb = as_num(a), as_num(b)
    if isinstance(a, (Num,)) or isinstance(b, (Num,)):
        if na is not None and nb is not None:
            return na.equals(nb)
    return key(a) == key(b)


def calls_in(node, local=True):
    it = walk_local(node) if local else ast.walk(node)
    return [n for n in it if isinstance(n, ast.Call)]


def call_name(c):
    """Dotted textual name of the callee expression."""
    return ntext(c.func)


def is_self_attr(n, attr=None, selfname="self"):
    return isinstance(n, ast.Attribute) and isinstance(n.value, ast.Name) and n.value.id == selfname and (attr is None or n.attr == attr)


def const_value(n):
    """Numeric/str value of a constant expression AST (handles unary minus), else None."""
    if isinstance(n, ast.Constant):
        return n.value
    if isinstance(n, ast.UnaryOp) and isinstance(n.op, ast.USub) and isinstance(n.operand, ast.Constant) and isinstance(n.operand.value, (int, float)):
        return -n.operand.value
    return None


def stmts_of(f):
    return list(f.node.body) if not f.is_lambda else []


def show(v, limit=300):
    s = key(v)
    return s if len(s) <= limit else s[: limit - 3] + "..."


def obj(name, P=None, cls=None):
    c = P.cls(cls) if (P is not None and cls is not None) else None
    return Opaque(name, cls=c, kind="obj")


def new_eval(P, **kw):
    return Evaluator(P, **kw)


def ext_name(e, mod, f=None, types=None):
    """Dotted external name of an expression such as `datetime.datetime.fromtimestamp`
    (resolving import aliases of module `mod`), or None."""
    parts = []
    n = e
    while isinstance(n, ast.Attribute):
        parts.append(n.attr)
        n = n.value
    if not isinstance(n, ast.Name):
        return None
    # a local variable shadows the import
    if f is not None and types is not None and n.id in types.locals.get(f.qual, ()):
        return None
    imp = mod.imports.get(n.id)
    if imp is None:
        return None
    if imp[0] == "module":
        base = imp[1]
    else:
        base = imp[1] + "." + imp[2]
    return ".".join([base] + list(reversed(parts)))


def lift(v, limit=64):
    """Lift Phi nodes out of sequences: [Phi(c,a,b), x] -> Phi(c, [a,x], [b,x])."""
    if isinstance(v, Phi):
        return Phi(v.cond, lift(v.a, limit), lift(v.b, limit))
    if isinstance(v, Seq):
        for i, x in enumerate(v.items):
            if isinstance(x, Phi):
                ck_ = key(x.cond)
                ia = [y.a if isinstance(y, Phi) and key(y.cond) == ck_ else y for y in v.items]
                ib = [y.b if isinstance(y, Phi) and key(y.cond) == ck_ else y for y in v.items]
                return Phi(x.cond, lift(Seq(v.kind, ia), limit), lift(Seq(v.kind, ib), limit))
    return v
