"""C12 — the linear scale is the affine map through its domain and range end points."""
import ast

from .util import *
from . import state as statepack
from ..floatsafe import fs_apply, fs_key

EXPLANATION = (
    "LinearScale is instantiated symbolically (domain [d0,d1], range [r0,r1], d0!=d1) by gated value numbering of "
    "__init__/rescale; the resulting _output/_input closures are compared, as rational functions, with "
    "r0+(r1-r0)(x-d0)/(d1-d0) and its inverse (C12.AFFINE, C12.INVERT); the uninterpolator/interpolator closures are "
    "evaluated at the end points with float-exact rewriting only (x-x=0, 0/y=0, y/y=1, x*0=0, x*1=x, x+0=x) "
    "(C12.ENDPOINT-EXACT); the clamped variant must be max(0,min(1,u)) (C12.CLAMP); every method that writes or "
    "mutates _domain/_range/_clamp/_interpolate must reach self.rescale() on every path to return (C12.RESCALE, CFG "
    "must-pass + mutation summaries); the instance returned by copy() must share no list with its source and "
    "domain(x) must store a fresh list (C12.COPY-FRESH, C12.DOMAIN-FRESH: object identity in the symbolic heap); "
    "getters report the lists rescale used (C12.REPORTS); no hidden per-instance or module state (C12.STATE). "
    "Decides these structural necessary conditions, not floating-point error magnitudes."
    '  The float-exact rewriting knows sign symmetry and commutativity (both exact) and inlines derived locals of the enclosing function.'
    '  C12.SHARED-LIST: a list held in _domain/_range that escapes (returned as itself by a getter, kept from a parameter as given) is never rewritten in place by a method of the class (field-granular escape sites x effect summaries; D12).'
)
ASSUMPTIONS = ["float arithmetic obeys the listed exact identities for finite operands", "domain end points distinct (the property's non-degenerate case)"]

LS = "scale.LinearScale"
STATE_ATTRS = {"_domain", "_range", "_clamp", "_interpolate"}


def make_scale(ctx, clamp=False, ev=None):
    P = ctx.P
    ev = ev or new_eval(P)
    d = Seq("list", [Opaque("d0"), Opaque("d1")], ident="P:D")
    r = Seq("list", [Opaque("r0"), Opaque("r1")], ident="P:R")
    ev.assume_order(Opaque("d0"), Opaque("d1"), "ne")
    ev.assume_order(Opaque("r0"), Opaque("r1"), "ne")
    st = ev.new_state(module="scale")
    init = P.method(P.cls(LS), "__init__")
    # LinearScale(domain, range, interpolate, clamp): the clamp flag is the fourth parameter, whatever it is called
    kwargs = {(init.params[4] if init is not None and len(init.params) > 4 else "clamp"): TRUE} if clamp else {}
    s = ev.instantiate(P.cls(LS), [d, r], kwargs, st)
    return ev, st, s, d, r


def expected_affine(x, d0, d1, r0, r1):
    return r0 + (r1 - r0) * (x - d0) / (d1 - d0)


@rule("C12.AFFINE")
def affine(ctx, R):
    P = ctx.P
    ev, st, s, d, r = make_scale(ctx)
    R.saw(P.func(LS + ".__init__"), P.func(LS + ".rescale"), P.func("scale.d3_scale_bilinear"))
    d0, d1, r0, r1, x, y = (A(n) for n in ("d0", "d1", "r0", "r1", "x", "y"))
    for meth in ("__call__", "scale"):
        f = P.method(P.cls(LS), meth)
        if f is None:
            raise AnchorMissing(LS + "." + meth)
        v = ev.call_closure(Closure(f, None, selfv=s), [Opaque("x")], {}, st)
        n = as_num(v)
        exp = expected_affine(x, d0, d1, r0, r1)
        R.check(
            n is not None and n.equals(exp), "C12.AFFINE", "%s.%s" % (LS, meth), where(f),
            "scale(x) == r0 + (r1-r0)(x-d0)/(d1-d0) as rational functions",
            "scale(x) normal form is %s, expected %s" % (show(v), exp.key()),
        )
    f = P.func(LS + ".invert")
    v = ev.call_closure(Closure(f, None, selfv=s), [Opaque("y")], {}, st)
    n = as_num(v)
    exp = expected_affine(y, r0, r1, d0, d1)
    R.check(
        n is not None and n.equals(exp), "C12.INVERT", LS + ".invert", where(f),
        "invert(y) == d0 + (d1-d0)(y-r0)/(r1-r0)", "invert(y) normal form is %s, expected %s" % (show(v), exp.key()),
    )


def _through_temp(fnode, e):
    """`t = E; return t`: the expression behind a returned local that has exactly one assignment."""
    for _ in range(3):
        if not isinstance(e, ast.Name):
            return e
        asg = [n for n in ast.walk(fnode) if isinstance(n, ast.Assign) and len(n.targets) == 1 and isinstance(n.targets[0], ast.Name) and n.targets[0].id == e.id]
        stores = [n for n in ast.walk(fnode) if isinstance(n, ast.Name) and n.id == e.id and isinstance(n.ctx, ast.Store)]
        if len(asg) != 1 or len(stores) != 1:
            return e
        e = asg[0].value
    return e


def closure_parts(ev, st, s, attr):
    """(uninterpolator, interpolator) closures composed by the map stored in `attr`: found by their role in
    the composition lambda x: I(U(x)), whatever the local names."""
    out = st.heap.get((s.text, attr))
    if isinstance(out, Opaque) and out.cls is not None and out.kind == "new":
        # the composition may be a small callable object instead of a closure: `def __call__(self, x): return self.I(self.U(x))`
        call = ev.P.method(out.cls, "__call__")
        if call is not None and len(call.params) == 2:
            rets = [n for n in call.node.body if isinstance(n, ast.Return)]
            body = _through_temp(call.node, rets[0].value if len(rets) == 1 else None)
            selfn = call.params[0]

            def fld(e):
                return e.attr if isinstance(e, ast.Attribute) and isinstance(e.value, ast.Name) and e.value.id == selfn else None

            if isinstance(body, ast.Call) and len(body.args) == 1 and isinstance(body.args[0], ast.Call) and fld(body.func) and fld(body.args[0].func):
                i = st.heap.get((out.text, fld(body.func)))
                u = st.heap.get((out.text, fld(body.args[0].func)))
                if isinstance(u, Closure) and isinstance(i, Closure):
                    return u, i
        return None, None
    if not isinstance(out, Closure) or out.env is None:
        return None, None
    body = out.func.node.body if out.func.is_lambda else None
    if body is None:
        rets = [n for n in out.func.node.body if isinstance(n, ast.Return)]
        body = rets[0].value if len(rets) == 1 else None
        body = _through_temp(out.func.node, body)
    if isinstance(body, ast.Call) and isinstance(body.func, ast.Name) and len(body.args) == 1 and isinstance(body.args[0], ast.Call) and isinstance(body.args[0].func, ast.Name):
        i = out.env.lookup(body.func.id)
        u = out.env.lookup(body.args[0].func.id)
        if isinstance(u, Closure) and isinstance(i, Closure):
            return u, i
    return None, None


@rule("C12.ENDPOINT-EXACT")
def endpoint_exact(ctx, R):
    P = ctx.P
    for clamp in (False, True):
        ev, st, s, d, r = make_scale(ctx, clamp=clamp)
        tag = "clamped" if clamp else "unclamped"
        for attr, a0, a1, b0, b1 in (("_output", "d0", "d1", "r0", "r1"), ("_input", "r0", "r1", "d0", "d1")):
            u, i = closure_parts(ev, st, s, attr)
            f = P.func(LS + ".rescale")
            if u is None:
                R.undecided("C12.ENDPOINT-EXACT", "%s %s" % (attr, tag), where(f), "cannot identify uninterpolate/interpolate closures in %s" % attr)
                continue
            R.saw(u.func, i.func)
            for cl, arg, want, what in (
                (u, ("sym", a0), ("c", 0), "uninterpolate(%s)" % a0),
                (u, ("sym", a1), ("c", 1), "uninterpolate(%s)" % a1),
                (i, ("c", 0), ("sym", b0), "interpolate(0)"),
                (i, ("c", 1), ("sym", b1), "interpolate(1)"),
            ):
                try:
                    got = fs_apply(P, cl, [arg], ev)
                except Undecided as e:
                    R.undecided("C12.ENDPOINT-EXACT", "%s %s %s" % (attr, tag, what), where(cl.func), str(e))
                    continue
                R.check(
                    got == want, "C12.ENDPOINT-EXACT", "%s %s %s" % (attr, tag, what), where(cl.func),
                    "%s reduces to %s with float-exact identities only" % (what, fs_key(want)),
                    "%s reduces to `%s`, not `%s`: the end point is not mapped exactly in floating point" % (what, fs_key(got), fs_key(want)),
                )


@rule("C12.CLAMP")
def clamp_rule(ctx, R):
    P = ctx.P
    ev, st, s, d, r = make_scale(ctx, clamp=True)
    f = P.func(LS + ".__call__")
    v = ev.call_closure(Closure(f, None, selfv=s), [Opaque("x")], {}, st)
    d0, d1, r0, r1, x = (A(n) for n in ("d0", "d1", "r0", "r1", "x"))
    u = (x - d0) / (d1 - d0)
    cands = []
    st2 = ev.new_state(module="scale")
    for form in ("max(0, min(1, u))", "min(1, max(0, u))"):
        st2.env.vars["u"] = u
        t = as_num(pexpr(ev, st2, form))
        cands.append(r0 * (C(1) - t) + r1 * t)
    n = as_num(v)
    R.check(
        n is not None and any(n.equals(c) for c in cands), "C12.CLAMP", LS + ".__call__ clamped", where(f),
        "clamped scale(x) == interpolate(max(0, min(1, (x-d0)/(d1-d0))))",
        "clamped scale(x) normal form is %s" % show(v),
    )
    # unclamped instance must not clamp, clamp(True) must switch
    ev, st, s, d, r = make_scale(ctx, clamp=False)
    fc = P.func(LS + ".clamp")
    ev.call_closure(Closure(fc, None, selfv=s), [TRUE], {}, st)
    v2 = ev.call_closure(Closure(f, None, selfv=s), [Opaque("x")], {}, st)
    n2 = as_num(v2)
    R.check(
        n2 is not None and any(n2.equals(c) for c in cands), "C12.CLAMP", LS + ".clamp(True) then __call__", where(fc),
        "clamp(True) selects the clamped uninterpolator", "after clamp(True) scale(x) is %s" % show(v2),
    )
    ev.call_closure(Closure(fc, None, selfv=s), [FALSE], {}, st)
    v3 = as_num(ev.call_closure(Closure(f, None, selfv=s), [Opaque("x")], {}, st))
    R.check(
        v3 is not None and v3.equals(expected_affine(x, d0, d1, r0, r1)), "C12.CLAMP", LS + ".clamp(False) then __call__", where(fc),
        "clamp(False) restores the unclamped map", "after clamp(False) scale(x) is %s" % show(v3),
    )


@rule("C12.RESCALE")
def rescale_rule(ctx, R):
    """Every method that writes/mutates the four state attributes reaches self.rescale() on all paths to return."""
    P = ctx.P
    from ..effects import Effects

    eff = ctx.get("effects", lambda: Effects(P, ctx.cg.resolver()))
    cls = P.cls(LS)
    n_inst = 0
    for name, f in sorted(cls.methods.items()):
        if name == "rescale":
            continue
        cfg = ctx.cfg(f)
        selfn = f.params[0]
        writers = []
        for n in cfg.stmt_nodes():
            a = n.ast
            if n.kind != "stmt":
                continue
            for t in _store_targets(a):
                if is_self_attr(t, None, selfn) and t.attr in STATE_ATTRS:
                    writers.append((n, "assigns self.%s" % t.attr))
                elif isinstance(t, ast.Subscript) and is_self_attr(t.value, None, selfn) and t.value.attr in STATE_ATTRS:
                    writers.append((n, "stores into self.%s[...]" % t.value.attr))
            for c in calls_in(a) + ([a.value] if isinstance(a, ast.Expr) and isinstance(a.value, ast.Call) else []):
                # mutating method on the attribute
                if isinstance(c.func, ast.Attribute) and is_self_attr(c.func.value, None, selfn) and c.func.value.attr in STATE_ATTRS and c.func.attr in ("append", "extend", "insert", "pop", "remove", "sort", "reverse", "clear", "__setitem__"):
                    writers.append((n, "mutates self.%s via .%s()" % (c.func.value.attr, c.func.attr)))
                # passing the attribute to a callee that mutates the parameter
                for g, bound in ctx.types.resolve(c):
                    params = g.params[1:] if bound else g.params
                    for i, arg in enumerate(c.args):
                        if is_self_attr(arg, None, selfn) and arg.attr in STATE_ATTRS and i < len(params) and eff.mutates(g, params[i]):
                            writers.append((n, "passes self.%s to %s which mutates it" % (arg.attr, g.qual)))
        resc = [n for n in cfg.stmt_nodes() if n.kind in ("stmt", "test") and any(isinstance(c.func, ast.Attribute) and c.func.attr == "rescale" and isinstance(c.func.value, ast.Name) and c.func.value.id == selfn for c in calls_in(n.ast) + ([n.ast] if isinstance(n.ast, ast.Call) else []))]
        seen = set()
        for n, how in writers:
            if (id(n), how) in seen:
                continue
            seen.add((id(n), how))
            n_inst += 1
            R.saw(f)
            if n in resc:
                ok = True  # same statement calls rescale after evaluating (e.g. return self.rescale())
            else:
                ok = not cfg.exists_path(n, cfg.exit, avoid=resc)
            R.check(
                ok, "C12.RESCALE", "%s|%s" % (f.qual, how), where(f, n.ast),
                "every path from this write to return passes self.rescale()",
                "a path reaches return without self.rescale() after `%s` (%s): the map goes stale" % (ntext(n.ast)[:80], how),
            )
    R.check(n_inst >= 5, "C12.RESCALE.inventory", "writers of LinearScale state: %d" % n_inst, "", "", "fewer state writers than the 5 setters the class must have", nontrivial=False)


def _store_targets(a):
    out = []
    if isinstance(a, ast.Assign):
        for t in a.targets:
            out.extend(_flat(t))
    elif isinstance(a, (ast.AugAssign, ast.AnnAssign)):
        out.extend(_flat(a.target))
    elif isinstance(a, ast.Delete):
        for t in a.targets:
            out.extend(_flat(t))
    return out


def _flat(t):
    if isinstance(t, (ast.Tuple, ast.List)):
        r = []
        for e in t.elts:
            r.extend(_flat(e))
        return r
    if isinstance(t, ast.Starred):
        return _flat(t.value)
    return [t]


def _contains(v, target, depth=0):
    """Does value v (transitively) contain the very object `target`?"""
    if v is target:
        return True
    if depth > 4:
        return False
    if isinstance(v, Seq):
        return any(_contains(x, target, depth + 1) for x in v.items)
    if isinstance(v, Phi):
        return _contains(v.a, target, depth + 1) or _contains(v.b, target, depth + 1)
    return False


def mutable_cells(st, objtext):
    return {k[1]: v for k, v in st.heap.items() if k[0] == objtext}


@rule("C12.COPY-FRESH")
def copy_fresh(ctx, R):
    P = ctx.P
    ev, st, s, d, r = make_scale(ctx)
    f = P.func(LS + ".copy")
    R.saw(f)
    c = ev.call_closure(Closure(f, None, selfv=s), [], {}, st)
    if not isinstance(c, Opaque):
        R.bad("C12.COPY-FRESH", LS + ".copy", where(f), "copy() does not return a scale object: %s" % show(c))
        return
    if c.text == s.text:
        R.bad("C12.COPY-FRESH", LS + ".copy", where(f), "copy() returns the scale itself")
        return
    src = mutable_cells(st, s.text)
    dst = mutable_cells(st, c.text)
    if c.kind != "new" or not dst:
        # e.g. copy.copy(self): a shallow copy shares every attribute object
        R.bad("C12.COPY-FRESH", LS + ".copy", where(f), "copy() returns %s: not a freshly constructed LinearScale, its domain/range lists are shared with the source" % show(c))
        return
    for attr in ("_domain", "_range"):
        a, b = src.get(attr), dst.get(attr)
        shared = isinstance(a, Seq) and (b is a or _contains(b, a))
        R.check(
            b is not None and not shared and not (isinstance(b, Opaque) and b.text == "%s.%s" % (s.text, attr)), "C12.COPY-FRESH", "%s.copy %s" % (LS, attr), where(f),
            "copy().%s is a different list object than the source's" % attr,
            "copy().%s is the very list object of the source (%s): nice() on either changes the other's reported domain" % (attr, show(b)),
        )
    # the copy maps like the source
    fcall = P.func(LS + ".__call__")
    v1 = as_num(ev.call_closure(Closure(fcall, None, selfv=s), [Opaque("x")], {}, st))
    v2 = as_num(ev.call_closure(Closure(fcall, None, selfv=c), [Opaque("x")], {}, st))
    R.check(v1 is not None and v2 is not None and v1.equals(v2), "C12.COPY-FRESH", LS + ".copy maps alike", where(f), "copy()(x) == source(x)", "copy maps %s, source maps %s" % (v2, v1))
    # TimeScale.copy copies the inner scale
    ft = P.func("scale.TimeScale.copy")
    R.saw(ft)
    ts = Opaque("ts", cls=P.cls("scale.TimeScale"), kind="obj")
    st.heap[("ts", "_linear")] = s
    tc = ev.call_closure(Closure(ft, None, selfv=ts), [], {}, st)
    inner = st.heap.get((tc.text, "_linear")) if isinstance(tc, Opaque) else None
    ok = isinstance(inner, Opaque) and inner.text != s.text and inner.kind == "new"
    if ok:
        ok = mutable_cells(st, inner.text).get("_domain") is not src.get("_domain")
    R.check(ok, "C12.COPY-FRESH", "scale.TimeScale.copy inner", where(ft), "TimeScale.copy() holds a copy of the inner linear scale", "TimeScale.copy() shares its inner linear scale (or its domain list) with the source: %s" % show(inner))


@rule("C12.DOMAIN-FRESH")
def domain_fresh(ctx, R):
    P = ctx.P
    ev, st, s, d, r = make_scale(ctx)
    f = P.func(LS + ".domain")
    x = Seq("list", [Opaque("e0"), Opaque("e1")], ident="P:X")
    ev.assume_order(Opaque("e0"), Opaque("e1"), "ne")
    ev.call_closure(Closure(f, None, selfv=s), [x], {}, st)
    got = st.heap.get((s.text, "_domain"))
    R.check(got is not None and got is not x and not _contains(got, x), "C12.DOMAIN-FRESH", LS + ".domain(x)", where(f), "domain(x) stores a fresh list", "domain(x) stores the caller's list object itself; nice() would rewrite the caller's data")
    # and the new domain is what the map uses
    fcall = P.func(LS + ".__call__")
    v = as_num(ev.call_closure(Closure(fcall, None, selfv=s), [Opaque("x")], {}, st))
    e0, e1, r0, r1, xx = (A(n) for n in ("e0", "e1", "r0", "r1", "x"))
    R.check(v is not None and v.equals(expected_affine(xx, e0, e1, r0, r1)), "C12.DOMAIN-FRESH", LS + ".domain(x) then __call__", where(f), "after domain([e0,e1]) the map runs through e0,e1", "after domain([e0,e1]) scale(x) is %s" % show(v))
    # range(x) likewise takes effect
    fr = P.func(LS + ".range")
    y = Seq("list", [Opaque("q0"), Opaque("q1")], ident="P:Y")
    ev.assume_order(Opaque("q0"), Opaque("q1"), "ne")
    ev.call_closure(Closure(fr, None, selfv=s), [y], {}, st)
    v = as_num(ev.call_closure(Closure(fcall, None, selfv=s), [Opaque("x")], {}, st))
    q0, q1 = A("q0"), A("q1")
    R.check(v is not None and v.equals(expected_affine(xx, e0, e1, q0, q1)), "C12.DOMAIN-FRESH", LS + ".range(x) then __call__", where(fr), "after range([q0,q1]) the map runs to q0,q1", "after range([q0,q1]) scale(x) is %s" % show(v))


_COPIERS = {"list", "tuple", "sorted", "map", "deepcopy", "copy"}


@rule("C12.SHARED-LIST")
def shared_list(ctx, R):
    """A list a scale holds in `_domain` / `_range` may be known to others: the getters hand the object itself out, the
    constructor and `range(x)` keep the caller's object (which may be another scale's list: `t.range(s.domain())`, or one
    list given to two constructors).  The cached maps (`_output`, `_input`) of those others are not rebuilt when *this*
    scale rewrites the list in place, so afterwards they report end points they do not map.  Hence: a field that escapes
    (out or in) is never mutated in place by a method of the class; rewriting is done on a private copy."""
    from ..effects import Effects, MUTATORS

    P = ctx.P
    cls = P.cls(LS)
    eff = ctx.get("effects", lambda: Effects(P, ctx.cg.resolver()))
    resolve = ctx.cg.resolver()
    FIELDS = ("_domain", "_range")
    out_sites = {a: [] for a in FIELDS}
    in_sites = {a: [] for a in FIELDS}
    mut_sites = {a: [] for a in FIELDS}
    seen = set()
    for m in cls.methods.values():
        if m is None or m.qual in seen or not m.params or m.is_lambda:
            continue
        seen.add(m.qual)
        R.saw(m)
        selfn = m.params[0]
        alias = {}
        for n in walk_local(m.node):
            if isinstance(n, ast.Assign) and len(n.targets) == 1 and isinstance(n.targets[0], ast.Name) and isinstance(n.value, ast.Attribute) \
                    and isinstance(n.value.value, ast.Name) and n.value.value.id == selfn and n.value.attr in FIELDS:
                alias[n.targets[0].id] = n.value.attr

        def field_obj(e):
            """The field whose list object the expression denotes (not a copy, not an element)."""
            if isinstance(e, ast.Attribute) and isinstance(e.value, ast.Name) and e.value.id == selfn and e.attr in FIELDS:
                return e.attr
            if isinstance(e, ast.Name) and e.id in alias:
                return alias[e.id]
            return None

        def as_given(e):
            """Parameters whose object the expression may denote unchanged (through conditional expressions / `or`)."""
            if isinstance(e, ast.Name) and e.id in m.params[1:]:
                return [e.id]
            if isinstance(e, ast.IfExp):
                return as_given(e.body) + as_given(e.orelse)
            if isinstance(e, ast.BoolOp):
                return [x for v in e.values for x in as_given(v)]
            return []

        for n in walk_local(m.node):
            if isinstance(n, ast.Return) and n.value is not None and field_obj(n.value):
                out_sites[field_obj(n.value)].append((m, n))
            if isinstance(n, (ast.Assign, ast.AugAssign, ast.AnnAssign, ast.Delete)):
                tgts = n.targets if isinstance(n, (ast.Assign, ast.Delete)) else [n.target]
                for t in tgts:
                    if isinstance(t, ast.Subscript) and field_obj(t.value):
                        mut_sites[field_obj(t.value)].append((m, n, "stores into it"))
                    if isinstance(n, ast.Assign) and isinstance(t, ast.Attribute) and isinstance(t.value, ast.Name) and t.value.id == selfn and t.attr in FIELDS and as_given(n.value):
                        in_sites[t.attr].append((m, n, as_given(n.value)[0]))
                if isinstance(n, ast.AugAssign) and field_obj(n.target):
                    mut_sites[field_obj(n.target)].append((m, n, "augments it in place"))
            if isinstance(n, ast.Call):
                if isinstance(n.func, ast.Attribute) and n.func.attr in MUTATORS and field_obj(n.func.value):
                    mut_sites[field_obj(n.func.value)].append((m, n, "calls .%s() on it" % n.func.attr))
                for g, bound in resolve(n, m):
                    params = list(g.params)
                    if bound and params:
                        params = params[1:]
                    for i, a in enumerate(n.args):
                        if i < len(params) and field_obj(a) and eff.mutates(g, params[i]):
                            mut_sites[field_obj(a)].append((m, n, "passes it to %s, which rewrites its argument in place" % g.qual))
                    for kw in n.keywords:
                        if kw.arg in params and field_obj(kw.value) and eff.mutates(g, kw.arg):
                            mut_sites[field_obj(kw.value)].append((m, n, "passes it to %s, which rewrites its argument in place" % g.qual))
    n_esc = 0
    for a in FIELDS:
        esc = ["%s() returns the list itself" % m.name for m, _ in out_sites[a]] + ["%s keeps the caller's `%s` as given" % (m.name, pn) for m, _, pn in in_sites[a]]
        n_esc += len(esc)
        if not mut_sites[a]:
            R.ok("C12.SHARED-LIST", "%s.%s never rewritten in place" % (LS, a), where(P.func(LS + ".__init__")), "no method stores into, calls a mutator on, or hands the list to a mutating callee (%d ways it is shared: %s)" % (len(esc), "; ".join(esc) or "none"))
            continue
        for m, n, how in mut_sites[a]:
            R.check(not esc, "C12.SHARED-LIST", "%s.%s|%s" % (LS, a, m.name), where(m, n), "%s rewrites the list in place, and the list is never shared" % m.name,
                    "%s.%s %s (`%s`), but the same list object may be held elsewhere: %s.  A scale that obtained it (`t.range(s.domain())`, or two scales constructed from one list) then reports end points its cached map does not go through, and a copy and its original influence each other" % (m.name, a, how, ntext(n)[:70], "; ".join(esc)))
    R.check(n_esc + sum(len(v) for v in mut_sites.values()) >= 1, "C12.SHARED-LIST.inventory", "escape / mutation sites examined: %d" % (n_esc + sum(len(v) for v in mut_sites.values())), "", "", "no getter, constructor store or in-place rewrite of the scale's lists was recognised", nontrivial=False)


@rule("C12.REPORTS")
def reports(ctx, R):
    P = ctx.P
    ev, st, s, d, r = make_scale(ctx)
    for meth, attr in (("domain", "_domain"), ("range", "_range")):
        f = P.func("%s.%s" % (LS, meth))
        v = ev.call_closure(Closure(f, None, selfv=s), [], {}, st)
        cell = st.heap.get((s.text, attr))
        R.check(v is cell or key(v) == key(cell), "C12.REPORTS", "%s.%s()" % (LS, meth), where(f), "%s() reports the list rescale() used" % meth, "%s() returns %s but the map uses %s" % (meth, show(v), show(cell)))
    # nice() rewrites the domain the map uses and the domain reported
    fn = P.func(LS + ".nice")
    R.saw(fn, P.func("scale.d3_scale_linearNice"), P.func("scale.d3_scale_nice"))

    def hook(fv, args, kwargs, node, st_):
        if isinstance(fv, Closure) and fv.func.qual == "scale.d3_scale_linearTickRange":
            return Seq("list", [Opaque("lo"), Opaque("hi"), Opaque("STEP")])
        return None

    learned = []
    for attempt in (0, 1):
        ev2 = new_eval(P, on_call=hook)
        ev2.assume("truth(STEP)", True)
        ev2, st, s, d, r = make_scale(ctx, ev=ev2)
        ev2.assume_order(Opaque("d0"), Opaque("d1"), "lt")
        S_ = A("STEP")
        ev2.assume_order(S_ * Num.atom(("floor", (A("d0") / S_).key())), S_ * Num.atom(("ceil", (A("d1") / S_).key())), "lt")
        for a_, b_ in learned:
            ev2.assume_order(a_, b_, "ne")
        ev2.call_closure(Closure(fn, None, selfv=s), [], {}, st)
        dom0 = st.heap.get((s.text, "_domain"))
        if attempt == 0 and isinstance(dom0, Seq) and len(dom0.items) == 2:
            learned.append((dom0.items[0], dom0.items[1]))  # the niced end points stay distinct (nice only widens)
    dom = st.heap.get((s.text, "_domain"))
    fd = P.func(LS + ".domain")
    rep = ev2.call_closure(Closure(fd, None, selfv=s), [], {}, st)
    ok = isinstance(dom, Seq) and len(dom.items) == 2 and key(rep) == key(dom)
    detail = "reported domain %s, stored %s" % (show(rep), show(dom))
    if ok:
        u, i = closure_parts(ev2, st, s, "_output")
        ok = False
        if u is not None and u.func.parent is not None and len(u.func.parent.params) >= 2 and u.env is not None:
            pa, pb = u.func.parent.params[:2]
            a, b = u.env.lookup(pa), u.env.lookup(pb)
            ok = a is not None and b is not None and key(a) == key(dom.items[0]) and key(b) == key(dom.items[1])
            detail = "the map was built from [%s, %s] but the reported domain is %s" % (show(a), show(b), show(dom))
        else:
            # the degenerate guard may wrap the closure in a Phi: fall back to comparing the mapping
            detail = "cannot identify the uninterpolator captured by _output after nice()"
    R.check(ok, "C12.REPORTS", LS + ".nice then domain()/__call__", where(fn), "after nice() the map is rebuilt from the niced domain it reports", "after nice(): " + detail)


@rule("C12.STATE")
def state_rule(ctx, R):
    statepack.no_hidden_state(ctx, R, "C12.STATE", modules=["scale"], classes={
        "scale.LinearScale": {"_domain", "_range", "_clamp", "_interpolate", "_output", "_input"},
        "scale.TimeScale": {"_linear", "_methods", "_format"},
        "scale.d3TimeScaleMilliseconds": set(),
    })


RULES = [affine, endpoint_exact, clamp_rule, rescale_rule, copy_fresh, domain_fresh, shared_list, reports, state_rule]
