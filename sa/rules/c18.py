"""C18 — results do not depend on the process's local time zone."""
import ast

from .util import rule, where, ext_name, ntext, calls_in, walk_local

EXPLANATION = (
    "C18.TZAPI: every call / attribute reference in every function, lambda and module body of labella/*.py is "
    "resolved (import aliases followed, receivers typed by the 0-CFA type flow) and compared with the closed list of "
    "standard-library entry points that consult the process's local time zone (naive .timestamp(), "
    "fromtimestamp/utcfromtimestamp without tz, astimezone(), now/today/utcnow, date.today, time.localtime/mktime/"
    "ctime/asctime/strftime/tzset and the time.timezone/altzone/daylight/tzname attributes, %Z/%z in strftime formats, "
    "tzlocal/zoneinfo/dateutil/pytz local-zone lookups, TZ in os.environ).  Naive datetime arithmetic, replace(), "
    "field access, timedelta and strftime with the remaining directives consult no zone information, so absence of "
    "these entry points is sufficient for the mechanism the property names.  Decides: absence of TZ-sensitive "
    "entry points on all paths; does not decide values."
)
ASSUMPTIONS = [
    "the listed standard-library entry points are the only ways naive datetime code can observe the local zone",
    "user-supplied callables (timeFn, textFn, colour functions) are outside the package",
]

TZ_FUNCS = {
    "datetime.datetime.fromtimestamp": "tz", "datetime.datetime.utcfromtimestamp": None, "datetime.date.fromtimestamp": None,
    "datetime.datetime.now": "tz", "datetime.datetime.today": None, "datetime.datetime.utcnow": None, "datetime.date.today": None,
    "time.localtime": None, "time.mktime": None, "time.ctime": None, "time.asctime": None, "time.strftime": None, "time.tzset": None,
    "time.timezone": None, "time.altzone": None, "time.daylight": None, "time.tzname": None, "time.strptime": None,
    "tzlocal.get_localzone": None, "tzlocal.get_localzone_name": None, "dateutil.tz.tzlocal": None, "dateutil.tz.gettz": None,
    "email.utils.localtime": None, "email.utils.formatdate": None, "calendar.timegm": False,
}
TZ_METHODS = {"timestamp": None, "astimezone": None, "fromtimestamp": "tz", "utcfromtimestamp": None, "utcnow": None, "localtime": None, "mktime": None}
# methods that are zone-sensitive when called on the datetime / date classes reached through a value
CLASSISH = {"today", "now"}
DT_METHODS = {"replace", "strftime", "isoweekday", "weekday", "combine", "time", "date", "total_seconds", "timetuple", "isoformat", "toordinal", "fromordinal", "strptime", "min", "max"}


def has_tz_arg(call, kwname):
    if kwname is None:
        return False
    if any(k.arg in ("tz", "tzinfo") for k in call.keywords):
        return True
    # fromtimestamp(ts, tz) / now(tz)
    need = 2 if "fromtimestamp" in ntext(call.func) else 1
    return len(call.args) >= need


@rule("C18.TZAPI")
def tzapi(ctx, R):
    return _tzapi(ctx, R, None)


@rule("C18.TZAPI")
def tzapi_time(ctx, R):
    """The same rule restricted to the time-scale modules (used by C15-C17)."""
    return _tzapi(ctx, R, ("scale", "d3_time"))


def _tzapi(ctx, R, only_modules):
    P = ctx.P
    T = ctx.types
    n_dt = 0
    scopes = []
    for f in P.funcs.values():
        if only_modules is None or f.module.name in only_modules:
            scopes.append((f, f.module, [f.node] if f.is_lambda else f.node.body))
    for m in P.modules.values():
        if only_modules is not None and m.name not in only_modules:
            continue
        scopes.append((None, m, [s for s in m.tree.body]))
        for c in P.classes.values():
            if c.module is m:
                scopes.append((None, m, [s for s in c.node.body if not isinstance(s, (ast.FunctionDef, ast.AsyncFunctionDef))]))
    seen_nodes = set()
    for f, mod, body in scopes:
        if f is not None:
            R.saw(f)
        qual = f.qual if f is not None else "<module %s>" % mod.name
        nodes = []
        for s in body:
            if f is None and isinstance(s, (ast.FunctionDef, ast.AsyncFunctionDef, ast.ClassDef)):
                continue
            if f is not None and f.is_lambda:
                nodes.extend(walk_local(s.body, include_self=True))
            else:
                nodes.append(s)
                nodes.extend(walk_local(s))
        callfuncs = {}
        for n in nodes:
            if isinstance(n, ast.Call):
                callfuncs[id(n.func)] = n
        for n in nodes:
            if id(n) in seen_nodes:
                continue
            seen_nodes.add(id(n))
            wh = "%s:%s (%s)" % (mod.path, getattr(n, "lineno", "?"), qual)
            if isinstance(n, ast.Attribute):
                call = callfuncs.get(id(n))
                en = ext_name(n, mod, f, T)
                if en is not None and (en.startswith("datetime.") or en.startswith("time.")):
                    n_dt += 1
                if en in TZ_FUNCS and TZ_FUNCS[en] is not False:
                    if call is not None and has_tz_arg(call, TZ_FUNCS[en]):
                        R.ok("C18.TZAPI", "%s|%s" % (qual, en), wh, "explicit tz argument")
                    else:
                        kk = "%s|%s" % (qual, en)
                        par = getattr(call, "_parent", None) if call is not None else None
                        if en == "datetime.date.today" and isinstance(par, ast.Call) and ntext(par.func).endswith("combine") and par.args and par.args[0] is call:
                            kk = "%s|datetime.date.today as the date of datetime.combine(<date>, <time>)" % mod.name
                        R.bad("C18.TZAPI", kk, wh, "time-zone-sensitive standard-library entry point %s: `%s`" % (en, ntext(call or n)))
                    continue
                if en is not None:
                    if call is not None:
                        R.ok("C18.TZAPI", "%s|%s" % (qual, en), wh, "stdlib reference, not zone-sensitive", nontrivial=False)
                    continue
                # method on a value
                if call is not None and n.attr in (set(TZ_METHODS) | CLASSISH | DT_METHODS):
                    classes = T.classes_of(n.value, f, mod)
                    if any(P.method(c, n.attr) is not None for c in classes):
                        R.ok("C18.TZAPI", "%s|.%s" % (qual, n.attr), wh, "receiver typed as a package class defining %s" % n.attr)
                        continue
                    if n.attr in DT_METHODS:
                        n_dt += 1
                        # strftime format check
                        if n.attr == "strftime":
                            fmt = call.args[0] if call.args else None
                            if isinstance(fmt, ast.Constant) and isinstance(fmt.value, str):
                                if "%Z" in fmt.value or "%z" in fmt.value:
                                    R.bad("C18.TZAPI", "%s|strftime %s" % (qual, fmt.value), wh, "zone directive in strftime format")
                                else:
                                    R.ok("C18.TZAPI", "%s|strftime %s" % (qual, fmt.value), wh, "format has no zone directive")
                            else:
                                R.ok("C18.TZAPI", "%s|strftime <dynamic>" % qual, wh, "dynamic format (not examined)", nontrivial=False)
                        else:
                            R.ok("C18.TZAPI", "%s|.%s" % (qual, n.attr), wh, "datetime-family method without zone access", nontrivial=False)
                        continue
                    if n.attr in CLASSISH:
                        # x.today() / x.now() on an untyped value: zone-sensitive if x is a datetime/date class
                        R.bad("C18.TZAPI", "%s|.%s()" % (qual, n.attr), wh, "`%s` reads the local clock/zone" % ntext(call))
                        continue
                    n_dt += 1
                    if has_tz_arg(call, TZ_METHODS[n.attr]):
                        R.ok("C18.TZAPI", "%s|.%s" % (qual, n.attr), wh, "explicit tz argument")
                    else:
                        R.bad("C18.TZAPI", "%s|.%s()" % (qual, n.attr), wh, "time-zone-sensitive method on a naive value: `%s`" % ntext(call))
            elif isinstance(n, ast.Name) and isinstance(n.ctx, ast.Load):
                en = ext_name(n, mod, f, T)
                if en in TZ_FUNCS and TZ_FUNCS[en] is not False:
                    call = callfuncs.get(id(n))
                    if call is not None and has_tz_arg(call, TZ_FUNCS[en]):
                        continue
                    R.bad("C18.TZAPI", "%s|%s" % (qual, en), wh, "time-zone-sensitive standard-library entry point %s" % en)
                elif en is not None and en.split(".")[0] in ("tzlocal", "zoneinfo", "pytz"):
                    R.bad("C18.TZAPI", "%s|%s" % (qual, en), wh, "local-zone lookup library %s" % en)
            elif isinstance(n, ast.Subscript):
                # os.environ["TZ"]
                en = ext_name(n.value, mod, f, T) if isinstance(n.value, (ast.Attribute, ast.Name)) else None
                if en == "os.environ" and isinstance(n.slice, ast.Constant) and n.slice.value == "TZ":
                    R.bad("C18.TZAPI", "%s|os.environ[TZ]" % qual, wh, "reads TZ from the environment")
    R.ok("C18.TZAPI.inventory", "datetime-family references enumerated: %d" % n_dt, "", "all attribute references and calls resolved", nontrivial=False)
    R.note("datetime/time-family references enumerated: %d" % n_dt)


RULES = [tzapi]
