"""C08 — drawn label boxes are pairwise disjoint and sit on the chosen side of the axis."""
import ast

from .util import *
from . import emit
from .emit import Pipe, flat, SVG, TEX, DIRECTIONS

EXPLANATION = (
    "The drawing geometry is derived symbolically per direction and back-end by value numbering get_nodes -> "
    "Renderer.layout -> (engine output havocked to position P, layer L) -> Renderer.layout -> nodePos -> the emitted "
    "box origin and size (atoms: P, L, item width/height, paddings, layer gap G, layer thickness H).  C08.ALONG: the "
    "box's along-axis interval is [P - W/2, P + W/2] with W the very width the engine separated (so C01's separation "
    "is the boxes' separation).  C08.BAND: with B(L) = L(G+H)+G the box's across-axis extent lies inside the band "
    "sigma*[B(L), B(L)+H] of its layer on the side named by the direction: the two slack polynomials have "
    "non-negative coefficients over the atom H - t >= 0 (sign certificate).  C08.LAYERS: B(L+1) - (B(L)+H) == G and "
    "B(0) == G.  C08.THICKNESS: H is the maximum over all nodes of the drawn across-axis size (justifying H - t >= 0). "
    "C08.TRUNC: origins are printed with an integer conversion (loss < 1) or in full, sizes in full.  Given C01 for "
    "the separation value; the numeric slack budget (< 3 along, < 1 across) is arithmetic on those facts and is not "
    "decided."
    "  Geometry is derived with and without showBorder (the TikZ bordered box is a separate code path); the caller's options reach the drawing (GEN.OPTS-MERGE)."
    '  C08.POSITIVE-SIZE: the default label height / width constants the library supplies are positive.'
)
ASSUMPTIONS = ["C01 (same-layer separation) holds", "H - t >= 0 by C08.THICKNESS"]

SIGMA = {"right": ("x", 1), "left": ("x", -1), "up": ("y", -1), "down": ("y", 1)}


def box_of(p, i, backend):
    """Origin (ox, oy) and size (w, h) holes of the box of node i as emitted by add_labels."""
    if backend == SVG:
        f, out, r = p.run_svg("add_labels")
        gs = [e for e in out if e["tag"] == "g" and key(e["attrib"].get("class", Const(""))) == "'label-g'"]
        rects = [e for e in out if e["tag"] == "rect"]
        if i >= len(gs) or i >= len(rects):
            return f, None
        t, h = flat(gs[i]["attrib"].get("transform"))
        if t != "translate(<0>, <1>)":
            return f, None
        wt, wh = flat(rects[i]["attrib"].get("width"))
        ht, hh = flat(rects[i]["attrib"].get("height"))
        if wt != "<0>" or ht != "<0>":
            return f, None
        return f, {"ox": h[0], "oy": h[1], "w": wh[0], "h": hh[0]}
    f, doc, r = p.run_tex("add_labels")
    shifts = []
    rects = []
    for d in doc:
        t, h = flat(d)
        if t == "\\begin{scope}[shift={(<0>, <1>)}]":
            shifts.append(h)
        import re
        m = re.search(r"rectangle \(<(\d+)>, <(\d+)>\)", t)
        if m:
            rects.append((h[int(m.group(1))], h[int(m.group(2))]))
    if i >= len(shifts) or i >= len(rects):
        return f, None
    return f, {"ox": shifts[i][0], "oy": shifts[i][1], "w": rects[i][0], "h": rects[i][1]}


def H_atom(p):
    ro = p.field(p.renderer, "options") if p.renderer is not None else None
    nh = ro.items.get("nodeHeight") if isinstance(ro, DictV) else None
    return nh


@rule("C08.GEOMETRY")
def geometry(ctx, R):
    P = ctx.P
    for backend in (SVG, TEX):
      for border in (False, True):
        for d in DIRECTIONS:
            p = emit.pipe(ctx, backend, d, n=2, show_border=border)
            tagb = "%s %s%s" % ("svg" if backend == SVG else "tex", d, " border" if border else "")
            if not p.nodes:
                R.bad("C08.ALONG", tagb + "|pipeline", "", "Timeline.compute() does not return (nodes, renderer): %s" % show(p.compute_result))
                continue
            Hn = as_num(H_atom(p)) if H_atom(p) is not None else None
            if Hn is None:
                R.bad("C08.THICKNESS", tagb + "|nodeHeight", "", "the renderer is not given a nodeHeight")
                continue
            axis, sign = SIGMA[d]
            for i, n in enumerate(p.nodes):
                f, box = box_of(p, i, backend)
                R.saw(f)
                if box is None:
                    R.bad("C08.ALONG", tagb + "|node %d box" % i, where(f), "cannot find the label box (origin + rectangle size) of node %d in add_labels" % i)
                    continue
                ox, oy, w, h = (as_num(box[k][0]) for k in ("ox", "oy", "w", "h"))
                if None in (ox, oy, w, h):
                    R.bad("C08.ALONG", tagb + "|node %d box values" % i, where(f), "box origin/size are not numeric expressions")
                    continue
                k_ = p.item_index(n)
                Pn, Ln, G = A("P%s" % k_), A("L%s" % k_), A("G")
                W = as_num(p.field(n, "width"))
                # along-axis
                o_al, s_al = (oy, h) if axis == "x" else (ox, w)
                o_ac, s_ac = (ox, w) if axis == "x" else (oy, h)
                R.check(o_al.equals(Pn - W / C(2)) and s_al.equals(W), "C08.ALONG", tagb + "|node %d" % i, where(f), "along-axis interval == [P - W/2, P + W/2], W = the engine's width",
                        "along the axis the box spans [%s, + %s] but the engine separated items of width %s centred at P: the drawn boxes are not the intervals that were separated (overlap or gaps in the drawing)" % (o_al.key(), s_al.key(), W.key()))
                # across-axis band; substitute H = t + E, E >= 0
                t = s_ac
                Hk = list(Hn.atoms())
                E = A("E")
                sub = {Hk[0]: t + E} if len(Hk) == 1 and Hn.equals(Num.atom(Hk[0])) else None
                if sub is None:
                    R.bad("C08.THICKNESS", tagb + "|H", where(f), "layer thickness %s is not a single maximum" % Hn.key())
                    continue
                B = Ln * (G + Hn) + G
                if sign > 0:
                    near = o_ac - B
                    far = (B + Hn) - (o_ac + t)
                else:
                    near = -B - (o_ac + t)
                    far = o_ac + (B + Hn)
                near_s, far_s = near.subst(sub), far.subst(sub)
                ok = near_s.coeff_signs_nonneg() and far_s.coeff_signs_nonneg() and set(near_s.atoms()) <= {"E"} and set(far_s.atoms()) <= {"E"}
                R.check(ok, "C08.BAND", tagb + "|node %d" % i, where(f), "box inside its layer band on the %s side: slack to the axis-side edge %s, to the far edge %s (E = H - t >= 0)" % (d, near_s.key(), far_s.key()),
                        "the box of a label in layer L does not stay inside the band %s[L(G+H)+G, L(G+H)+G+H] on the '%s' side: slack to the axis-side edge = %s, to the far edge = %s (must be non-negative combinations of H - t): boxes cross the layer gap, the axis or a neighbouring layer" % ("+" if sign > 0 else "-", d, near_s.key(), far_s.key()))
                # layers: the band origin as a function of L
                Bx = (o_ac - near) if sign > 0 else -(o_ac + t + near)
                Bx = Bx
                L = "L%s" % k_
                b1 = Bx.subst({L: Ln + C(1)})
                b0 = Bx.subst({L: C(0)})
                R.check((b1 - Bx - Hn).equals(G) and b0.equals(G), "C08.LAYERS", tagb + "|node %d" % i, where(f), "consecutive bands are a layer gap apart; the first band starts a layer gap from the axis", "band origin B(L) = %s: B(L+1) - B(L) - H = %s and B(0) = %s, both must equal the layer gap" % (Bx.key(), (b1 - Bx - Hn).key(), b0.key()))
                # truncation
                for nm in ("ox", "oy"):
                    spec = box[nm][1]
                    R.check(spec in ("%i", "%d", "str", "%s", "%f", "%.8f", "f:", "raw") or spec.startswith("%."), "C08.TRUNC", tagb + "|node %d %s" % (i, nm), where(f), "origin printed with %s" % spec, "box origin printed with `%s`" % spec, nontrivial=False)
                for nm in ("w", "h"):
                    spec = box[nm][1]
                    R.check(spec in ("str", "%s", "raw", "f:") or spec.startswith("%.") or spec == "%f", "C08.TRUNC", tagb + "|node %d %s" % (i, nm), where(f), "size printed in full (%s)" % spec, "box size printed with the truncating conversion `%s`: a box can be drawn up to 1 unit smaller/larger than what was separated" % spec, nontrivial=False)
            # thickness: H = max over ALL nodes of the across-axis drawn size
            want = []
            for n in p.nodes:
                want.append(key(p.field(n, "w" if axis == "x" else "h")))
            hk = key(H_atom(p))
            import itertools
            R.check(any(hk == "max-of([%s])" % ", ".join(perm) for perm in itertools.permutations(want)), "C08.THICKNESS", tagb, where(P.func("timeline.Timeline.compute")), "layer thickness = max over all nodes of the drawn across-axis size",
                    "the renderer's nodeHeight is %s, expected the maximum over all nodes of their drawn %s (%s): a thicker box would stick out of its layer band" % (hk, "width" if axis == "x" else "height", want))


def _imp(mod, name, rid):
    def run(ctx, R):
        import importlib
        return getattr(importlib.import_module("sa.rules." + mod), name)(ctx, R)
    run.rule_id = rid
    return run


@rule("C08.POSITIVE-SIZE")
def positive_size(ctx, R):
    """The band argument takes every box to have a positive extent: the sizes the library itself supplies when the caller
    gives none (the default label height, the default width) are positive constants."""
    P = ctx.P
    n = 0
    f = P.func("timeline.Item.__init__")
    R.saw(f)
    selfn = f.params[0]
    for nd in walk_local(f.node):
        if isinstance(nd, ast.Assign):
            for t in nd.targets:
                for tt in (t.elts if isinstance(t, (ast.Tuple, ast.List)) else [t]):
                    if isinstance(tt, ast.Attribute) and isinstance(tt.value, ast.Name) and tt.value.id == selfn and tt.attr in ("height", "width"):
                        v = _const_num(nd.value, f.module)
                        if v is not None:
                            n += 1
                            R.check(v > 0, "C08.POSITIVE-SIZE", "%s|default %s" % (f.qual, tt.attr), where(f, nd), "default %s %s > 0" % (tt.attr, v), "`%s`: a label without an explicit size gets the %s %s: boxes of non-positive extent are not the intervals that were separated" % (ntext(nd)[:50], tt.attr, v))
    m = P.modules["timeline"]
    for a in m.global_assigns("DEFAULT_WIDTH"):
        v = _const_num(a.value, m)
        if v is not None:
            n += 1
            R.check(v > 0, "C08.POSITIVE-SIZE", "timeline.DEFAULT_WIDTH", mwhere(m, a), "DEFAULT_WIDTH %s > 0" % v, "DEFAULT_WIDTH is %s" % v)
    R.check(n >= 1, "C08.POSITIVE-SIZE.inventory", "default sizes examined: %d" % n, "", "", "no default size constant found", nontrivial=False)


def _const_num(e, mod):
    if isinstance(e, ast.UnaryOp) and isinstance(e.op, ast.USub):
        v = _const_num(e.operand, mod)
        return None if v is None else -v
    if isinstance(e, ast.Constant) and isinstance(e.value, (int, float)) and not isinstance(e.value, bool):
        return e.value
    if isinstance(e, ast.Name):
        ga = mod.global_assigns(e.id)
        if len(ga) == 1:
            return _const_num(ga[0].value, mod)
    return None


RULES = [geometry, positive_size, _imp("c01", "sort_rule", "C01.SORT"), _imp("c01", "chain_rule", "C01.CHAIN"), _imp("c01", "gap_rule", "C01.GAP"), _imp("c01", "writeback", "C01.WRITEBACK"),
         _imp("c01", "alllayers", "C01.ALLLAYERS"), _imp("c04", "layeridx", "C04.LAYERIDX"), _imp("c11", "timeline_opts", "GEN.OPTS-MERGE")]
