"""C06 — a layout is a pure function of the labels and options."""
import ast

from .util import *
from . import qp
from . import state as statepack
from .c04 import reset, distribute_rule, optflow, stubattrs
from .c01 import sort_rule, alllayers
from .c02 import target

EXPLANATION = (
    "Purity of Force.compute is decided structurally: stale stub links are removed from every label before layering "
    "on every compute (C06.RESET); per Node attribute touched by code reachable from Force.compute (typed call graph) "
    "the readers/writers are confined to a table: inputs idealPos/width/data are never written, targetPos is written "
    "for all nodes before any read (QP-SETUP order), overlapCount/overlaps are recounted in every pass before the "
    "punting loop reads them, currentPos is read only as parent.currentPos (parent solved in an earlier layer) and in "
    "createStub's copy, layerIndex is not read (C06.NOSTALE); every order-sensitive consumer is dominated by a stable "
    "key sort on an input/fresh key: distribute by idealPos, removeOverlap by targetPos (C06.SORTED, C01.SORT); the "
    "engine keeps no state beyond {_nodes, layers, options, distributor options}, options reach the distributor and "
    "removeOverlap fresh on every call, nodes(x) resets the reported layering (C06.ENGINE, C04.OPTFLOW, "
    "C01.ALLLAYERS); iteration over the interval tree's result sets happens only in order-insensitive accumulations "
    "(C06.SETITER); no random/clock/id()/environment inputs on the compute call graph (C06.NONDET).  Value ties with "
    "different widths are excluded by the property."
    '  Also part of this check: private distributor options per engine (GEN.OPTS-MERGE), layerIndex assigned unconditionally for every layer (C04.LAYERIDX), complete stub chains (C04.STUBCHAIN).'
)
ASSUMPTIONS = ["sorted()/list.sort are stable and deterministic", "IntervalTree.overlap returns a set (arbitrary iteration order)"]

NODE_INIT = {"node.Node.__init__"}
STUBS = {"node.Node.createStub", "node.Node.removeStub"}


def _in(modules=(), funcs=()):
    """Predicate on a function: its top-level function is one of `funcs` or lives in one of `modules`
    (module granularity, so that extracting a helper inside the module is not an alarm)."""
    def pred(P, f):
        t = f
        while t.parent is not None:
            t = t.parent
        return t.qual in funcs or t.module.name in modules or f.qual in funcs
    return pred


NODE_ATTRS = {
    # attr: (allowed writers, allowed readers) among functions reachable from Force.compute
    "idealPos": (_in(funcs=NODE_INIT), None),
    "width": (_in(funcs=NODE_INIT), None),
    "data": (_in(funcs=NODE_INIT), None),
    "currentPos": (_in(modules=("removeOverlap",), funcs=NODE_INIT | {"node.Node.createStub"}), _in(modules=("removeOverlap",), funcs={"node.Node.createStub"})),
    "parent": (_in(funcs=NODE_INIT | STUBS), _in(modules=("removeOverlap",), funcs={"node.Node.removeStub"})),
    "child": (_in(funcs=NODE_INIT | STUBS), _in(funcs={"node.Node.isStub"})),
    "targetPos": (_in(modules=("removeOverlap",)), _in(modules=("removeOverlap",))),
    "overlapCount": (_in(modules=("distributor",), funcs=NODE_INIT), _in(modules=("distributor",))),
    "overlaps": (_in(modules=("distributor",)), _in(modules=("distributor",))),
    "layerIndex": (_in(modules=("force",), funcs=NODE_INIT), _in()),
}


def _top(P, f):
    while f.parent is not None:
        f = f.parent
    return f


@rule("C06.NOSTALE")
def nostale(ctx, R):
    P = ctx.P
    cg = ctx.cg
    reach = cg.reachable(["force.Force.compute"])
    # nested functions / lambdas of reachable functions are part of them
    for f in list(P.funcs.values()):
        if _top(P, f).qual in reach:
            reach.add(f.qual)
    R.note("functions reachable from Force.compute: %d" % len(reach))
    n = 0
    for q in sorted(reach):
        f = P.funcs.get(q)
        if f is None:
            continue
        R.saw(f)
        for nd in walk_local(f.node):
            if isinstance(nd, ast.Attribute) and nd.attr in NODE_ATTRS:
                writers, readers = NODE_ATTRS[nd.attr]
                n += 1
                topq = _top(P, f).qual
                if isinstance(nd.ctx, (ast.Store, ast.Del)) or isinstance(getattr(nd, "_parent", None), ast.AugAssign) and getattr(nd, "_parent").target is nd:
                    R.check(writers(P, f), "C06.NOSTALE", "write .%s in %s" % (nd.attr, q), where(f, nd), "known writer", "`%s` writes Node.%s on the layout path: %s" % (q, nd.attr, "an input of the layout is overwritten, so a second compute() starts from different data" if nd.attr in ("idealPos", "width", "data") else "state that a later compute() or layer can read back"))
                if isinstance(nd.ctx, ast.Load) and readers is not None:
                    okr = readers(P, f)
                    if not okr:
                        # a helper elsewhere that reads on behalf of allowed readers only (an alternative constructor, an
                        # accessor): every function that calls it on the layout path is itself an allowed reader
                        def via_allowed(g_, depth=0):
                            cs = [P.funcs[c] for c in cg.inn.get(_top(P, g_).qual, ()) if c in P.funcs and c in reach]
                            return bool(cs) and depth < 3 and all(readers(P, c) or via_allowed(c, depth + 1) for c in cs)

                        okr = via_allowed(f)
                    R.check(okr, "C06.NOSTALE", "read .%s in %s" % (nd.attr, q), where(f, nd), "read after a write in the same compute()", "`%s` reads Node.%s on the layout path: the value may be left over from an earlier layout (stale position / layer / overlap count), so the result depends on history" % (q, nd.attr))
    R.check(n >= 25, "C06.NOSTALE.inventory", "Node attribute accesses examined: %d" % n, "", "", "too few Node attribute accesses found on the compute call graph", nontrivial=False)
    # overlap counts are recounted in every pass before the punting loop reads them
    f = P.func("distributor.Distributor.algorithm_overlap")
    cfg = ctx.cfg(f)
    whiles = [c for c in cfg.loops if isinstance(c["stmt"], ast.While)]
    outer = [w for w in whiles if any(isinstance(x, ast.While) and x is not w["stmt"] for x in ast.walk(w["stmt"]))]
    inner = [w for w in whiles if w not in outer]
    if len(outer) == 1 and len(inner) == 1:
        cnt = [n_ for n_ in cfg.loop_body(outer[0]) if n_.ast is not None and any(isinstance(c.func, ast.Attribute) and c.func.attr == "countIdealOverlaps" for c in calls_in(n_.ast) + ([n_.ast.value] if isinstance(n_.ast, ast.Expr) and isinstance(n_.ast.value, ast.Call) else []))]
        ok = bool(cnt) and cfg.dominates(cnt[0], inner[0]["head"]) and cnt[0] not in cfg.loop_body(inner[0])
        # its argument is the list the working layer is copied from
        argok = False
        if cnt:
            c = [c for c in calls_in(cnt[0].ast) + [cnt[0].ast.value] if isinstance(c, ast.Call) and isinstance(c.func, ast.Attribute) and c.func.attr == "countIdealOverlaps"][0]
            arg = ntext(c.args[0]) if c.args else None
            copies = [n_ for n_ in cfg.loop_body(outer[0]) if n_.kind == "stmt" and isinstance(n_.ast, ast.Assign) and ntext(n_.ast.value) in ("%s[:]" % arg, "list(%s)" % arg, "%s.copy()" % arg)]
            argok = bool(copies) and cfg.dominates(cnt[0], copies[0]) or any(cfg.dominates(cp, cnt[0]) for cp in copies)
        R.check(ok and argok, "C06.NOSTALE", "overlap counts recounted per pass", where(f), "countIdealOverlaps(labels of this pass) dominates the punting loop", "overlap counts are not recomputed for the labels of each pass before the punting loop reads them: counts left over from a previous pass or layout decide which label is punted")
    g = P.func("distributor.Distributor.countIdealOverlaps")
    R.saw(g)
    loops_ = [l for l in g.node.body if isinstance(l, ast.For)]
    wr = {}
    for l in loops_:
        for nd in ast.walk(l):
            if isinstance(nd, ast.Attribute) and isinstance(nd.ctx, ast.Store) and nd.attr in ("overlaps", "overlapCount") and ntext(nd.value) == ntext(l.target) and ntext(l.iter) == g.params[1]:
                wr[nd.attr] = True
    R.check(wr.get("overlaps") and wr.get("overlapCount"), "C06.NOSTALE", "countIdealOverlaps writes both for every node", where(g), "overlaps and overlapCount are set for every node passed in", "countIdealOverlaps does not set both overlaps and overlapCount for every node it is given")


@rule("C06.SETITER")
def setiter(ctx, R):
    P = ctx.P
    g = P.func("distributor.Distributor.countIdealOverlaps")
    f = P.func("distributor.Distributor.algorithm_overlap")
    n = 0
    # sources of arbitrary order: results of .overlap(...) / set(...) / set displays
    for h in (g, f):
        for nd in walk_local(h.node):
            if isinstance(nd, ast.Assign) and isinstance(nd.value, ast.Call) and isinstance(nd.value.func, ast.Attribute) and nd.value.func.attr in ("overlap", "envelop", "at") and isinstance(nd.targets[0], ast.Name):
                var = nd.targets[0].id
                uses = [u for u in walk_local(h.node) if isinstance(u, ast.Name) and u.id == var and isinstance(u.ctx, ast.Load)]
                for u in uses:
                    par = getattr(u, "_parent", None)
                    n += 1
                    ok = False
                    what = ntext(par)[:60] if par is not None else "?"
                    if isinstance(par, ast.Call) and isinstance(par.func, ast.Name) and par.func.id == "len":
                        ok = True
                    elif isinstance(par, ast.comprehension):
                        comp = getattr(par, "_parent", None)
                        asg = getattr(comp, "_parent", None)
                        ok = isinstance(comp, ast.ListComp) and isinstance(asg, ast.Assign) and isinstance(asg.targets[0], ast.Attribute) and asg.targets[0].attr == "overlaps"
                    R.check(ok, "C06.SETITER", "%s|use of set `%s`: %s" % (h.qual, var, what), where(h, u), "the set is only measured or stored for order-insensitive use", "the interval tree's result set `%s` is used in `%s`: its iteration order is arbitrary, so the result can differ between runs or input orders" % (var, what))
    # consumers of .overlaps: commutative accumulation only
    for h in P.funcs.values():
        for nd in walk_local(h.node):
            if isinstance(nd, ast.Attribute) and nd.attr == "overlaps" and isinstance(nd.ctx, ast.Load):
                par = getattr(nd, "_parent", None)
                n += 1
                ok = False
                if isinstance(par, ast.For) and par.iter is nd and len(par.body) == 1 and isinstance(par.body[0], ast.AugAssign) and isinstance(par.body[0].op, (ast.Add, ast.Sub)) and isinstance(par.body[0].value, ast.Constant) and isinstance(par.body[0].target, ast.Attribute) and ntext(par.body[0].target.value) == ntext(par.target):
                    ok = True
                if isinstance(par, ast.Call) and isinstance(par.func, ast.Name) and par.func.id == "len":
                    ok = True
                R.check(ok, "C06.SETITER", "%s|consumer of .overlaps" % h.qual, where(h, nd), "overlap lists feed only a commutative count update", "`%s` consumes node.overlaps (built in set order) in an order-sensitive way" % h.qual)
    R.check(n >= 3, "C06.SETITER.inventory", "set-order uses examined: %d" % n, "", "", "expected the interval-tree uses in countIdealOverlaps / algorithm_overlap", nontrivial=False)


NONDET_EXT = ("random.", "uuid.", "secrets.", "time.time", "time.monotonic", "time.perf_counter", "time.process_time", "os.environ", "os.getpid", "os.urandom", "datetime.datetime.now", "datetime.datetime.today", "datetime.datetime.utcnow", "datetime.date.today", "threading.", "multiprocessing.")


def nondet_scan(ctx, R, rule_id, roots, skip=()):
    P = ctx.P
    cg = ctx.cg
    reach = cg.reachable(roots, stop=skip)
    for f in list(P.funcs.values()):
        if _top(P, f).qual in reach:
            reach.add(f.qual)
    n = 0
    for q in sorted(reach):
        f = P.funcs.get(q)
        if f is None:
            continue
        for nd in walk_local(f.node):
            if isinstance(nd, (ast.Attribute, ast.Name)) and isinstance(getattr(nd, "ctx", None), ast.Load):
                en = ext_name(nd, f.module, f, ctx.types)
                if en is not None:
                    n += 1
                    par = getattr(nd, "_parent", None)
                    if isinstance(par, ast.Attribute) and par.value is nd:
                        continue  # judged at the full dotted name
                    if any(en == p or en.startswith(p) for p in NONDET_EXT):
                        R.bad(rule_id, "%s|%s" % (q, en), where(f, nd), "`%s` (%s) makes the result depend on something other than the inputs" % (ntext(nd), en))
            if isinstance(nd, ast.Call) and isinstance(nd.func, ast.Name) and nd.func.id in ("id", "hash") and nd.func.id not in ctx.types.locals.get(f.qual, ()):
                R.bad(rule_id, "%s|%s()" % (q, nd.func.id), where(f, nd), "`%s` depends on object identity / hash randomisation" % ntext(nd)[:50])
    R.ok(rule_id, "external references on the call graph examined: %d (functions: %d)" % (n, len(reach)), "", "no clock / random / environment / identity inputs", nontrivial=False)
    return reach


@rule("C06.NONDET")
def nondet(ctx, R):
    nondet_scan(ctx, R, "C06.NONDET", ["force.Force.compute", "force.Force.nodes", "force.Force.set_options", "force.Force.__init__"])


@rule("C06.ENGINE")
def engine(ctx, R):
    P = ctx.P
    statepack.no_hidden_state(ctx, R, "C06.ENGINE", modules=["force", "distributor", "removeOverlap", "node", "vpsc"], classes={
        "force.Force": {"force", "options", "distributor", "_nodes", "layers"},
        "distributor.Distributor": {"options"},
    })
    f = P.func("force.Force.nodes")
    R.saw(f)
    ev = new_eval(P)
    ev.assume("truth(X)", True)
    st = ev.new_state(f)
    s = Opaque("self", cls=P.cls("force.Force"), kind="obj")
    st.heap[("self", "layers")] = Opaque("OLD")
    st.heap[("self", "_nodes")] = Opaque("OLDNODES")
    ev.call_closure(Closure(f, None, selfv=s), [Opaque("X")], {}, st)
    R.check(key(st.heap.get(("self", "_nodes"))) == "X" and key(st.heap.get(("self", "layers"))) == "None", "C06.ENGINE", "Force.nodes(x)", where(f), "nodes(x) replaces the labels and forgets the old layering", "nodes(x) leaves _nodes=%s layers=%s" % (key(st.heap.get(("self", "_nodes"))), key(st.heap.get(("self", "layers")))))


def _optsmerge(ctx, R):
    from .c11 import opts_merge
    return opts_merge(ctx, R)


_optsmerge.rule_id = "GEN.OPTS-MERGE"


def _layeridx(ctx, R):
    from .c04 import layeridx
    return layeridx(ctx, R)


_layeridx.rule_id = "C04.LAYERIDX"

def _stubchain(ctx, R):
    from .c04 import stubchain_instance, stubchain
    stubchain_instance(ctx, R)
    stubchain(ctx, R)


_stubchain.rule_id = "C04.STUBCHAIN"

def _layerwidth(ctx, R):
    from .c03 import layerwidth
    return layerwidth(ctx, R)


_layerwidth.rule_id = "C03.LAYERWIDTH"

# re-configuring an engine must leave it as a fresh engine with the same options would be: the derived layer width follows
# the engine's current bounds, not the dict of the last set_options call
RULES = [reset, nostale, distribute_rule, sort_rule, target, alllayers, optflow, stubattrs, setiter, nondet, engine, _optsmerge, _layeridx, _stubchain, _layerwidth]
